import NaijaVerif.Model.Parse
/-
The expression printer used by the parser round-trip theorems (`Lemmas/ParseRoundTrip.lean`,
`Props/C01Parse.lean`, `Props/C10Parse.lean`) and by the driver's `rt` self-check: minimal
parenthesisation driven by the generated binding-power table, plus any number of redundant pairs.
Definitions only (core-only, linked into `nvdriver`).
-/
namespace NaijaVerif.Parse
open NaijaVerif

/-! ### Table access for printing -/

/-- Row of a binary operator: `(token, l_bp, r_bp)`. -/
def binRow (op : BinOp) : Tok × Nat × Nat :=
  match Gen.Pratt.binTable.find? (fun r => r.2.1 == op) with
  | some (t, _, l, r) => (t, l, r)
  | none => (.eof, 0, 0)

/-- Row of a prefix operator: `(token, operand bp)`. -/
def unRow (op : UnOp) : Tok × Nat :=
  match Gen.Pratt.unaryTable.find? (fun r => r.2.1 == op) with
  | some (t, _, bp) => (t, bp)
  | none => (.eof, 0)

/-- The level at which the object of a postfix form (call, index, member) is printed: above every
    prefix operand power. -/
def postfixLevel : Nat := Gen.Pratt.unaryTable.foldl (fun m r => max m r.2.2) 0 + 1

def isPostfixStart (t : Tok) : Bool := t == .dot || t == .lparen || t == .lbracket

/-! ### Tokens in front of a state -/

def mkTok (t : Tok) : SpTok := ⟨t, ⟨0, 0⟩⟩

/-- `pushToks ts st`: the state whose remaining input is `ts` (with erased spans) followed by the
    input of `st`. -/
def pushToks : List Tok → PState → PState
  | [], st => st
  | t :: ts, st => ⟨mkTok t, ts.map mkTok ++ st.cur :: st.rest, st.errs⟩

/-! ### Printer -/

/-- A template that scans back to a literal / variable segment. -/
def renderSeg : Seg → Bytes
  | .lit s => if s = [lbrace] then [lbrace, lbrace] else if s = [rbrace] then [rbrace, rbrace] else s
  | .var n _ => lbrace :: n ++ [rbrace]

def renderSegs (segs : List Seg) : Bytes := (segs.map renderSeg).flatten

/-- The token of a string expression (static strings are printed as `escaped`, which the parser never
    interpolates). -/
def strTok : StrParts → Tok
  | .static s => .str s true
  | .interp segs => .str (renderSegs segs) false

def paren (ts : List Tok) : List Tok := .lparen :: ts ++ [.rparen]

/-- `n` pairs of parentheses around `ts`. -/
def wrapN : Nat → List Tok → List Tok
  | 0, ts => ts
  | n + 1, ts => wrapN n (paren ts)

/-- Does `e` need parentheses as an operand at level `c`? -/
def needs (c : Nat) : Expr → Bool
  | .binary op _ _ _ => (binRow op).2.1 < c
  | .unary op _ _ => (unRow op).2 < c
  | _ => false

/-- Required parentheses, then `p e` redundant pairs. -/
def wrap (p : Expr → Nat) (c : Nat) (e : Expr) (ts : List Tok) : List Tok :=
  wrapN (p e) (if needs c e then paren ts else ts)

mutual
  /-- Print `e` as an operand at level `c`; `p` says how many redundant pairs of parentheses to put
      around each sub-expression. -/
  def printAt (p : Expr → Nat) (c : Nat) : Expr → List Tok
    | .num l s => wrap p c (.num l s) [.num l]
    | .str parts s => wrap p c (.str parts s) [strTok parts]
    | .var n b s => wrap p c (.var n b s) [.ident n]
    | .bool b s => wrap p c (.bool b s) [if b then .tru else .fals]
    | .null s => wrap p c (.null s) [.null]
    | .unary op e s => wrap p c (.unary op e s) ((unRow op).1 :: printAt p (unRow op).2 e)
    | .binary op l r s =>
      wrap p c (.binary op l r s)
        (printAt p (binRow op).2.1 l ++ (binRow op).1 :: printAt p (binRow op).2.2 r)
    | .member o f fs s => wrap p c (.member o f fs s) (printAt p postfixLevel o ++ [.dot, .ident f])
    | .call cal args fn s =>
      wrap p c (.call cal args fn s) (printAt p postfixLevel cal ++ .lparen :: (printArgs p args ++ [.rparen]))
    | .index a i is s =>
      wrap p c (.index a i is s) (printAt p postfixLevel a ++ .lbracket :: (printAt p 0 i ++ [.rbracket]))
    | .array es s => wrap p c (.array es s) (.lbracket :: (printArgs p es ++ [.rbracket]))
  /-- Comma-separated, each at level 0, no trailing comma. -/
  def printArgs (p : Expr → Nat) : List Expr → List Tok
    | [] => []
    | [e] => printAt p 0 e
    | e :: e' :: es => printAt p 0 e ++ .comma :: printArgs p (e' :: es)
end

/-- Minimal parenthesisation. -/
def printMin (e : Expr) : List Tok := printAt (fun _ => 0) 0 e
/-- Full parenthesisation: one redundant pair around every sub-expression. -/
def printFull (e : Expr) : List Tok := printAt (fun _ => 1) 0 e

/-! ### Statements -/

def paramToks : List Param → List Tok
  | [] => []
  | [q] => [.ident q.name]
  | q :: r :: ps => .ident q.name :: .comma :: paramToks (r :: ps)

mutual
  /-- Canonical token sequence of a statement (`make` always with `get`; expressions printed with
      `printAt p 0`). -/
  def printStmt (p : Expr → Nat) : Stmt → List Tok
    | .fnDef n _ ps b _ _ _ =>
      .do :: .ident n :: .lparen :: (paramToks ps ++ .rparen :: .start :: (printBlock p b ++ [.end]))
    | .assign v _ e _ _ _ => .make :: .ident v :: .get :: printAt p 0 e
    | .assignExisting v _ e _ _ _ => .ident v :: .get :: printAt p 0 e
    | .assignIndex t e _ _ => printAt p 0 t ++ .get :: printAt p 0 e
    | .ifS c t none _ _ =>
      .ifToSay :: .lparen :: (printAt p 0 c ++ .rparen :: .start :: (printBlock p t ++ [.end]))
    | .ifS c t (some e) _ _ =>
      .ifToSay :: .lparen :: (printAt p 0 c ++ .rparen :: .start ::
        (printBlock p t ++ .end :: .ifNotSo :: .start :: (printBlock p e ++ [.end])))
    | .loop c b _ _ => .jasi :: .lparen :: (printAt p 0 c ++ .rparen :: .start :: (printBlock p b ++ [.end]))
    | .block b _ _ => .start :: (printBlock p b ++ [.end])
    | .ret none _ _ => [.ret]
    | .ret (some e) _ _ => .ret :: printAt p 0 e
    | .brk _ _ => [.comot]
    | .cont _ _ => [.next]
    | .expr e _ _ => printAt p 0 e
  def printStmts (p : Expr → Nat) : List Stmt → List Tok
    | [] => []
    | s :: ss => printStmt p s ++ printStmts p ss
  def printBlock (p : Expr → Nat) : Block → List Tok
    | .mk ss _ => printStmts p ss
end

/-- The token list of a program, as the lexer delivers it: spans erased, closing `EOF`. -/
def programToks (p : Expr → Nat) (b : Block) : List SpTok :=
  (printBlock p b).map mkTok ++ [mkTok .eof]

end NaijaVerif.Parse
