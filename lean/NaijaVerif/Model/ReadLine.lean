/-
Model of `read_line` (`src/sys/unix.rs`, `impl Stdin for UnixStdin`) over a *chunk stream*.

The input is a list of chunks (`List (List Nat)`, bytes as `Nat`): what the writer handed to the
kernel, one `write(2)` at a time, each chunk becoming visible only after the previous one has been
read completely (that is how the harness feeds the real code).  One `read(2)` with room for
`count` bytes returns a non-empty prefix of the next chunk — the whole chunk if it fits — and `0`
bytes for ever once the chunks are used up.  Empty chunks are invisible (a zero-length write
produces nothing to read).

Two algorithms are modelled:

* `readLine`    — the code after the fix for D-17 (`proposed-fixes/D-17.diff`): a process-wide
                  `PENDING : Vec<u8>` keeps the bytes that were read but not yet returned.  State
                  between calls = `pending` + its capacity + the remaining chunks.
* `readLineOld` — the pinned code: a fresh buffer per call, nothing survives the call.  (The
                  pinned code also under-reserves when it doubles its buffer — `reserve_exact` on
                  a `Vec` whose `len` is still 0 — and so writes past its allocation for lines
                  above the initial capacity; the old model idealises that away and describes the
                  doubling the author intended.  The defect it documents needs 8 bytes.)

Only `"\n"` is a terminator: neither algorithm looks at `"\r"`, so a CRLF line keeps its `\r`.

Core-only imports (this file is linked into the `nvdriver` executable).
-/
namespace NaijaVerif.ReadLine

/-- `b'\n'`, the needle of the `memchr` call. -/
def newline : Nat := 10

/-- `8 * KIBI`: the first capacity given to the buffer. -/
def initialCap : Nat := 8192

/-- `memchr_rs::memchr(needle, hay, off)`: index of the first `needle` at or after `off`
(clamped to the length), `hay.len()` when there is none. -/
def memchr (needle : Nat) (hay : List Nat) (off : Nat) : Nat :=
  let o := min off hay.length
  o + (hay.drop o).findIdx (· == needle)

/-- One `read(2)` with room for `count` bytes: `(bytes delivered, chunks still to come)`;
no bytes = end of input (or `count = 0`). -/
def sysRead (count : Nat) : List (List Nat) → List Nat × List (List Nat)
  | [] => ([], [])
  | [] :: cs => sysRead count cs
  | (b :: c) :: cs =>
      if (b :: c).length ≤ count then (b :: c, cs)
      else ((b :: c).take count, (b :: c).drop count :: cs)

/-! ## The fixed code -/

structure St where
  pending : List Nat            -- `PENDING`: read, not yet returned
  cap     : Nat                 -- `PENDING.capacity()`
  input   : List (List Nat)     -- chunks not yet read
deriving Repr, DecidableEq

def St.init (chunks : List (List Nat)) : St := { pending := [], cap := 0, input := chunks }

/-- Everything the program has not been given yet, as one text. -/
def St.text (s : St) : List Nat := s.pending ++ s.input.flatten

/-- `pending.reserve_exact(pending.capacity().max(8 * KIBI))` when `len == capacity`. -/
def grow (c0 len cap : Nat) : Nat := if len = cap then cap + max cap c0 else cap

/-- The `loop` of the fixed `read_line`; `c0` is the initial capacity, `scanned` the local of the
same name.  Returns `end` and the state at the `break`. -/
def readLoop (c0 : Nat) : Nat → Nat → St → Option (Nat × St)
  | 0, _, _ => none
  | fuel + 1, scanned, s =>
      let index := memchr newline s.pending scanned
      if index < s.pending.length then some (index, s)
      else
        let cap := grow c0 s.pending.length s.cap
        match sysRead (cap - s.pending.length) s.input with
        | ([], rest) => some (s.pending.length, { s with cap := cap, input := rest })
        | (got, rest) =>
            readLoop c0 fuel s.pending.length { pending := s.pending ++ got, cap := cap, input := rest }

/-- Enough fuel: every turn of the loop that does not leave it consumes at least one input byte. -/
def fuelFor (s : St) : Nat := s.input.flatten.length + 1

/-- One call of the fixed `read_line`: the line and the state left for the next call
(`none` = the loop ran out of fuel; `readLine_total` in `Props/C17.lean` shows it never does). -/
def readLine (c0 : Nat) (s : St) : Option (List Nat × St) :=
  match readLoop c0 (fuelFor s) 0 s with
  | none => none
  | some (e, s') =>
      let consumed := min s'.pending.length (e + 1)
      some (s'.pending.take e, { s' with pending := s'.pending.drop consumed })

/-- `k` successive calls. -/
def readLinesFrom (c0 : Nat) : Nat → St → Option (List (List Nat))
  | 0, _ => some []
  | k + 1, s =>
      match readLine c0 s with
      | none => none
      | some (l, s') =>
          match readLinesFrom c0 k s' with
          | none => none
          | some ls => some (l :: ls)

def readLines (k : Nat) (chunks : List (List Nat)) : Option (List (List Nat)) :=
  readLinesFrom initialCap k (St.init chunks)

/-! ## The pinned code (no state between calls) -/

/-- The `loop` of the pinned `read_line`: `buf[..len]`, `cap`; returns the line and the chunks
left in the kernel (whatever else was read is gone). -/
def readLoopOld : Nat → List Nat → Nat → List (List Nat) → Option (List Nat × List (List Nat))
  | 0, _, _, _ => none
  | fuel + 1, buf, cap, input =>
      let cap := if buf.length = cap then cap * 2 else cap
      match sysRead (cap - buf.length) input with
      | ([], rest) => some (buf, rest)
      | (got, rest) =>
          let buf' := buf ++ got
          let index := memchr newline buf' buf.length
          if index < buf'.length then some (buf'.take index, rest)
          else readLoopOld fuel buf' cap rest

def readLineOld (c0 : Nat) (input : List (List Nat)) : Option (List Nat × List (List Nat)) :=
  readLoopOld (input.flatten.length + 1) [] c0 input

def readLinesOldFrom (c0 : Nat) : Nat → List (List Nat) → Option (List (List Nat))
  | 0, _ => some []
  | k + 1, input =>
      match readLineOld c0 input with
      | none => none
      | some (l, rest) =>
          match readLinesOldFrom c0 k rest with
          | none => none
          | some ls => some (l :: ls)

def readLinesOld (k : Nat) (chunks : List (List Nat)) : Option (List (List Nat)) :=
  readLinesOldFrom initialCap k chunks

/-- Line-wise delivery, as a terminal in canonical mode does it: every chunk is one whole line
ending in its newline, no longer than the buffer. -/
def lineWise (c0 : Nat) (chunks : List (List Nat)) : Bool :=
  chunks.all fun c => decide (c.length ≤ c0) && c.getLast? == some newline && !c.dropLast.contains newline

/-! ## Specification: the lines of a text -/

/-- The first line of a text (the bytes before the first `\n`) and what follows that `\n`. -/
def splitLine : List Nat → List Nat × List Nat
  | [] => ([], [])
  | b :: bs => if b = newline then ([], bs) else ((splitLine bs).1 |> (b :: ·), (splitLine bs).2)

/-- The first `k` lines of a text: terminator removed, a final partial line once, then empty
lines for ever. -/
def takeLines : Nat → List Nat → List (List Nat)
  | 0, _ => []
  | k + 1, t => (splitLine t).1 :: takeLines k (splitLine t).2

/-! ## UTF-8 validity (as `core::str::from_utf8` decides it) -/

/-- Decoder state: continuation bytes still owed, and the range allowed for the next one. -/
structure U8 where
  need : Nat
  lo   : Nat
  hi   : Nat
deriving Repr, DecidableEq

def U8.start : U8 := ⟨0, 0, 0⟩

def u8step (s : U8) (b : Nat) : Option U8 :=
  if s.need = 0 then
    if b < 0x80 then some U8.start
    else if 0xC2 ≤ b ∧ b ≤ 0xDF then some ⟨1, 0x80, 0xBF⟩
    else if b = 0xE0 then some ⟨2, 0xA0, 0xBF⟩
    else if b = 0xED then some ⟨2, 0x80, 0x9F⟩
    else if 0xE1 ≤ b ∧ b ≤ 0xEF then some ⟨2, 0x80, 0xBF⟩
    else if b = 0xF0 then some ⟨3, 0x90, 0xBF⟩
    else if 0xF1 ≤ b ∧ b ≤ 0xF3 then some ⟨3, 0x80, 0xBF⟩
    else if b = 0xF4 then some ⟨3, 0x80, 0x8F⟩
    else none
  else if 0x80 ≤ b ∧ s.lo ≤ b ∧ b ≤ s.hi then
    (if s.need = 1 then some U8.start else some ⟨s.need - 1, 0x80, 0xBF⟩)
  else none

def u8run : U8 → List Nat → Option U8
  | s, [] => some s
  | s, b :: bs =>
      match u8step s b with
      | none => none
      | some s' => u8run s' bs

def validUtf8 (l : List Nat) : Bool := u8run U8.start l == some U8.start

end NaijaVerif.ReadLine
