import NaijaVerif.Model.Lex
/-
`src/syntax/scanner.rs`, `scan_string`: the **capacity** of the string buffer (what the lexer makes the
bump arena hand out).  `Model/Lex.lean` models the *content* of the buffer; this file follows the same
loop a second time and tracks `buffer.capacity()` and `buffer.len()`.

The buffer is `ArenaString { vec: Vec<u8, &Arena> }`, created empty (capacity 0, nothing allocated).

* `reserve_exact(n)` (`RawVec::grow_exact`): if `n > cap - len` the capacity becomes exactly `len + n`.
* `push_str(s)` = `Vec::extend_from_slice` and `push(ch)` = `Vec::push` / `extend_from_slice` both go
  through `reserve(n)` (`RawVec::grow_amortized`): if `n > cap - len` the capacity becomes
  `max(8, max(2·cap, len + n))` (8 = `min_non_zero_cap` for one-byte elements).
* The arena never takes memory back (`Model/Bump.lean`), so the final capacity of every buffer that
  ends up in a token (`ArenaCow::Owned`) stays allocated until the arena is reset; re-allocations on
  the way are at most a geometric series below it.

Where the reservation happens (fixed code, /repo 7525b16, D-19):
```
} else if c == b'\\' {
    has_escape = true;
    if buffer.is_empty() {
        let hint = memchr2(quote, b'\n', bytes, quote_or_escape + 2).min(newline);
        buffer.reserve_exact(hint);
        buffer.push_str(&src[beg..pos]);
    } else if self.pos < pos { buffer.push_str(&src[self.pos..pos]); }
```
`buffer.is_empty()` is true at the first escape (then `self.pos = beg`) and never again: every escape
that does not return pushes at least one byte (`Lemmas/LexMem.lean`, `bufLoop_after`, needs `1 ≤ len`
only).  The model nevertheless tests `len == 0` like the code and pushes `pos - beg` bytes.

The PINNED code (before the fix) did `buffer.reserve_exact(bytes.len())`: `hintPinned`.
-/
namespace NaijaVerif.Lex

/-- `memchr2(a, b, hay, start)` of `memchr-rs`: index (in `hay`) of the first `a` or `b` at or after
`start`, `hay.len()` if there is none; `start` is clamped to `hay.len()`. -/
def memchr2From (a b : Nat) (hay : Bytes) (start : Nat) : Nat :=
  min start hay.length + ((hay.drop start).takeWhile (fun x => x != a && x != b)).length

/-- capacity and length of a `Vec<u8>` -/
structure Buf where
  cap : Nat
  len : Nat
deriving Repr, DecidableEq, Inhabited

/-- `Vec::reserve_exact(add)` -/
def Buf.reserveExact (b : Buf) (add : Nat) : Buf :=
  if add > b.cap - b.len then ⟨b.len + add, b.len⟩ else b

/-- `Vec::reserve(add)` -/
def Buf.reserve (b : Buf) (add : Nat) : Buf :=
  if add > b.cap - b.len then ⟨max 8 (max (2 * b.cap) (b.len + add)), b.len⟩ else b

/-- `push_str` of `n` bytes / `push` of a character of `n` bytes -/
def Buf.push (b : Buf) (n : Nat) : Buf :=
  let b' := b.reserve n
  ⟨b'.cap, b'.len + n⟩

/-- the buffer when `scan_string` returns -/
structure BufRes where
  /-- `buffer.capacity()` -/
  cap : Nat
  /-- `buffer.len()` -/
  len : Nat
  /-- `has_escape`: the token is `ArenaCow::Owned(buffer)` (otherwise the buffer is dropped, unused) -/
  owned : Bool
  /-- `src[self.pos..]` when the function returns -/
  rest : Bytes
  /-- left through one of the two end-of-input exits (no quote/backslash left, or a backslash as the
  last byte): the cursor is **not** moved past what was scanned -/
  atEof : Bool
deriving Repr, DecidableEq, Inhabited

/-- the reservation of the fixed code: up to the next quote or LF after the escape, at most up to
the next line end -/
def hintFixed (quote : Nat) (bytes : Bytes) (qe nl : Nat) : Nat :=
  min (memchr2From quote 10 bytes (qe + 2)) nl

/-- the reservation of the pinned code: everything up to the end of the source -/
def hintPinned (_quote : Nat) (bytes : Bytes) (_qe _nl : Nat) : Nat := bytes.length

/-- The `loop` of `scan_string`, buffer side.  `rest` = `src[self.pos..]`, `off` = `self.pos - beg`,
`esc` = `has_escape`; same branches in the same order as `scanStrLoop`. -/
def bufLoop (hint : Nat → Bytes → Nat → Nat → Nat) (quote : Nat) : Nat → Bytes → Nat → Bool → Buf → BufRes
  | 0, rest, _, esc, b => ⟨b.cap, b.len, esc, rest, false⟩
  | f+1, rest, off, esc, b =>
    let qe := (rest.takeWhile (notQuoteEsc quote)).length   -- quote_or_escape
    let nl := (rest.takeWhile notNl).length                  -- newline
    if nl < qe then
      -- unterminated at a line end: the buffer is returned as it is
      ⟨b.cap, b.len, esc, rest.drop nl, false⟩
    else
      match rest.dropWhile (notQuoteEsc quote) with
      | [] => ⟨b.cap, b.len, esc, rest, true⟩
      | q :: after =>
        if q == quote then
          -- `if has_escape { if self.pos < pos { buffer.push_str(..) } }`
          let b' := if esc && decide (0 < qe) then b.push qe else b
          ⟨b'.cap, b'.len, esc, after, false⟩
        else
          let b1 :=
            if b.len == 0 then ((b.reserveExact (hint quote rest qe nl)).push (off + qe))
            else if 0 < qe then b.push qe else b
          match after with
          | [] => ⟨b1.cap, b1.len, true, rest, true⟩        -- `pos + 1 >= self.len`
          | e :: _ =>
            match escapeOf quote e with
            | some _ => bufLoop hint quote f (after.drop 1) (off + qe + 2) true (b1.push 1)
            | none =>
              let k := charLen e
              bufLoop hint quote f (after.drop k) (off + qe + 1 + k) true (b1.push (after.take k).length)

/-- the buffer of the string token whose opening quote is at `lo` -/
def strBuf (hint : Nat → Bytes → Nat → Nat → Nat) (src : Bytes) (lo : Nat) : BufRes :=
  match src.drop lo with
  | [] => ⟨0, 0, false, [], false⟩
  | q :: body => bufLoop hint q (body.length + 1) body 0 false ⟨0, 0⟩

/-- **final capacity of the buffer** of the string token whose opening quote is at `lo` -/
def strCap (src : Bytes) (lo : Nat) : Nat := (strBuf hintFixed src lo).cap
/-- … in the pinned code -/
def strCapPinned (src : Bytes) (lo : Nat) : Nat := (strBuf hintPinned src lo).cap
/-- did `scan_string` leave through an end-of-input exit? -/
def strAtEof (src : Bytes) (lo : Nat) : Bool := (strBuf hintFixed src lo).atEof

/-- `Token::String(ArenaCow::Owned(_))` -/
def isOwnedStr (t : SpTok) : Bool :=
  match t.tok with
  | .str _ true => true
  | _ => false

/-- capacities of the buffers of the owned string tokens of `ts`, in order -/
def capsOf (cap : Bytes → Nat → Nat) (src : Bytes) (ts : List SpTok) : List Nat :=
  (ts.filter isOwnedStr).map fun t => cap src t.span.lo

/-- **what the lexer reserves**: `buffer.capacity()` of every `ArenaCow::Owned` string token of `src` -/
def lexCaps (src : Bytes) : List Nat := capsOf strCap src (lex src).1
/-- … in the pinned code -/
def lexCapsPinned (src : Bytes) : List Nat := capsOf strCapPinned src (lex src).1

end NaijaVerif.Lex
