import NaijaVerif.Model.Diag
/-
Model of `src/analysis/limits.rs`: `AnalysisCaps`, the counted resources the preflight looks at,
the two derived event bounds with the code's saturating `u64` arithmetic, and
`first_exceeded_limit` in the code's staged order.  Also the decision `emit_analysis_warnings`
(`src/resolver.rs`) takes from it.

Core-only imports (linked into `nvdriver`).

Number ranges.  In the code the nine count caps are `u32`, the two event caps `u64`; every count is
widened to `u64` before it is compared, so the comparisons themselves cannot overflow and are
modelled on `Nat`.  The derived bounds use `saturating_mul` / `saturating_add` on `u64`, modelled
exactly by `satMul` / `satAdd`.  One addition in `summary_event_bound` is *not* saturating
(`local_count.saturating_mul(2) + 2`): it overflows (debug: panic, release: wrap) only for
`locals ≥ 2^63 - 1`, which a `Vec` length cannot reach; the model uses exact `Nat` addition there and
`summaryBound_exact` states the guard.  `total_ops` / `total_blocks` are `u32` sums over the
per-function counters (`Model/CfgCount.lean`); they overflow only past `2^32` statements.
-/
namespace NaijaVerif.Limits

/-- `u64::MAX`. -/
def u64Max : Nat := 2 ^ 64 - 1

/-- `u64::saturating_mul`. -/
def satMul (a b : Nat) : Nat := min (a * b) u64Max

/-- `u64::saturating_add`. -/
def satAdd (a b : Nat) : Nat := min (a + b) u64Max

/-- `AnalysisCaps` (field order of the Rust struct). -/
structure Caps where
  maxFunctions : Nat
  maxLocals : Nat
  maxScopes : Nat
  maxStatements : Nat
  maxTotalOps : Nat
  maxOpsPerFunction : Nat
  maxTotalBlocks : Nat
  maxBlocksPerFunction : Nat
  maxDirectUserCalls : Nat
  maxSummaryEvents : Nat
  maxLivenessEvents : Nat
deriving DecidableEq, Repr, Inhabited

/-- What the preflight reads per function: `counts.function_blocks[f]`, `counts.function_ops[f]`
and `facts.local_range(f).len()` (= `locals_len`). -/
structure FnCount where
  blocks : Nat
  ops : Nat
  locals : Nat
deriving DecidableEq, Repr, Inhabited

/-- Everything `first_exceeded_limit` reads from `ProgramFacts` and `ProgramCounts`. -/
structure Counts where
  /-- `facts.functions.len()` (the synthetic root included) -/
  functions : Nat
  /-- `facts.locals.len()` -/
  locals : Nat
  /-- `facts.scopes.len()` -/
  scopes : Nat
  /-- `facts.stmt_effects.len()` -/
  statements : Nat
  /-- `counts.total_ops` -/
  totalOps : Nat
  /-- `counts.total_blocks` -/
  totalBlocks : Nat
  /-- `facts.user_calls.len()` -/
  directUserCalls : Nat
  /-- `counts.function_blocks` zipped with `counts.function_ops` and the local ranges -/
  perFn : List FnCount
deriving DecidableEq, Repr, Inhabited

/-- The eleven metrics, in the order the code checks them. -/
inductive Metric where
  | functions | locals | scopes | statements | cfgOps | opsInOneFunction | cfgBlocks
  | blocksInOneFunction | directUserCalls | summaryEvents | livenessEvents
deriving DecidableEq, Repr, Inhabited

/-- The stage order of `first_exceeded_limit`. -/
def stages : List Metric :=
  [.functions, .locals, .scopes, .statements, .cfgOps, .opsInOneFunction, .cfgBlocks,
   .blocksInOneFunction, .directUserCalls, .summaryEvents, .livenessEvents]

/-- `AnalysisLimit::metric` with spaces replaced by `_`. -/
def Metric.name : Metric → String
  | .functions => "functions"
  | .locals => "locals"
  | .scopes => "scopes"
  | .statements => "statements"
  | .cfgOps => "cfg_ops"
  | .opsInOneFunction => "ops_in_one_function"
  | .cfgBlocks => "cfg_blocks"
  | .blocksInOneFunction => "blocks_in_one_function"
  | .directUserCalls => "direct_user_calls"
  | .summaryEvents => "summary_events"
  | .livenessEvents => "liveness_events"

/-- `AnalysisLimit`. -/
structure Limit where
  metric : Metric
  observed : Nat
  limit : Nat
deriving DecidableEq, Repr, Inhabited

/-- `Iterator::max` over `u32`s: `None` on the empty sequence. -/
def maxList : List Nat → Option Nat
  | [] => none
  | x :: xs => some (xs.foldl max x)

/-- `summary_event_bound`:
`f.saturating_mul(f.saturating_add(l.saturating_mul(2) + 2))`. -/
def summaryBound (functions locals : Nat) : Nat :=
  satMul functions (satAdd functions (satMul locals 2 + 2))

/-- One function's contribution in `liveness_event_bound`:
`(blocks.saturating_mul(2)).saturating_add(ops).saturating_mul(locals)`. -/
def fnEvents (f : FnCount) : Nat := satMul (satAdd (satMul f.blocks 2) f.ops) f.locals

/-- `liveness_event_bound`: a left fold with `saturating_add` from 0. -/
def livenessBound (perFn : List FnCount) : Nat :=
  perFn.foldl (fun ev f => satAdd ev (fnEvents f)) 0

/-- One stage: `if observed > limit { return Some(..) }`. -/
def check (m : Metric) (observed limit : Nat) : Option Limit :=
  if observed > limit then some ⟨m, observed, limit⟩ else none

/-- A per-function stage: `if let Some(v) = iter.max() && v > limit { return Some(..) }`. -/
def checkMax (m : Metric) (xs : List Nat) (limit : Nat) : Option Limit :=
  match maxList xs with
  | some v => check m v limit
  | none => none

/-- `first_exceeded_limit(facts, counts, caps)`: the stages in the code's order; the first hit
returns. -/
def firstExceeded (caps : Caps) (c : Counts) : Option Limit :=
  check .functions c.functions caps.maxFunctions <|>
  check .locals c.locals caps.maxLocals <|>
  check .scopes c.scopes caps.maxScopes <|>
  check .statements c.statements caps.maxStatements <|>
  check .cfgOps c.totalOps caps.maxTotalOps <|>
  checkMax .opsInOneFunction (c.perFn.map (·.ops)) caps.maxOpsPerFunction <|>
  check .cfgBlocks c.totalBlocks caps.maxTotalBlocks <|>
  checkMax .blocksInOneFunction (c.perFn.map (·.blocks)) caps.maxBlocksPerFunction <|>
  check .directUserCalls c.directUserCalls caps.maxDirectUserCalls <|>
  check .summaryEvents (summaryBound c.functions c.locals) caps.maxSummaryEvents <|>
  check .livenessEvents (livenessBound c.perFn) caps.maxLivenessEvents

/-! ### Specification vocabulary: the value and the cap of each metric -/

/-- The observed value of a metric (`0` for a per-function maximum over no functions: the code
skips the stage, and `0 > cap` is false). -/
def observed (c : Counts) : Metric → Nat
  | .functions => c.functions
  | .locals => c.locals
  | .scopes => c.scopes
  | .statements => c.statements
  | .cfgOps => c.totalOps
  | .opsInOneFunction => (maxList (c.perFn.map (·.ops))).getD 0
  | .cfgBlocks => c.totalBlocks
  | .blocksInOneFunction => (maxList (c.perFn.map (·.blocks))).getD 0
  | .directUserCalls => c.directUserCalls
  | .summaryEvents => summaryBound c.functions c.locals
  | .livenessEvents => livenessBound c.perFn

/-- The cap of a metric. -/
def Caps.get (caps : Caps) : Metric → Nat
  | .functions => caps.maxFunctions
  | .locals => caps.maxLocals
  | .scopes => caps.maxScopes
  | .statements => caps.maxStatements
  | .cfgOps => caps.maxTotalOps
  | .opsInOneFunction => caps.maxOpsPerFunction
  | .cfgBlocks => caps.maxTotalBlocks
  | .blocksInOneFunction => caps.maxBlocksPerFunction
  | .directUserCalls => caps.maxDirectUserCalls
  | .summaryEvents => caps.maxSummaryEvents
  | .livenessEvents => caps.maxLivenessEvents

/-- Pointwise order on caps. -/
def Caps.le (a b : Caps) : Prop := ∀ m, a.get m ≤ b.get m

/-! ### The decision of `Resolver::emit_analysis_warnings` -/

/-- What the resolver keeps from the analysis stage: the optimisation plan (if any) and the
warnings the stage emitted, in emission order. -/
structure AnalysisOut (Plan : Type) where
  plan : Option Plan
  warnings : List Diag

/-- The single warning emitted when a limit trips: severity warning, code `analysis`, on the root
function's body span, with one label on the same span. -/
def limitWarning (rootSpan : Span) : Diag :=
  { sev := .warning, kind := .analysisLimit, span := rootSpan, labels := [rootSpan] }

/-- `emit_analysis_warnings`, with the passes that run below the limits kept abstract: `planOf` is
the plan `build_optimization_plan` returns and `passWarnings` the unreachable-code / unused-…
warnings the passes produce (both are the subject of C03 / C09, not of this model). -/
def emitAnalysis {Plan : Type} (caps : Caps) (c : Counts) (rootSpan : Span) (planOf : Plan)
    (passWarnings : List Diag) : AnalysisOut Plan :=
  match firstExceeded caps c with
  | some _ => { plan := none, warnings := [limitWarning rootSpan] }
  | none => { plan := some planOf, warnings := passWarnings }

/-- Canonical text of a limit decision in the line protocol. -/
def Limit.str : Option Limit → String
  | none => "none"
  | some l => s!"{l.metric.name}:{l.observed}:{l.limit}"

end NaijaVerif.Limits
