import NaijaVerif.Model.Diag
/-
Model of `src/analysis/limits.rs`: `AnalysisCaps`, the counted resources the preflight looks at,
the two derived event bounds with the code's saturating `u64` arithmetic, and
`first_exceeded_limit` in the code's staged order.  Also the decision `emit_analysis_warnings`
(`src/resolver.rs`) takes from it.

Core-only imports (linked into `nvdriver`).

Number ranges.  In the code the nine count caps are `u32`, the two event caps `u64`; every count is
widened to `u64` before it is compared, so the comparisons themselves cannot overflow and are
modelled on `Nat`.  The derived bounds use `saturating_mul` / `saturating_add` on `u64`, modelled
exactly by `satMul` / `satAdd`.  One addition in `summary_event_bound` is *not* saturating
(`local_count.saturating_mul(2) + 2`): it overflows (debug: panic, release: wrap) only for
`locals ≥ 2^63 - 1`, which a `Vec` length cannot reach; the model uses exact `Nat` addition there and
`summaryBound_exact` states the guard.  `total_ops` / `total_blocks` are `u32` sums over the
per-function counters (`Model/CfgCount.lean`); they overflow only past `2^32` statements.
-/
namespace NaijaVerif.Limits

/-- `u64::MAX`. -/
def u64Max : Nat := 2 ^ 64 - 1

/-- `u64::saturating_mul`. -/
def satMul (a b : Nat) : Nat := min (a * b) u64Max

/-- `u64::saturating_add`. -/
def satAdd (a b : Nat) : Nat := min (a + b) u64Max

/-- `AnalysisCaps` (field order of the Rust struct). -/
structure Caps where
  maxFunctions : Nat
  maxLocals : Nat
  maxScopes : Nat
  maxStatements : Nat
  maxTotalOps : Nat
  maxOpsPerFunction : Nat
  maxTotalBlocks : Nat
  maxBlocksPerFunction : Nat
  maxDirectUserCalls : Nat
  maxSummaryEvents : Nat
  maxLivenessEvents : Nat
deriving DecidableEq, Repr, Inhabited

/-- What the preflight reads per function: `counts.function_blocks[f]`, `counts.function_ops[f]`
and `facts.local_range(f).len()` (= `locals_len`). -/
structure FnCount where
  blocks : Nat
  ops : Nat
  locals : Nat
deriving DecidableEq, Repr, Inhabited

/-- Everything `first_exceeded_limit` reads from `ProgramFacts` and `ProgramCounts`. -/
structure Counts where
  /-- `facts.functions.len()` (the synthetic root included) -/
  functions : Nat
  /-- `facts.locals.len()` -/
  locals : Nat
  /-- `facts.scopes.len()` -/
  scopes : Nat
  /-- `facts.stmt_effects.len()` -/
  statements : Nat
  /-- `counts.total_ops` -/
  totalOps : Nat
  /-- `counts.total_blocks` -/
  totalBlocks : Nat
  /-- `facts.user_calls.len()` -/
  directUserCalls : Nat
  /-- `counts.function_blocks` zipped with `counts.function_ops` and the local ranges -/
  perFn : List FnCount
deriving DecidableEq, Repr, Inhabited

/-- The eleven metrics, in the order the code checks them. -/
inductive Metric where
  | functions | locals | scopes | statements | cfgOps | opsInOneFunction | cfgBlocks
  | blocksInOneFunction | directUserCalls | summaryEvents | livenessEvents
deriving DecidableEq, Repr, Inhabited

/-- The stage order of `first_exceeded_limit`. -/
def stages : List Metric :=
  [.functions, .locals, .scopes, .statements, .cfgOps, .opsInOneFunction, .cfgBlocks,
   .blocksInOneFunction, .directUserCalls, .summaryEvents, .livenessEvents]

/-- `AnalysisLimit::metric` with spaces replaced by `_`. -/
def Metric.name : Metric → String
  | .functions => "functions"
  | .locals => "locals"
  | .scopes => "scopes"
  | .statements => "statements"
  | .cfgOps => "cfg_ops"
  | .opsInOneFunction => "ops_in_one_function"
  | .cfgBlocks => "cfg_blocks"
  | .blocksInOneFunction => "blocks_in_one_function"
  | .directUserCalls => "direct_user_calls"
  | .summaryEvents => "summary_events"
  | .livenessEvents => "liveness_events"

/-- `AnalysisLimit`. -/
structure Limit where
  metric : Metric
  observed : Nat
  limit : Nat
deriving DecidableEq, Repr, Inhabited

/-- `Iterator::max` over `u32`s: `None` on the empty sequence. -/
def maxList : List Nat → Option Nat
  | [] => none
  | x :: xs => some (xs.foldl max x)

/-- `summary_event_bound`:
`f.saturating_mul(f.saturating_add(l.saturating_mul(2) + 2))`. -/
def summaryBound (functions locals : Nat) : Nat :=
  satMul functions (satAdd functions (satMul locals 2 + 2))

/-- One function's contribution in `liveness_event_bound`:
`(blocks.saturating_mul(2)).saturating_add(ops).saturating_mul(locals)`. -/
def fnEvents (f : FnCount) : Nat := satMul (satAdd (satMul f.blocks 2) f.ops) f.locals

/-- `liveness_event_bound`: a left fold with `saturating_add` from 0. -/
def livenessBound (perFn : List FnCount) : Nat :=
  perFn.foldl (fun ev f => satAdd ev (fnEvents f)) 0

/-- One stage: `if observed > limit { return Some(..) }`. -/
def check (m : Metric) (observed limit : Nat) : Option Limit :=
  if observed > limit then some ⟨m, observed, limit⟩ else none

/-- A per-function stage: `if let Some(v) = iter.max() && v > limit { return Some(..) }`. -/
def checkMax (m : Metric) (xs : List Nat) (limit : Nat) : Option Limit :=
  match maxList xs with
  | some v => check m v limit
  | none => none

/-- `first_exceeded_limit(facts, counts, caps)`: the stages in the code's order; the first hit
returns. -/
def firstExceeded (caps : Caps) (c : Counts) : Option Limit :=
  check .functions c.functions caps.maxFunctions <|>
  check .locals c.locals caps.maxLocals <|>
  check .scopes c.scopes caps.maxScopes <|>
  check .statements c.statements caps.maxStatements <|>
  check .cfgOps c.totalOps caps.maxTotalOps <|>
  checkMax .opsInOneFunction (c.perFn.map (·.ops)) caps.maxOpsPerFunction <|>
  check .cfgBlocks c.totalBlocks caps.maxTotalBlocks <|>
  checkMax .blocksInOneFunction (c.perFn.map (·.blocks)) caps.maxBlocksPerFunction <|>
  check .directUserCalls c.directUserCalls caps.maxDirectUserCalls <|>
  check .summaryEvents (summaryBound c.functions c.locals) caps.maxSummaryEvents <|>
  check .livenessEvents (livenessBound c.perFn) caps.maxLivenessEvents

/-! ### Specification vocabulary: the value and the cap of each metric -/

/-- The observed value of a metric (`0` for a per-function maximum over no functions: the code
skips the stage, and `0 > cap` is false). -/
def observed (c : Counts) : Metric → Nat
  | .functions => c.functions
  | .locals => c.locals
  | .scopes => c.scopes
  | .statements => c.statements
  | .cfgOps => c.totalOps
  | .opsInOneFunction => (maxList (c.perFn.map (·.ops))).getD 0
  | .cfgBlocks => c.totalBlocks
  | .blocksInOneFunction => (maxList (c.perFn.map (·.blocks))).getD 0
  | .directUserCalls => c.directUserCalls
  | .summaryEvents => summaryBound c.functions c.locals
  | .livenessEvents => livenessBound c.perFn

/-- The cap of a metric. -/
def Caps.get (caps : Caps) : Metric → Nat
  | .functions => caps.maxFunctions
  | .locals => caps.maxLocals
  | .scopes => caps.maxScopes
  | .statements => caps.maxStatements
  | .cfgOps => caps.maxTotalOps
  | .opsInOneFunction => caps.maxOpsPerFunction
  | .cfgBlocks => caps.maxTotalBlocks
  | .blocksInOneFunction => caps.maxBlocksPerFunction
  | .directUserCalls => caps.maxDirectUserCalls
  | .summaryEvents => caps.maxSummaryEvents
  | .livenessEvents => caps.maxLivenessEvents

/-- Pointwise order on caps. -/
def Caps.le (a b : Caps) : Prop := ∀ m, a.get m ≤ b.get m

/-! ### The decision of `Resolver::emit_analysis_warnings` -/

/-- What the resolver keeps from the analysis stage: the optimisation plan (if any) and the
warnings the stage emitted, in emission order. -/
structure AnalysisOut (Plan : Type) where
  plan : Option Plan
  warnings : List Diag

/-- The single warning emitted when a limit trips: severity warning, code `analysis`, on the root
function's body span, with one label on the same span. -/
def limitWarning (rootSpan : Span) : Diag :=
  { sev := .warning, kind := .analysisLimit, span := rootSpan, labels := [rootSpan] }

/-- `emit_analysis_warnings`, with the passes that run below the limits kept abstract: `planOf` is
the plan `build_optimization_plan` returns and `passWarnings` the unreachable-code / unused-…
warnings the passes produce (both are the subject of C03 / C09, not of this model). -/
def emitAnalysis {Plan : Type} (caps : Caps) (c : Counts) (rootSpan : Span) (planOf : Plan)
    (passWarnings : List Diag) : AnalysisOut Plan :=
  match firstExceeded caps c with
  | some _ => { plan := none, warnings := [limitWarning rootSpan] }
  | none => { plan := some planOf, warnings := passWarnings }

/-! ### The event accounting of the interprocedural summary fixpoint (`src/analysis/summary.rs`)

`max_summary_events` is the budget of `compute_summaries_with_max_events`: every element pushed
onto one of a function's three transitive lists and every change of its transitive class costs one
event (`SummaryBudget::note_event`); when the budget is used up the component being summarised and
every component scheduled after it become "summary unavailable".  The preflight bound
`summaryBound f l = f·(f + 2l + 2)` is what makes that fallback unreachable below the limits
(`Props/C18.lean`, section "summary events").

Modelled: `push_unique_bounded`, `extend_unique`, `summarize_component` (the `while changed` loop
with a fuel argument), `mark_component_unavailable`, the component loop of
`compute_summaries_with_max_events` with ONE budget (`runGlobal`).  The list of components and
their order (Kosaraju + topological order in the code) is an *input* of the model: the accounting
theorems hold for every list of components.  `runSplit` is the design the accounting does NOT
support (an equal share per component, continue after a failure); it is refuted by a decided
counterexample.  This part of the model is not linked to the implementation through the `limits`
line protocol; its tie is the harness oracle "with a budget of exactly f·(f+2l+2) events every
summary is available" on every generated program (`harness/src/limits.rs`). -/
namespace Summary

/-- `FunctionSummary`, reduced to what the accounting reads and writes.  Class levels: 0
`PureNoTrap`, 1 `PureMayTrap`, 2 `Impure`; `ExprClass::join` is `max`. -/
structure Summ where
  available : Bool
  /-- `transitive_callees` (function ids) -/
  callees : List Nat
  /-- `transitive_capture_reads` (local ids) -/
  reads : List Nat
  /-- `transitive_capture_writes` (local ids) -/
  writes : List Nat
  /-- `body_class` -/
  body : Nat
  /-- `transitive_class` -/
  cls : Nat
deriving DecidableEq, Repr, Inhabited

/-- Why `summarize_component` stops early.  `budget` and `unavailable` are both
`Err(BudgetExceeded)` in the code (the budget ran out / a callee's summary is unavailable);
`index` is a slice index out of bounds, a panic (function ids not below the number of functions). -/
inductive Fail where
  | budget | unavailable | index
deriving DecidableEq, Repr, Inhabited

/-- `SummaryBudget::note_event`. -/
def noteEvent : Nat → Except Fail Nat
  | 0 => .error .budget
  | b + 1 => .ok b

/-- `push_unique_bounded`: (list, changed, remaining budget). -/
def pushUnique (dst : List Nat) (x b : Nat) : Except Fail (List Nat × Bool × Nat) :=
  if x ∈ dst then .ok (dst, false, b)
  else
    match noteEvent b with
    | .error e => .error e
    | .ok b' => .ok (dst ++ [x], true, b')

/-- `extend_unique`. -/
def extendUnique (dst : List Nat) : List Nat → Nat → Except Fail (List Nat × Bool × Nat)
  | [], b => .ok (dst, false, b)
  | x :: xs, b =>
    match pushUnique dst x b with
    | .error e => .error e
    | .ok (dst', ch, b') =>
      match extendUnique dst' xs b' with
      | .error e => .error e
      | .ok (dst'', ch', b'') => .ok (dst'', ch || ch', b'')

/-- One iteration of the callee loop of `summarize_component`: the caller's three lists absorb the
callee's.  (The class join is taken separately: it reads the callee only.) -/
def absorb (self callee : Summ) (b : Nat) : Except Fail (Summ × Bool × Nat) :=
  if !callee.available then .error .unavailable
  else
    match extendUnique self.callees callee.callees b with
    | .error e => .error e
    | .ok (cs, c1, b1) =>
      match extendUnique self.reads callee.reads b1 with
      | .error e => .error e
      | .ok (rs, c2, b2) =>
        match extendUnique self.writes callee.writes b2 with
        | .error e => .error e
        | .ok (ws, c3, b3) =>
          .ok ({ self with callees := cs, reads := rs, writes := ws }, c1 || c2 || c3, b3)

/-- The callee loop over the (snapshot of the) callees' summaries: while one function is processed
only its own summary is written (`split_summary_pair`; the self call is skipped). -/
def absorbAll (self : Summ) : List Summ → Nat → Except Fail (Summ × Bool × Nat)
  | [], b => .ok (self, false, b)
  | c :: cs, b =>
    match absorb self c b with
    | .error e => .error e
    | .ok (s', ch, b') =>
      match absorbAll s' cs b' with
      | .error e => .error e
      | .ok (s'', ch', b'') => .ok (s'', ch || ch', b'')

/-- `body_class` joined with the callees' transitive classes. -/
def joinCls (body : Nat) (cs : List Summ) : Nat := cs.foldl (fun a c => max a c.cls) body

/-- The body of the `for &function in component` loop for one function, given its callees'
summaries. -/
def summFn (self : Summ) (cs : List Summ) (b : Nat) : Except Fail (Summ × Bool × Nat) :=
  match absorbAll self cs b with
  | .error e => .error e
  | .ok (s', ch, b') =>
    let tc := joinCls s'.body cs
    if s'.cls = tc then .ok (s', ch, b')
    else
      match noteEvent b' with
      | .error e => .error e
      | .ok b'' => .ok ({ s' with cls := tc }, true, b'')

/-- `summaries[callee]` for a list of callees (`none`: index out of bounds, a panic). -/
def lookupAll (st : List Summ) : List Nat → Option (List Summ)
  | [] => some []
  | c :: cs =>
    match st[c]?, lookupAll st cs with
    | some s, some ss => some (s :: ss)
    | _, _ => none

/-- The summaries of the direct callees other than the function itself (`callee == function`
is skipped). -/
def calleeSumms (st : List Summ) (direct : List Nat) (f : Nat) : Option (List Summ) :=
  lookupAll st (direct.filter (· != f))

/-- One sweep over the component.  `g[f]` = `facts.function_direct(f).direct_callees`. -/
def sweep (g : List (List Nat)) : List Nat → List Summ → Bool → Nat →
    Except Fail (List Summ × Bool × Nat)
  | [], st, changed, b => .ok (st, changed, b)
  | f :: rest, st, changed, b =>
    match g[f]?, st[f]? with
    | some direct, some self =>
      match calleeSumms st direct f with
      | none => .error .index
      | some cs =>
        match summFn self cs b with
        | .error e => .error e
        | .ok (s', ch, b') => sweep g rest (st.set f s') (changed || ch) b'
    | _, _ => .error .index

/-- `summarize_component`: sweeps until nothing changes.  The last component of the result says
whether the loop ended by itself (`true`) or the fuel ran out first (`false`; with
`fuel > remaining budget` it cannot, every changing sweep costs an event). -/
def summarizeComponent (g : List (List Nat)) (comp : List Nat) :
    Nat → List Summ → Nat → Except Fail (List Summ × Nat × Bool)
  | 0, st, b => .ok (st, b, false)
  | fuel + 1, st, b =>
    match sweep g comp st false b with
    | .error e => .error e
    | .ok (st', ch, b') => if ch then summarizeComponent g comp fuel st' b' else .ok (st', b', true)

/-- `mark_component_unavailable`. -/
def markUnavailable (comp : List Nat) (st : List Summ) : List Summ :=
  comp.foldl (fun st f =>
    match st[f]? with
    | some s => st.set f { s with available := false, callees := [], reads := [], writes := [], cls := 2 }
    | none => st) st

/-- The component loop of `compute_summaries_with_max_events`: ONE budget for the whole fixpoint;
the first failure makes the failing component and everything scheduled after it unavailable.
(The code marks on the partially updated summaries; only members of the failing component were
written since the last success and those are exactly the ones being reset.) -/
def runGlobal (g : List (List Nat)) (fuel : Nat) : List (List Nat) → List Summ → Nat →
    Except Fail (List Summ)
  | [], st, _ => .ok st
  | comp :: rest, st, b =>
    match summarizeComponent g comp fuel st b with
    | .ok (st', b', _) => runGlobal g fuel rest st' b'
    | .error .index => .error .index
    | .error _ => .ok ((comp :: rest).foldl (fun st c => markUnavailable c st) st)

/-- The per-component events of a run with one budget (what each component consumed), for as long
as nothing fails. -/
def eventsPerComponent (g : List (List Nat)) (fuel : Nat) : List (List Nat) → List Summ → Nat → List Nat
  | [], _, _ => []
  | comp :: rest, st, b =>
    match summarizeComponent g comp fuel st b with
    | .ok (st', b', _) => (b - b') :: eventsPerComponent g fuel rest st' b'
    | .error _ => []

/-- NOT the code: the same loop with an equal share of the budget for every component, continuing
after a failure (only the failing component is reset).  `Props/C18.lean` shows a program below
every limit that this design leaves with unavailable summaries. -/
def runSplit (g : List (List Nat)) (fuel share : Nat) : List (List Nat) → List Summ →
    Except Fail (List Summ)
  | [], st => .ok st
  | comp :: rest, st =>
    match summarizeComponent g comp fuel st share with
    | .ok (st', _, _) => runSplit g fuel share rest st'
    | .error .index => .error .index
    | .error _ => runSplit g fuel share rest (markUnavailable comp st)

/-- `initialize_summaries` from the direct facts of every function:
(direct callees, direct capture reads, direct capture writes, body class). -/
def initial (directs : List (List Nat × List Nat × List Nat × Nat)) : List Summ :=
  directs.map fun (cs, rs, ws, body) =>
    { available := true, callees := cs, reads := rs, writes := ws, body := body, cls := body }

end Summary

/-- Canonical text of a limit decision in the line protocol. -/
def Limit.str : Option Limit → String
  | none => "none"
  | some l => s!"{l.metric.name}:{l.observed}:{l.limit}"

end NaijaVerif.Limits
