import NaijaVerif.Model.Diag
/-
Model of `src/analysis/limits.rs`: `AnalysisCaps`, the counted resources the preflight looks at,
the two derived event bounds with the code's saturating `u64` arithmetic, and
`first_exceeded_limit` in the code's staged order.  Also the decision `emit_analysis_warnings`
(`src/resolver.rs`) takes from it.

Core-only imports (linked into `nvdriver`).

Number ranges.  In the code the nine count caps are `u32`, the two event caps `u64`; every count is
widened to `u64` before it is compared, so the comparisons themselves cannot overflow and are
modelled on `Nat`.  The derived bounds use `saturating_mul` / `saturating_add` on `u64`, modelled
exactly by `satMul` / `satAdd`.  One addition in `summary_event_bound` is *not* saturating
(`local_count.saturating_mul(2) + 2`): it overflows (debug: panic, release: wrap) only for
`locals ≥ 2^63 - 1`, which a `Vec` length cannot reach; the model uses exact `Nat` addition there and
`summaryBound_exact` states the guard.  `total_ops` / `total_blocks` are `u32` sums over the
per-function counters (`Model/CfgCount.lean`); they overflow only past `2^32` statements.
-/
namespace NaijaVerif.Limits

/-- `u64::MAX`. -/
def u64Max : Nat := 2 ^ 64 - 1

/-- `u64::saturating_mul`. -/
def satMul (a b : Nat) : Nat := min (a * b) u64Max

/-- `u64::saturating_add`. -/
def satAdd (a b : Nat) : Nat := min (a + b) u64Max

/-- `AnalysisCaps` (field order of the Rust struct). -/
structure Caps where
  maxFunctions : Nat
  maxLocals : Nat
  maxScopes : Nat
  maxStatements : Nat
  maxTotalOps : Nat
  maxOpsPerFunction : Nat
  maxTotalBlocks : Nat
  maxBlocksPerFunction : Nat
  maxDirectUserCalls : Nat
  maxSummaryEvents : Nat
  maxLivenessEvents : Nat
deriving DecidableEq, Repr, Inhabited

/-- What the preflight reads per function: `counts.function_blocks[f]`, `counts.function_ops[f]`
and `facts.local_range(f).len()` (= `locals_len`). -/
structure FnCount where
  blocks : Nat
  ops : Nat
  locals : Nat
deriving DecidableEq, Repr, Inhabited

/-- Everything `first_exceeded_limit` reads from `ProgramFacts` and `ProgramCounts`. -/
structure Counts where
  /-- `facts.functions.len()` (the synthetic root included) -/
  functions : Nat
  /-- `facts.locals.len()` -/
  locals : Nat
  /-- `facts.scopes.len()` -/
  scopes : Nat
  /-- `facts.stmt_effects.len()` -/
  statements : Nat
  /-- `counts.total_ops` -/
  totalOps : Nat
  /-- `counts.total_blocks` -/
  totalBlocks : Nat
  /-- `facts.user_calls.len()` -/
  directUserCalls : Nat
  /-- `counts.function_blocks` zipped with `counts.function_ops` and the local ranges -/
  perFn : List FnCount
deriving DecidableEq, Repr, Inhabited

/-- The eleven metrics, in the order the code checks them. -/
inductive Metric where
  | functions | locals | scopes | statements | cfgOps | opsInOneFunction | cfgBlocks
  | blocksInOneFunction | directUserCalls | summaryEvents | livenessEvents
deriving DecidableEq, Repr, Inhabited

/-- The stage order of `first_exceeded_limit`. -/
def stages : List Metric :=
  [.functions, .locals, .scopes, .statements, .cfgOps, .opsInOneFunction, .cfgBlocks,
   .blocksInOneFunction, .directUserCalls, .summaryEvents, .livenessEvents]

/-- `AnalysisLimit::metric` with spaces replaced by `_`. -/
def Metric.name : Metric → String
  | .functions => "functions"
  | .locals => "locals"
  | .scopes => "scopes"
  | .statements => "statements"
  | .cfgOps => "cfg_ops"
  | .opsInOneFunction => "ops_in_one_function"
  | .cfgBlocks => "cfg_blocks"
  | .blocksInOneFunction => "blocks_in_one_function"
  | .directUserCalls => "direct_user_calls"
  | .summaryEvents => "summary_events"
  | .livenessEvents => "liveness_events"

/-- `AnalysisLimit`. -/
structure Limit where
  metric : Metric
  observed : Nat
  limit : Nat
deriving DecidableEq, Repr, Inhabited

/-- `Iterator::max` over `u32`s: `None` on the empty sequence. -/
def maxList : List Nat → Option Nat
  | [] => none
  | x :: xs => some (xs.foldl max x)

/-- `summary_event_bound`:
`f.saturating_mul(f.saturating_add(l.saturating_mul(2) + 2))`. -/
def summaryBound (functions locals : Nat) : Nat :=
  satMul functions (satAdd functions (satMul locals 2 + 2))

/-- One function's contribution in `liveness_event_bound`:
`(blocks.saturating_mul(2)).saturating_add(ops).saturating_mul(locals)`. -/
def fnEvents (f : FnCount) : Nat := satMul (satAdd (satMul f.blocks 2) f.ops) f.locals

/-- `liveness_event_bound`: a left fold with `saturating_add` from 0. -/
def livenessBound (perFn : List FnCount) : Nat :=
  perFn.foldl (fun ev f => satAdd ev (fnEvents f)) 0

/-- One stage: `if observed > limit { return Some(..) }`. -/
def check (m : Metric) (observed limit : Nat) : Option Limit :=
  if observed > limit then some ⟨m, observed, limit⟩ else none

/-- A per-function stage: `if let Some(v) = iter.max() && v > limit { return Some(..) }`. -/
def checkMax (m : Metric) (xs : List Nat) (limit : Nat) : Option Limit :=
  match maxList xs with
  | some v => check m v limit
  | none => none

/-- `first_exceeded_limit(facts, counts, caps)`: the stages in the code's order; the first hit
returns. -/
def firstExceeded (caps : Caps) (c : Counts) : Option Limit :=
  check .functions c.functions caps.maxFunctions <|>
  check .locals c.locals caps.maxLocals <|>
  check .scopes c.scopes caps.maxScopes <|>
  check .statements c.statements caps.maxStatements <|>
  check .cfgOps c.totalOps caps.maxTotalOps <|>
  checkMax .opsInOneFunction (c.perFn.map (·.ops)) caps.maxOpsPerFunction <|>
  check .cfgBlocks c.totalBlocks caps.maxTotalBlocks <|>
  checkMax .blocksInOneFunction (c.perFn.map (·.blocks)) caps.maxBlocksPerFunction <|>
  check .directUserCalls c.directUserCalls caps.maxDirectUserCalls <|>
  check .summaryEvents (summaryBound c.functions c.locals) caps.maxSummaryEvents <|>
  check .livenessEvents (livenessBound c.perFn) caps.maxLivenessEvents

/-! ### Specification vocabulary: the value and the cap of each metric -/

/-- The observed value of a metric (`0` for a per-function maximum over no functions: the code
skips the stage, and `0 > cap` is false). -/
def observed (c : Counts) : Metric → Nat
  | .functions => c.functions
  | .locals => c.locals
  | .scopes => c.scopes
  | .statements => c.statements
  | .cfgOps => c.totalOps
  | .opsInOneFunction => (maxList (c.perFn.map (·.ops))).getD 0
  | .cfgBlocks => c.totalBlocks
  | .blocksInOneFunction => (maxList (c.perFn.map (·.blocks))).getD 0
  | .directUserCalls => c.directUserCalls
  | .summaryEvents => summaryBound c.functions c.locals
  | .livenessEvents => livenessBound c.perFn

/-- The cap of a metric. -/
def Caps.get (caps : Caps) : Metric → Nat
  | .functions => caps.maxFunctions
  | .locals => caps.maxLocals
  | .scopes => caps.maxScopes
  | .statements => caps.maxStatements
  | .cfgOps => caps.maxTotalOps
  | .opsInOneFunction => caps.maxOpsPerFunction
  | .cfgBlocks => caps.maxTotalBlocks
  | .blocksInOneFunction => caps.maxBlocksPerFunction
  | .directUserCalls => caps.maxDirectUserCalls
  | .summaryEvents => caps.maxSummaryEvents
  | .livenessEvents => caps.maxLivenessEvents

/-- Pointwise order on caps. -/
def Caps.le (a b : Caps) : Prop := ∀ m, a.get m ≤ b.get m

/-! ### The decision of `Resolver::emit_analysis_warnings` -/

/-- What the resolver keeps from the analysis stage: the optimisation plan (if any) and the
warnings the stage emitted, in emission order. -/
structure AnalysisOut (Plan : Type) where
  plan : Option Plan
  warnings : List Diag

/-- The single warning emitted when a limit trips: severity warning, code `analysis`, on the root
function's body span, with one label on the same span. -/
def limitWarning (rootSpan : Span) : Diag :=
  { sev := .warning, kind := .analysisLimit, span := rootSpan, labels := [rootSpan] }

/-- `emit_analysis_warnings`, with the passes that run below the limits kept abstract: `planOf` is
the plan `build_optimization_plan` returns and `passWarnings` the unreachable-code / unused-…
warnings the passes produce (both are the subject of C03 / C09, not of this model). -/
def emitAnalysis {Plan : Type} (caps : Caps) (c : Counts) (rootSpan : Span) (planOf : Plan)
    (passWarnings : List Diag) : AnalysisOut Plan :=
  match firstExceeded caps c with
  | some _ => { plan := none, warnings := [limitWarning rootSpan] }
  | none => { plan := some planOf, warnings := passWarnings }

/-! ### The interprocedural summary fixpoint (`src/analysis/summary.rs`) and its event accounting

`max_summary_events` is the budget of `compute_summaries_with_max_events`: every element pushed
onto one of a function's three transitive lists and every change of its transitive class costs one
event (`SummaryBudget::note_event`); when the budget is used up the component being summarised and
every component scheduled after it become "summary unavailable".  The preflight bound
`summaryBound f l = f·(f + 2l + 2)` is what makes that fallback unreachable below the limits
(`Props/C18.lean`, section "summary events").

Modelled, statement by statement: `compute_body_classes`, `initialize_summaries`,
`push_unique_bounded`, `extend_unique`, `summarize_component` (the `while changed` loop with a fuel
argument; `Props/C18.lean` shows that the fuel never decides), `mark_component_unavailable`, the
component loop of `compute_summaries_with_max_events` with ONE budget (`runGlobal`), and the
scheduling (`build_reverse_edges`, `compute_finish_order`, `compute_strongly_connected_components`,
`compute_component_order` → `schedule`).  `runGlobal` takes the list of components as an *input*:
the accounting theorems hold for every list of components in every order, so nothing has to be
proved about the scheduling; `schedule` is tied to the code by correspondence only (requests `summ`
of the `limits` line protocol: the real `compute_summaries_with_max_events` on the same direct facts
with budgets from the preflight bound down to 0 — which summaries become unavailable depends on the
order).  `runSplit` is the design the accounting does NOT support (an equal share per component,
continue after a failure); it is refuted by a decided counterexample. -/
namespace Summary

/-- `FunctionSummary`, reduced to what the fixpoint reads and writes (`direct_*` are never read
after `initialize_summaries`).  Class levels: 0 `PureNoTrap`, 1 `PureMayTrap`, 2 `Impure`;
`ExprClass::join` is `max`. -/
structure Summ where
  available : Bool
  /-- `transitive_callees` (function ids) -/
  callees : List Nat
  /-- `transitive_capture_reads` (local ids) -/
  reads : List Nat
  /-- `transitive_capture_writes` (local ids) -/
  writes : List Nat
  /-- `body_class` -/
  body : Nat
  /-- `transitive_class` -/
  cls : Nat
deriving DecidableEq, Repr, Inhabited

/-- Why `summarize_component` stops early.  `budget` and `unavailable` are both
`Err(BudgetExceeded)` in the code (the budget ran out / a callee's summary is unavailable);
`index` is a slice index out of bounds, a panic (function ids not below the number of functions). -/
inductive Fail where
  | budget | unavailable | index
deriving DecidableEq, Repr, Inhabited

/-- `SummaryBudget::note_event`. -/
def noteEvent : Nat → Except Fail Nat
  | 0 => .error .budget
  | b + 1 => .ok b

/-- `push_unique_bounded`: (list, changed, remaining budget). -/
def pushUnique (dst : List Nat) (x b : Nat) : Except Fail (List Nat × Bool × Nat) :=
  if x ∈ dst then .ok (dst, false, b)
  else
    match noteEvent b with
    | .error e => .error e
    | .ok b' => .ok (dst ++ [x], true, b')

/-- `extend_unique`. -/
def extendUnique (dst : List Nat) : List Nat → Nat → Except Fail (List Nat × Bool × Nat)
  | [], b => .ok (dst, false, b)
  | x :: xs, b =>
    match pushUnique dst x b with
    | .error e => .error e
    | .ok (dst', ch, b') =>
      match extendUnique dst' xs b' with
      | .error e => .error e
      | .ok (dst'', ch', b'') => .ok (dst'', ch || ch', b'')

/-- One iteration of the callee loop of `summarize_component` without the class join: the
availability test and the three `extend_unique` calls, in the code's order. -/
def absorb (self callee : Summ) (b : Nat) : Except Fail (Summ × Bool × Nat) :=
  if !callee.available then .error .unavailable
  else
    match extendUnique self.callees callee.callees b with
    | .error e => .error e
    | .ok (cs, c1, b1) =>
      match extendUnique self.reads callee.reads b1 with
      | .error e => .error e
      | .ok (rs, c2, b2) =>
        match extendUnique self.writes callee.writes b2 with
        | .error e => .error e
        | .ok (ws, c3, b3) =>
          .ok ({ self with callees := cs, reads := rs, writes := ws }, c1 || c2 || c3, b3)

/-- `for &callee in &facts.function_direct(function).direct_callees { … }` for function `f`:
`self` is the caller's summary being built, `tc` the running `transitive_class`.  The self call is
skipped; a callee's summary is read when its turn comes (`st[c]?`: `split_summary_pair` — only the
caller's summary is written while the loop runs and `c ≠ f`, so the callee's summary is the one in
`st`); `none` is the code's index panic.  Result: (caller summary, class join, changed, budget). -/
def calleeLoop (st : List Summ) (f : Nat) : List Nat → Summ → Nat → Nat →
    Except Fail (Summ × Nat × Bool × Nat)
  | [], self, tc, b => .ok (self, tc, false, b)
  | c :: cs, self, tc, b =>
    if c = f then calleeLoop st f cs self tc b
    else
      match st[c]? with
      | none => .error .index
      | some callee =>
        match absorb self callee b with
        | .error e => .error e
        | .ok (s', ch, b') =>
          match calleeLoop st f cs s' (max tc callee.cls) b' with
          | .error e => .error e
          | .ok (s'', tc', ch', b'') => .ok (s'', tc', ch || ch', b'')

/-- The body of the `for &function in component` loop for function `f` with summary `self = st[f]`
and direct callees `direct`: the callee loop starting from `body_class`, then
`if caller_summary.transitive_class != transitive_class { note_event; assign; changed = true }`. -/
def summFn (st : List Summ) (f : Nat) (direct : List Nat) (self : Summ) (b : Nat) :
    Except Fail (Summ × Bool × Nat) :=
  match calleeLoop st f direct self self.body b with
  | .error e => .error e
  | .ok (s', tc, ch, b') =>
    if s'.cls = tc then .ok (s', ch, b')
    else
      match noteEvent b' with
      | .error e => .error e
      | .ok b'' => .ok ({ s' with cls := tc }, true, b'')

/-- One sweep over the component (`for &function in component`).
`g[f]` = `facts.function_direct(f).direct_callees`. -/
def sweep (g : List (List Nat)) : List Nat → List Summ → Bool → Nat →
    Except Fail (List Summ × Bool × Nat)
  | [], st, changed, b => .ok (st, changed, b)
  | f :: rest, st, changed, b =>
    match st[f]?, g[f]? with
    | some self, some direct =>
      match summFn st f direct self b with
      | .error e => .error e
      | .ok (s', ch, b') => sweep g rest (st.set f s') (changed || ch) b'
    | _, _ => .error .index

/-- `summarize_component`: sweeps until nothing changes.  The last component of the result says
whether the loop ended by itself (`true`) or the fuel ran out first (`false`; it cannot with more
fuel than the summaries have room to grow, `Props/C18.lean`). -/
def summarizeComponent (g : List (List Nat)) (comp : List Nat) :
    Nat → List Summ → Nat → Except Fail (List Summ × Nat × Bool)
  | 0, st, b => .ok (st, b, false)
  | fuel + 1, st, b =>
    match sweep g comp st false b with
    | .error e => .error e
    | .ok (st', ch, b') => if ch then summarizeComponent g comp fuel st' b' else .ok (st', b', true)

/-- `mark_component_unavailable` (an id outside the vector is a panic in the code; component
members are function ids). -/
def markUnavailable (comp : List Nat) (st : List Summ) : List Summ :=
  comp.foldl (fun st f =>
    match st[f]? with
    | some s => st.set f { s with available := false, callees := [], reads := [], writes := [], cls := 2 }
    | none => st) st

/-- The component loop of `compute_summaries_with_max_events`: ONE budget for the whole fixpoint;
the first failure makes the failing component and everything scheduled after it unavailable.
(The code marks on the partially updated summaries; only members of the failing component were
written since the last success, only the fields that the marking resets.) -/
def runGlobal (g : List (List Nat)) (fuel : Nat) : List (List Nat) → List Summ → Nat →
    Except Fail (List Summ)
  | [], st, _ => .ok st
  | comp :: rest, st, b =>
    match summarizeComponent g comp fuel st b with
    | .ok (st', b', _) => runGlobal g fuel rest st' b'
    | .error .index => .error .index
    | .error _ => .ok ((comp :: rest).foldl (fun st c => markUnavailable c st) st)

/-- Specification vocabulary for `runGlobal`: the reason the first failing component fails with
(`none`: every component was summarised, nothing was marked unavailable). -/
def firstFailure (g : List (List Nat)) (fuel : Nat) : List (List Nat) → List Summ → Nat → Option Fail
  | [], _, _ => none
  | comp :: rest, st, b =>
    match summarizeComponent g comp fuel st b with
    | .ok (st', b', _) => firstFailure g fuel rest st' b'
    | .error e => some e

/-- The per-component events of a run with one budget (what each component consumed), for as long
as nothing fails. -/
def eventsPerComponent (g : List (List Nat)) (fuel : Nat) : List (List Nat) → List Summ → Nat → List Nat
  | [], _, _ => []
  | comp :: rest, st, b =>
    match summarizeComponent g comp fuel st b with
    | .ok (st', b', _) => (b - b') :: eventsPerComponent g fuel rest st' b'
    | .error _ => []

/-- NOT the code: the same loop with an equal share of the budget for every component, continuing
after a failure (only the failing component is reset).  `Props/C18.lean` shows a program below
every limit that this design leaves with unavailable summaries. -/
def runSplit (g : List (List Nat)) (fuel share : Nat) : List (List Nat) → List Summ →
    Except Fail (List Summ)
  | [], st => .ok st
  | comp :: rest, st =>
    match summarizeComponent g comp fuel st share with
    | .ok (st', _, _) => runSplit g fuel share rest st'
    | .error .index => .error .index
    | .error _ => runSplit g fuel share rest (markUnavailable comp st)

/-- The direct facts of one function, as `compute_summaries_with_max_events` reads them:
`function_directs[f]` and the `expr_class` of every statement of `f` (`stmt_effects`). -/
structure Direct where
  callees : List Nat
  reads : List Nat
  writes : List Nat
  /-- class levels of the function's statements -/
  stmts : List Nat
deriving DecidableEq, Repr, Inhabited

/-- `compute_body_classes` for one function: the join of its statements' classes from
`PureNoTrap`; `Impure` when it writes a captured variable. -/
def bodyClass (d : Direct) : Nat :=
  if d.writes.isEmpty then d.stmts.foldl max 0 else 2

/-- `initialize_summaries`: the transitive lists start as copies of the direct ones, the
transitive class as the body class. -/
def initial (ds : List Direct) : List Summ :=
  ds.map fun d =>
    { available := true, callees := d.callees, reads := d.reads, writes := d.writes,
      body := bodyClass d, cls := bodyClass d }

/-- The call graph the fixpoint walks: `direct_callees` of every function. -/
def graph (ds : List Direct) : List (List Nat) := ds.map (·.callees)

/-! #### Scheduling: Kosaraju's components in a callee-first order

A literal transcription of the four scheduling functions, loops with fuel (`none`: the fuel ran out
or an index is out of bounds — the latter is a panic in the code).  No theorem depends on it. -/

/-- `build_reverse_edges`: `rev[callee]` lists the callers in the order they are met. -/
def reverseEdges (g : Array (List Nat)) : Option (Array (List Nat)) :=
  (List.range g.size).foldlM (init := Array.replicate g.size ([] : List Nat)) fun rev caller =>
    (g.getD caller []).foldlM (init := rev) fun rev callee =>
      if callee < rev.size then some (rev.modify callee (· ++ [caller])) else none

/-- The `while let Some(visit) = stack.pop()` loop of `compute_finish_order` (head of the list =
top of the stack; the finish order is accumulated in reverse). -/
def dfsLoop (g : Array (List Nat)) : Nat → List (Nat × Bool) → Array Bool → List Nat →
    Option (Array Bool × List Nat)
  | 0, _, _, _ => none
  | _ + 1, [], seen, fin => some (seen, fin)
  | fuel + 1, (v, expanded) :: stack, seen, fin =>
    if expanded then dfsLoop g fuel stack seen (v :: fin)
    else
      match seen[v]? with
      | none => none
      | some true => dfsLoop g fuel stack seen fin
      | some false =>
        let seen := seen.set! v true
        let callees := g.getD v []
        if callees.any (· ≥ seen.size) then none
        else
          let stack := callees.reverse.foldl
            (fun st c => if seen.getD c false then st else (c, false) :: st) ((v, true) :: stack)
          dfsLoop g fuel stack seen fin

/-- `compute_finish_order`. -/
def finishOrder (g : Array (List Nat)) (fuel : Nat) : Option (List Nat) :=
  let init : Array Bool × List Nat := (Array.replicate g.size false, [])
  ((List.range g.size).foldlM (init := init) fun (acc : Array Bool × List Nat) v =>
      if acc.1.getD v false then some acc else dfsLoop g fuel [(v, false)] acc.1 acc.2).map
    fun r => r.2.reverse

/-- `component.sort_by_key(|function| function.0)` (insertion sort: structural, so that examples
reduce; the members of a component are distinct). -/
def insertId (x : Nat) : List Nat → List Nat
  | [] => [x]
  | y :: ys => if x ≤ y then x :: y :: ys else y :: insertId x ys

def sortIds (l : List Nat) : List Nat := l.foldr insertId []

/-- The inner `while let Some(member) = stack.pop()` loop of
`compute_strongly_connected_components` (the component is accumulated in reverse). -/
def sccLoop (rev : Array (List Nat)) (idx : Nat) : Nat → List Nat → Array (Option Nat) → List Nat →
    Option (Array (Option Nat) × List Nat)
  | 0, _, _, _ => none
  | _ + 1, [], ids, comp => some (ids, comp)
  | fuel + 1, member :: stack, ids, comp =>
    let (ids, stack) := (rev.getD member []).reverse.foldl
      (fun (ids, st) p => if ids.getD p none = none then (ids.set! p (some idx), p :: st) else (ids, st))
      (ids, stack)
    sccLoop rev idx fuel stack ids (member :: comp)

/-- `compute_strongly_connected_components`: (components, each sorted by id; component of every
function). -/
def sccs (rev : Array (List Nat)) (finish : List Nat) (fuel : Nat) :
    Option (Array (List Nat) × Array (Option Nat)) :=
  finish.reverse.foldlM (init := ((#[] : Array (List Nat)), Array.replicate rev.size (none : Option Nat)))
    fun (comps, ids) v =>
      if ids.getD v none ≠ none then some (comps, ids)
      else
        match sccLoop rev comps.size fuel [v] (ids.set! v (some comps.size)) [] with
        | none => none
        | some (ids, comp) => some (comps.push (sortIds comp), ids)

/-- The `while let Some(component_idx) = ready.pop()` loop of `compute_component_order`. -/
def readyLoop (preds : Array (List Nat)) : Nat → List Nat → Array Nat → List Nat → Option (List Nat)
  | 0, _, _, _ => none
  | _ + 1, [], _, order => some order.reverse
  | fuel + 1, c :: ready, pending, order =>
    let (pending, ready) := (preds.getD c []).foldl
      (fun (pending, ready) p =>
        let n := pending.getD p 0 - 1
        (pending.set! p n, if n = 0 then p :: ready else ready))
      (pending, ready)
    readyLoop preds fuel ready pending (c :: order)

/-- `compute_component_order`: callee components before their callers. -/
def componentOrder (g : Array (List Nat)) (ncomp : Nat) (ids : Array (Option Nat)) (fuel : Nat) :
    Option (List Nat) :=
  let init := (Array.replicate ncomp ([] : List Nat), Array.replicate ncomp 0)
  let (preds, pending) := (List.range g.size).foldl (init := init) fun acc caller =>
    (g.getD caller []).foldl (init := acc) fun (preds, pending) callee =>
      match ids.getD caller none, ids.getD callee none with
      | some cc, some ce =>
        if cc = ce then (preds, pending)
        else if cc ∈ preds.getD ce [] then (preds, pending)
        else (preds.modify ce (· ++ [cc]), pending.modify cc (· + 1))
      | _, _ => (preds, pending)
  -- `for component_idx in (0..components.len()).rev() { if pending == 0 { ready.push(..) } }`:
  -- the smallest index ends up on top of the stack
  let ready := (List.range ncomp).filter (fun c => pending.getD c 0 = 0)
  readyLoop preds fuel ready pending []

/-- The components in the order `compute_summaries_with_max_events` summarises them. -/
def schedule (gl : List (List Nat)) : Option (List (List Nat)) :=
  let g := gl.toArray
  let fuel := 2 * (g.size + (gl.map List.length).sum) + 2
  match reverseEdges g with
  | none => none
  | some rev =>
    match finishOrder g fuel with
    | none => none
    | some fin =>
      match sccs rev fin fuel with
      | none => none
      | some (comps, ids) =>
        match componentOrder g comps.size ids fuel with
        | none => none
        | some order => some (order.map fun c => comps.getD c [])

/-- `compute_summaries_with_max_events(facts, max_events)` on the direct facts `ds`: `none` is a
panic of the code (a callee id that is not a function id). -/
def compute (ds : List Direct) (maxEvents fuel : Nat) : Option (List Summ) :=
  match schedule (graph ds) with
  | none => none
  | some comps =>
    match runGlobal (graph ds) fuel comps (initial ds) maxEvents with
    | .ok st => some st
    | .error _ => none

end Summary

/-- Canonical text of a limit decision in the line protocol. -/
def Limit.str : Option Limit → String
  | none => "none"
  | some l => s!"{l.metric.name}:{l.observed}:{l.limit}"

end NaijaVerif.Limits
