import NaijaVerif.Model.Value
import NaijaVerif.Model.Ast
import NaijaVerif.Model.StrOps
/-
Pure steps of `src/runtime.rs` and `src/builtins/*`: operator dispatch, index reads, the method
tables (`from_name`), what each method does with its ALREADY EVALUATED arguments, and the
l-value path operations (`getPath` / `updatePath`, the functional reading of `get_mutable_array`,
`assign_index`).  Every `unreachable!/assert!/…` the Rust would hit is a `Fault.panic site`, every
`RuntimeError` a `Fault.rt kind span`.  Which arguments a method evaluates, and in which order, is
decided in `Model/Eval.lean`.  Core-only.
-/
namespace NaijaVerif.Eval
open NaijaVerif

variable {N : Type} [NumOps N]

/-- The std string functions the builtins delegate to (`str::trim`, Unicode case mapping): a
parameter, so that no theorem depends on them. -/
structure StdOps where
  trim : Bytes → Bytes
  upper : Bytes → Bytes
  lower : Bytes → Bytes

/-! ### Operators (`eval_expr`, arms `Binary` / `Unary`) -/

/-- The binary operators that evaluate both operands first (everything except `and` / `or`). -/
inductive ArithOp where
  | add | minus | times | divide | mod | eq | gt | lt
deriving DecidableEq, Repr

def ArithOp.ofBin : BinOp → Option ArithOp
  | .add => some .add | .minus => some .minus | .times => some .times | .divide => some .divide
  | .mod => some .mod | .eq => some .eq | .gt => some .gt | .lt => some .lt
  | .and => none | .or => none

/-- `match (l, r) { … }` of the `_ =>` arm of `Expr::Binary`, in the order of the Rust arms. -/
def arith (op : ArithOp) (l r : Value N) (span : Span) : Except Fault (Value N) :=
  match l, r with
  | .num a, .num b =>
    match op with
    | .add => .ok (.num (NumOps.add a b))
    | .minus => .ok (.num (NumOps.sub a b))
    | .times => .ok (.num (NumOps.mul a b))
    | .divide => if NumOps.isZero b then .error (.rt .divisionByZero span) else .ok (.num (NumOps.div a b))
    | .mod => if NumOps.isZero b then .error (.rt .divisionByZero span) else .ok (.num (NumOps.fmod a b))
    | .eq => .ok (.bool (NumOps.approxEq a b))
    | .gt => .ok (.bool (NumOps.gt a b))
    | .lt => .ok (.bool (NumOps.lt a b))
  | .str a, .str b =>
    match op with
    | .add => .ok (.str (a ++ b))
    | .eq => .ok (.bool (a == b))
    | .gt => .ok (.bool (Bytes.lt b a))
    | .lt => .ok (.bool (Bytes.lt a b))
    | _ => .error (.panic .strOp)
  | .str a, .num n =>
    match op with
    | .add => .ok (.str (a ++ NumOps.fmt n))
    | _ => .error (.panic .strNumOp)
  | .num n, .str b =>
    match op with
    | .add => .ok (.str (NumOps.fmt n ++ b))
    | _ => .error (.panic .numStrOp)
  | .bool a, .bool b =>
    match op with
    | .eq => .ok (.bool (a == b))
    | .gt => .ok (.bool (a && !b))
    | .lt => .ok (.bool (!a && b))
    | _ => .error (.panic .boolOp)
  | .null, .null =>
    match op with
    | .eq => .ok (.bool true)
    | .gt => .ok (.bool false)
    | .lt => .ok (.bool false)
    | _ => .error (.panic .nullNullOp)
  | .null, _ =>
    match op with
    | .eq => .ok (.bool false) | .gt => .ok (.bool false) | .lt => .ok (.bool false)
    | _ => .error (.panic .nullOp)
  | _, .null =>
    match op with
    | .eq => .ok (.bool false) | .gt => .ok (.bool false) | .lt => .ok (.bool false)
    | _ => .error (.panic .nullOp)
  | _, _ => .error (.panic .mismatchOp)

/-- Right operand of `and` / `or` (`Bool(b) → b`, `Null → false`, else `unreachable!`). -/
def logicRhs (site : PanicSite) : Value N → Except Fault (Value N)
  | .bool b => .ok (.bool b)
  | .null => .ok (.bool false)
  | _ => .error (.panic site)

/-- `and` stops after the left operand iff it is `false` or `null`. -/
def andStops : Value N → Bool
  | .bool false => true
  | .null => true
  | _ => false

/-- `or` stops after the left operand iff it is `true`. -/
def orStops : Value N → Bool
  | .bool true => true
  | _ => false

def unary (op : UnOp) (v : Value N) : Except Fault (Value N) :=
  match op, v with
  | .not, .bool b => .ok (.bool (!b))
  | .not, .null => .ok (.bool true)
  | .neg, .num n => .ok (.num (NumOps.neg n))
  | _, _ => .error (.panic .unaryOp)

/-- Condition of `if to say` / `jasi`. -/
def truthy (site : PanicSite) : Value N → Except Fault Bool
  | .bool b => .ok b
  | .null => .ok false
  | _ => .error (.panic site)

/-! ### Index reads and index values -/

/-- `Expr::Index` after both operands are evaluated: the base is checked FIRST. -/
def indexRead (base idx : Value N) (idxSpan : Span) : Except Fault (Value N) :=
  match base with
  | .arr items =>
    match idx with
    | .num n =>
      if !NumOps.isFinite n || !NumOps.fractIsZero n then .error (.rt .invalidIndex idxSpan)
      else
        let i := NumOps.toIsize n
        if i < 0 || i ≥ (items.length : Int) then .error (.rt .indexOutOfBounds idxSpan)
        else match items[i.toNat]? with
          | some v => .ok v
          | none => .error (.rt .indexOutOfBounds idxSpan)
    | _ => .error (.rt .invalidIndex idxSpan)
  | _ => .error (.panic .indexBase)

/-- `eval_index_value` after the index expression is evaluated. -/
def indexValue (v : Value N) (idxSpan : Span) : Except Fault Nat :=
  match v with
  | .num n =>
    if !NumOps.isFinite n || !NumOps.fractIsZero n then .error (.rt .invalidIndex idxSpan)
    else if NumOps.lt n (NumOps.ofInt 0) then .error (.rt .indexOutOfBounds idxSpan)
    else .ok (NumOps.toUsize n)
  | _ => .error (.rt .invalidIndex idxSpan)

/-! ### Method tables (`from_name`) -/

inductive StrM where
  | len | slice | upper | lower | find | replace | trim | toNumber | split
deriving DecidableEq, Repr

def StrM.ofName (f : Bytes) : Option StrM :=
  if f = b!"len" then some .len else if f = b!"slice" then some .slice
  else if f = b!"to_uppercase" then some .upper else if f = b!"to_lowercase" then some .lower
  else if f = b!"find" then some .find else if f = b!"replace" then some .replace
  else if f = b!"trim" then some .trim else if f = b!"to_number" then some .toNumber
  else if f = b!"split" then some .split else none

inductive NumM where
  | abs | sqrt | floor | ceil | round
deriving DecidableEq, Repr

def NumM.ofName (f : Bytes) : Option NumM :=
  if f = b!"abs" then some .abs else if f = b!"sqrt" then some .sqrt
  else if f = b!"floor" then some .floor else if f = b!"ceil" then some .ceil
  else if f = b!"round" then some .round else none

inductive ArrM where
  | len | push | pop | reverse | join
deriving DecidableEq, Repr

def ArrM.ofName (f : Bytes) : Option ArrM :=
  if f = b!"len" then some .len else if f = b!"push" then some .push
  else if f = b!"pop" then some .pop else if f = b!"reverse" then some .reverse
  else if f = b!"join" then some .join else none

def ArrM.requiresMut : ArrM → Bool
  | .push => true | .pop => true | .reverse => true | _ => false

inductive CmdM where
  | arg | cwd | env | stdinText | stdinInherit | stdinNull | stdoutCapture | stdoutInherit
  | stdoutNull | stderrCapture | stderrInherit | stderrNull | timeoutMs | run
deriving DecidableEq, Repr

def CmdM.ofName (f : Bytes) : Option CmdM :=
  if f = b!"arg" then some .arg else if f = b!"cwd" then some .cwd
  else if f = b!"env" then some .env else if f = b!"stdin_text" then some .stdinText
  else if f = b!"stdin_inherit" then some .stdinInherit else if f = b!"stdin_null" then some .stdinNull
  else if f = b!"stdout_capture" then some .stdoutCapture
  else if f = b!"stdout_inherit" then some .stdoutInherit
  else if f = b!"stdout_null" then some .stdoutNull
  else if f = b!"stderr_capture" then some .stderrCapture
  else if f = b!"stderr_inherit" then some .stderrInherit
  else if f = b!"stderr_null" then some .stderrNull
  else if f = b!"timeout_ms" then some .timeoutMs else if f = b!"run" then some .run else none

def CmdM.requiresMut : CmdM → Bool
  | .run => false | _ => true

inductive ResM where
  | success | exitCode | stdout | stderr
deriving DecidableEq, Repr

def ResM.ofName (f : Bytes) : Option ResM :=
  if f = b!"success" then some .success else if f = b!"exit_code" then some .exitCode
  else if f = b!"stdout" then some .stdout else if f = b!"stderr" then some .stderr else none

/-- `GlobalBuiltin`. -/
inductive GlobalB where
  | shout | typeOf | readLine | toString | command
deriving DecidableEq, Repr

def GlobalB.ofName (f : Bytes) : Option GlobalB :=
  if f = b!"shout" then some .shout else if f = b!"typeof" then some .typeOf
  else if f = b!"read_line" then some .readLine else if f = b!"to_string" then some .toString
  else if f = b!"command" then some .command else none

/-! ### What each non-mutating method does with its evaluated arguments -/

/-- Argument positions `eval_string_member_call` evaluates (`args.args[i]`), in order, with the
panic site of a missing one. -/
def StrM.argIdx : StrM → List (Nat × PanicSite)
  | .slice => [(0, .sliceArg0), (1, .sliceArg1)]
  | .find => [(0, .findArg0)]
  | .replace => [(0, .replaceArg0), (1, .replaceArg1)]
  | .split => [(0, .splitArg0)]
  | _ => []

/-- `eval_string_member_call` once the selected arguments are values. -/
def strMethod (std : StdOps) (m : StrM) (s : Bytes) (args : List (Value N)) : Except Fault (Value N) :=
  match m with
  | .len => .ok (.num (NumOps.ofInt (StrOps.len s)))
  | .slice =>
    match args with
    | [.num a, .num b] =>
      .ok (.str (StrOps.slice s (NumOps.toIsize (NumOps.floor a)) (NumOps.toIsize (NumOps.floor b))))
    | _ => .error (.panic .sliceArgs)
  | .upper => .ok (.str (std.upper s))
  | .lower => .ok (.str (std.lower s))
  | .trim => .ok (.str (std.trim s))
  | .find =>
    match args with
    | [.str n] =>
      match StrOps.find s n with
      | none => .error (.panic .twMaximalSuffix)
      | some none => .ok (.num (NumOps.ofInt (-1)))
      | some (some i) => .ok (.num (NumOps.ofInt i))
    | _ => .error (.panic .findNeedle)
  | .replace =>
    match args with
    | [.str o, .str n] =>
      match StrOps.replace s o n with
      | none => .error (.panic .twMaximalSuffix)
      | some r => .ok (.str r)
    | _ => .error (.panic .replaceArgs)
  | .toNumber => .ok (.num (NumOps.parseNumber s))
  | .split =>
    match args with
    | [.str p] => .ok (.arr ((StrOps.split s p).map .str))
    | _ => .error (.panic .splitPat)

def numMethod (m : NumM) (n : N) : Value N :=
  match m with
  | .abs => .num (NumOps.abs n)
  | .sqrt => .num (NumOps.sqrt n)
  | .floor => .num (NumOps.floor n)
  | .ceil => .num (NumOps.ceil n)
  | .round => .num (NumOps.round n)

mutual
  /-- `ArrayBuiltin::join`: strings raw, nested arrays joined with the same separator, the rest by
  `Display`. -/
  def joinVal (sep : Bytes) : Value N → Bytes
    | .str s => s
    | .arr xs => joinItems sep xs true
    | .num n => NumOps.fmt n
    | .bool b => boolBytes b
    | .host h => h.display
    | .null => b!"null"
  def joinItems (sep : Bytes) : List (Value N) → Bool → Bytes
    | [], _ => []
    | x :: xs, first => (if first then [] else sep) ++ joinVal sep x ++ joinItems sep xs false
end

def resMethod (m : ResM) (r : ProcResult) : Value N :=
  match m with
  | .success => .bool r.success
  | .exitCode => match r.exitCode with | some c => .num (NumOps.ofInt c) | none => .null
  | .stdout => match r.stdout with | some s => .str s | none => .null
  | .stderr => match r.stderr with | some s => .str s | none => .null

/-- `eval_required_string` after evaluation. -/
def requiredString (v : Value N) (span : Span) : Except Fault Bytes :=
  match v with
  | .str s => .ok s
  | _ => .error (.rt .typeMismatch span)

/-- `eval_timeout_ms` after evaluation. -/
def timeoutMs (v : Value N) (span : Span) : Except Fault Nat :=
  match v with
  | .num n =>
    if !NumOps.isFinite n || NumOps.lt n (NumOps.ofInt 0) || NumOps.isZero n || !NumOps.fractIsZero n then
      .error (.rt .processSpecInvalid span)
    else .ok (NumOps.toU32 n)
  | _ => .error (.rt .processSpecInvalid span)

/-! ### L-value paths (`get_mutable_array`, `get_mutable_process_command`, `assign_index`) -/

/-- The element at an index path (`none` when the path leaves the value). -/
def getPath : Value N → List Nat → Option (Value N)
  | v, [] => some v
  | .arr xs, i :: p =>
    match xs[i]? with
    | some x => getPath x p
    | none => none
  | _, _ :: _ => none

/-- Apply `f` at an index path; the identity when the path leaves the value. -/
def updatePath : Value N → List Nat → (Value N → Value N) → Value N
  | v, [], f => f v
  | .arr xs, i :: p, f => .arr (xs.modify i (fun x => updatePath x p f))
  | v, _ :: _, _ => v

/-- Replace the element at a path. -/
def setPath (v : Value N) (p : List Nat) (w : Value N) : Value N := updatePath v p (fun _ => w)

/-- The walk of `get_mutable_array` / `get_mutable_process_command` over the evaluated indices:
a non-array on the way is `InvalidIndex` at that index's span, an index past the end is
`IndexOutOfBounds`; yields the value the path ends at. -/
def walkMut : Value N → List (Nat × Span) → Except Fault (Value N)
  | v, [] => .ok v
  | .arr xs, (i, sp) :: p =>
    match xs[i]? with
    | some x => walkMut x p
    | none => .error (.rt .indexOutOfBounds sp)
  | _, (_, sp) :: _ => .error (.rt .invalidIndex sp)

/-- The walk of `assign_index`: like `walkMut` up to the last index, but a non-array is
`InvalidIndex` at the STATEMENT span; succeeds iff the last index is inside its array.  An empty
index list is the `unreachable!("Index assignment should return inside loop")`. -/
def walkAssign (stmtSpan : Span) : Value N → List (Nat × Span) → Except Fault Unit
  | _, [] => .error (.panic .assignIndexEmpty)
  | .arr xs, [(i, sp)] => if i < xs.length then .ok () else .error (.rt .indexOutOfBounds sp)
  | .arr xs, (i, sp) :: q :: p =>
    match xs[i]? with
    | some x => walkAssign stmtSpan x (q :: p)
    | none => .error (.rt .indexOutOfBounds sp)
  | _, _ :: _ => .error (.rt .invalidIndex stmtSpan)

/-- A mutation through an l-value: the mutating array methods and the process-command setters. -/
inductive MutOp (N : Type) where
  | push (v : Value N)
  | pop
  | reverse
  | cmd (op : Proc.Op)

/-- What the mutation does to the target cell: new cell and the call's result;
`TypeMismatch` (at the call span) when the cell has the wrong type. -/
def MutOp.apply (op : MutOp N) (cell : Value N) (span : Span) : Except Fault (Value N × Value N) :=
  match op, cell with
  | .push v, .arr xs => .ok (.arr (xs ++ [v]), .null)
  | .pop, .arr xs => .ok (.arr xs.dropLast, (xs.getLast?).getD .null)
  | .reverse, .arr xs => .ok (.arr xs.reverse, .null)
  | .cmd o, .host (.command c) => .ok (.host (.command (Proc.step c o)), .null)
  | _, _ => .error (.rt .typeMismatch span)

end NaijaVerif.Eval
