import NaijaVerif.Driver.Pool
import NaijaVerif.Driver.AstEcho
import NaijaVerif.Driver.Bump
import NaijaVerif.Driver.Strs
import NaijaVerif.Driver.ReadLine
import NaijaVerif.Driver.Render
import NaijaVerif.Driver.Proc
import NaijaVerif.Driver.Limits
import NaijaVerif.Driver.Capture
import NaijaVerif.Driver.Cli
import NaijaVerif.Driver.Lex
import NaijaVerif.Driver.Parse
import NaijaVerif.Driver.Resolve
import NaijaVerif.Driver.Run
import NaijaVerif.Driver.Pipe
import NaijaVerif.Driver.Plan
import NaijaVerif.Driver.Mem
import NaijaVerif.Driver.Depth

/-- `nvdriver <family>`: answer request lines from stdin, one answer line per request. -/
def main (args : List String) : IO UInt32 := do
  match args with
  | ["pool"] => NaijaVerif.Driver.PoolD.main; return 0
  | ["astio"] => NaijaVerif.Driver.AstEchoD.main; return 0
  | ["bump"] => NaijaVerif.Driver.BumpD.main; return 0
  | ["strs"] => NaijaVerif.Driver.StrsD.main; return 0
  | ["readline"] => NaijaVerif.Driver.ReadLineD.main; return 0
  | ["render"] => NaijaVerif.Driver.RenderD.main; return 0
  | ["proc"] => NaijaVerif.Driver.ProcD.main; return 0
  | ["limits"] => NaijaVerif.Driver.LimitsD.main; return 0
  | ["capture"] => NaijaVerif.Driver.CaptureD.main; return 0
  | ["cli"] => NaijaVerif.Driver.CliD.main; return 0
  | ["lex"] => NaijaVerif.Driver.LexD.main; return 0
  | ["parse"] => NaijaVerif.Driver.ParseD.main; return 0
  | ["resolve"] => NaijaVerif.Driver.ResolveD.main; return 0
  | ["run"] => NaijaVerif.Driver.RunD.main; return 0
  | ["pipe"] => NaijaVerif.Driver.PipeD.main; return 0
  | ["plan"] => NaijaVerif.Driver.PlanD.main; return 0
  | ["mem"] => NaijaVerif.Driver.MemD.main; return 0
  | ["depth"] => NaijaVerif.Driver.DepthD.main; return 0
  | _ =>
    IO.eprintln "usage: nvdriver <family>"
    return 2
