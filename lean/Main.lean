import NaijaVerif.Driver.Pool

def main (args : List String) : IO UInt32 := do
  match args with
  | ["pool"] => NaijaVerif.Driver.PoolD.main; return 0
  | _ =>
    IO.eprintln "usage: nvdriver <family>   (pool)"
    return 2
