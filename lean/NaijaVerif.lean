import NaijaVerif.Model.Pool
