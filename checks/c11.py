"""C11 — bump arena: disjoint, aligned, in-bounds blocks; reset and grow behave.

Proof: lean/NaijaVerif/Props/C11.lean over Model/Bump.lean (all histories).  Tie: family `bump`
(harness/src/bump.rs drives the real debug-build Arena; Driver/Bump.lean runs `Bump.step`).  The base
address of the reservation is an environment parameter of the model: the implementation's answer to
`new` reports `base % 65536` and that residue is handed to the model as third word of the request
(addresses themselves are never compared).  Oracle (no model): shadow ranges + byte patterns in the
harness, reported as ORACLE-FAIL lines.  `ArenaString` (src/arena/string.rs) is part of the family:
its buffer is a numbered block, every operation is compared with the model (place, length, capacity,
digest of the content) and with a `std::string::String` doing the same (oracle).  A harness process
killed by a signal (a raw write outside the committed range, one of std's UB checks such as
`Vec::set_len`) names the request it died in (`DIED-AT`); that history is reported as a violation."""
import glob
import os
import re

from common import DRIVER, VERIF, Check, MachineryError, _history, sh

STARTS = ("new",)
BLOCK_OPS = ("alloc", "zalloc", "vec", "sstr", "sfrom")          # requests that take a block number
BLK_REFS = ("grow", "zgrow", "shrink", "fill", "sum", "vpush", "spush", "schar", "srepeat", "sres", "sresx", "sshrink",
            "sclear", "srep", "sonce")                                # requests whose first operand is one
STR_OPS = ("sstr", "sfrom", "spush", "schar", "srepeat", "sres", "sresx", "sshrink", "sclear", "srep", "sonce")
CORPUS = os.path.join(VERIF, "corpus", "C11")


# ------------------------------------------------------------------------------------------ streams
def run_impl(ck, reqs, timeout=3600):
    inp = ("\n".join(reqs) + "\n").encode()
    p = sh([ck.nvh(), "bump", "run"], inp=inp, timeout=timeout)
    return p.returncode, p.stdout.decode(errors="replace").splitlines(), p.stderr.decode(errors="replace").splitlines()


def model_requests(reqs, impl_lines):
    """Hand the observed base residue to the model (third word of `new`)."""
    out = []
    for i, r in enumerate(reqs):
        w = r.split()
        if len(w) == 3 and w[0] == "new" and i < len(impl_lines):
            m = re.match(r"cap=\d+ basemod=(\d+)$", impl_lines[i])
            if m:
                r = f"{r} {m.group(1)}"
        out.append(r)
    return out


def run_model(mreqs, timeout=3600):
    p = sh([DRIVER, "bump"], inp=("\n".join(mreqs) + "\n").encode(), timeout=timeout)
    return p.returncode, p.stdout.decode(errors="replace").splitlines(), p.stderr.decode(errors="replace")


def corr(ck, reqs, label):
    """Same bookkeeping as Check.corr, with the two-pass hand-over of the base residue."""
    rc, impl_lines, err_lines = run_impl(ck, reqs)
    if rc != 0 or len(impl_lines) != len(reqs):
        at = died_at(err_lines)
        i = at[0] if at and at[0] < len(reqs) else min(len(impl_lines), len(reqs) - 1)
        hist = _history(reqs, i, STARTS)
        ck.broken.append({"kind": "impl-run-died", "family": "bump", "rc": rc, "answered": len(impl_lines),
                          "of": len(reqs), "in_flight": hist[-45:], "stderr": err_lines[-5:]})
        if at:
            ck.deaths = getattr(ck, "deaths", []) + [{"history": hist, "what": at[1]}]
    model_lines = []
    if os.path.exists(DRIVER):
        mrc, model_lines, merr = run_model(model_requests(reqs, impl_lines))
        if mrc != 0 or len(model_lines) != len(reqs):
            raise MachineryError(f"driver failed on family bump: rc={mrc} {len(model_lines)}/{len(reqs)} {merr[-500:]}")
    dis = [i for i, (a, b) in enumerate(zip(impl_lines, model_lines)) if a != b]
    fails = []
    for l in err_lines:
        m = re.match(r"ORACLE-FAIL (\d+) (.*)", l)
        if m:
            fails.append((int(m.group(1)) - 1, m.group(2)))
    res = {"family": label, "requests": len(reqs), "impl_answers": len(impl_lines), "model_answers": len(model_lines),
           "disagreements": len(dis), "oracle_fails": len(fails), "profile": "debug"}
    ck.streams.append(res)
    ck.evaluations += len(reqs)
    seen_hist = set()
    for i in dis:
        ctx = _history(reqs, i, STARTS)
        key = "\n".join(ctx[:1]) + str(len(ctx))
        if len(ck.disagreements) < 20 and key not in seen_hist:
            seen_hist.add(key)
            ck.disagreements.append({"family": "bump", "line": i + 1, "request": reqs[i], "impl": impl_lines[i],
                                     "model": model_lines[i], "history": ctx})
    fails.sort(key=lambda f: len(_history(reqs, f[0], STARTS)))
    for (i, msg) in fails[:40]:
        ck.oracle_fails.append({"family": "bump", "line": i + 1, "request": reqs[i] if i < len(reqs) else "",
                                "what": msg, "history": _history(reqs, i, STARTS)})
    res["impl_lines"], res["model_lines"], res["stderr"] = impl_lines, model_lines, err_lines
    return res


def died_at(err_lines):
    """(0-based line, what) of the request the harness process died in, if it said so."""
    for l in err_lines:
        m = re.match(r"DIED-AT (\d+) (.*)", l)
        if m:
            return int(m.group(1)) - 1, "the implementation was killed while executing the request: " + m.group(2).strip()
    return None


def corpus_requests():
    reqs = []
    for path in sorted(glob.glob(os.path.join(CORPUS, "*.txt"))):
        for line in open(path):
            line = line.strip()
            if line and not line.startswith("#"):
                reqs.append(line)
    return reqs


# --------------------------------------------------------------------------------------------- run
def run(ck: Check):
    ck.rule = ("operation histories (<= 40 ops + closing reads) over arenas of 1-4 chunks at steered base residues, every "
               "third one mostly ArenaString operations interleaved with allocations; "
               "non-trivial = a history containing a failed request, a grow that had to move (a block, a Vec or a string "
               "buffer), an allocation after a reset/release that gave space back, a re-commit after a decommit, or a "
               "string operation whose result exceeded the spare capacity; distinct by request text")
    ck.assumptions += [
        "mmap/mprotect succeed; fresh and MADV_DONTNEED-ed pages read as zero (observed through the tie)",
        "std's RawVec growth policy for the vec/vpush composite ops is replicated in the driver (the observed "
        "capacities are part of the compared answer); for byte vectors / ArenaString it is Bump.reserveCap / "
        "reserveExactCap, compared by theorem gen_reserve_policy with a table probed on the compiled crate "
        "(Gen.Arena.reserveProbe) and by the oracle with every capacity observed in the stream",
        "ArenaString requests the allocator must refuse are executed in a forked child only (observed: it dies in "
        "handle_alloc_error); the operand strings are printable ASCII plus four fixed multi-byte characters",
        "the tie runs the debug build only (the model includes the debug fills)",
    ]
    ck.build_harness()
    ck.gen_tables()
    # gen_tables() runs every unit's extractor; only Gen/Arena.lean (gen_bump.py) and the dump itself are
    # imported by this property (DESIGN.md §3.2a: a broken extractor counts for the properties that import
    # its table)
    ck.broken = [b for b in ck.broken if not (b.get("kind") == "extractor-broken"
                                              and "gen_arena" not in str(b.get("what"))
                                              and "dump-tables" not in str(b.get("what")))]
    ck.lean_obligations(["NaijaVerif.Props.C11"])
    ck.build_driver(["Bump"])
    cp = corpus_requests()
    if cp:
        res = corr(ck, cp, "bump-corpus")
        classify(ck, cp, res)
    n = 5000 if ck.tier == "quick" else 60000
    reqs = ck.gen("bump", ["--n", n, "--maxlen", 40])
    res = corr(ck, reqs, "bump")
    classify(ck, reqs, res)
    if ck.tier == "thorough":
        ck.leanchecker(["NaijaVerif.Props.C11"])
        exhaustive(ck)
    if ck.is_broken():
        search(ck)
    return ck.finish()


def classify(ck, reqs, res):
    impl = res["impl_lines"]
    hist, ans = [], []

    def close():
        if not hist:
            return
        ck.count("histories")
        m = re.match(r"cap=(\d+) basemod=(\d+)", ans[0])
        if m:
            ck.count(f"chunks_{int(m.group(1)) // 65536}")
            ck.count("base_residue_page_%d" % (int(m.group(2)) // 4096))
            if int(m.group(2)) != int(hist[0].split()[2]) * 4096:
                ck.count("base_residue_not_steered")
        err = moved = inplace = reuse = recommit = strgrow = False
        gave_back = lowered = False
        nblk, slen, scap = 0, {}, {}
        last_commit = 0
        for r, a in zip(hist, ans):
            w = r.split()
            op = w[0]
            ck.count("op_" + op)
            if a == "bad-op":
                ck.count("bad_op_answers")
            if a.startswith("err"):
                err = True
                ck.count("failed_requests")
            if op in ("alloc", "zalloc") and a.startswith("ok"):
                if int(w[2]) > 4096:
                    ck.count("ok_allocs_align_above_page")
                if int(w[1]) == 0:
                    ck.count("ok_allocs_zero_size")
                if gave_back:
                    reuse = True
            if op in STR_OPS:
                ck.count("string_ops")
                kind = a.split(" ", 1)[0]
                if kind in ("abort", "refused"):
                    ck.count("string_ops_" + kind)
                ms = re.search(r"len=(\d+) cap=(\d+) moved=(\d)", a)
                if ms:
                    ln, cp, mv = int(ms.group(1)), int(ms.group(2)), ms.group(3) == "1"
                    grew = op not in ("sstr", "sfrom") and cp > scap.get(w[1], 0) > 0
                    if mv:
                        ck.count("string_buffer_moved")
                    elif grew:
                        ck.count("string_buffer_grown_in_place")
                    if grew and slen.get(w[1], 0) < scap.get(w[1], 0):
                        ck.count("string_len_lt_cap_lt_newlen")
                        strgrow = True
                    elif grew:
                        ck.count("string_len_eq_cap_lt_newlen")
                        strgrow = True
                    if op in ("srep", "sonce") and kind == "ok":
                        ck.count("string_replace_" + ("growing" if ln > slen.get(w[1], 0) else "shrinking" if ln < slen.get(w[1], 0) else "same_length"))
                    key = str(nblk) if op in ("sstr", "sfrom") else w[1]
                    slen[key], scap[key] = ln, cp
            if op in BLOCK_OPS and a != "bad-op":
                nblk += 1
            if "moved=1" in a:
                moved = True
            if op == "grow" and "moved=0" in a:
                inplace = True
            mm = re.search(r"off=(\d+) commit=(\d+)", a)
            if mm:
                c = int(mm.group(2))
                if c < last_commit:
                    lowered = True
                if c > last_commit and lowered:
                    recommit = True
                if c > last_commit and last_commit > 0:
                    ck.count("commit_boundary_crossings")
                if op in ("reset", "release") and a != "bad-op":
                    gave_back = True
                last_commit = c
        for flag, name in ((err, "with_failure"), (moved, "with_moving_grow"), (inplace, "with_in_place_grow"),
                           (reuse, "with_reuse_after_reset"), (recommit, "with_recommit_after_decommit"),
                           (strgrow, "with_string_growth")):
            if flag:
                ck.count("histories_" + name)
        if err or moved or reuse or recommit or strgrow:
            ck.nontrivial_case("\n".join(hist))
            if len(ck.samples) < 3 and len(hist) < 16 and moved and reuse:
                ck.samples.append({"requests": list(hist), "impl_answers": list(ans)})

    for i, r in enumerate(reqs):
        if r.split(" ", 1)[0] in STARTS:
            close()
            hist, ans = [], []
        hist.append(r)
        ans.append(impl[i] if i < len(impl) else "?")
    close()


def exhaustive(ck):
    """Bounded-exhaustive validation of the tie (not the proof): every history of exactly 5 ops over a
    10-letter alphabet and of exactly 7 ops over a 6-letter one, on a 2-chunk arena whose base is
    page- but not 8 KiB-aligned."""
    def expand(letters):
        out, nblk = ["new 131072 1"], 0
        for l in letters:
            if l == "a1":
                out.append("alloc 1 1"); nblk += 1
            elif l == "aC":
                out.append("alloc 65409 16"); nblk += 1
            elif l == "aA":
                out.append("alloc 24 8192"); nblk += 1
            elif l == "z":
                out.append("zalloc 65537 1"); nblk += 1
            elif l == "g0":
                out.append("grow 0 200")
            elif l == "gL":
                out.append(f"grow {max(nblk - 1, 0)} 70000")
            elif l == "s":
                out.append(f"shrink {max(nblk - 1, 0)} 0")
            elif l == "m":
                out.append("mark")
            elif l == "r":
                out.append("reset 0")
            elif l == "d":
                out.append("decommit")
        out.append("sum 0")
        return out

    import itertools
    total = 0
    for alphabet, length, label in ((["a1", "aC", "aA", "z", "g0", "gL", "s", "m", "r", "d"], 5, "len5-10ops"),
                                    (["a1", "aC", "gL", "m", "r", "d"], 7, "len7-6ops")):
        reqs = []
        for letters in itertools.product(alphabet, repeat=length):
            reqs.extend(expand(letters))
            total += 1
        res = corr(ck, reqs, "bump-exhaustive-" + label)
        classify(ck, reqs, res)
    # strings: every history of exactly 5 requests over 9 letters behind `sstr 16 10` (a string with spare
    # room), on a one-chunk arena: what is allocated behind the string, how much is pushed / reserved /
    # replaced (fits, fills exactly, one too many, doubling ends exactly at the offset)
    letters = {"a8": "alloc 8 1", "a16": "alloc 16 1", "p6": "spush 0 6", "p7": "spush 0 7", "r9": "srep 0 0 1 9",
               "r0": "srep 0 2 6 0", "x": "sresx 0 22", "o": "sonce 0 1 2 9", "s": "sshrink 0"}
    reqs = []
    for word in itertools.product(sorted(letters), repeat=5):
        reqs.append("new 65536 2")
        reqs.append("sstr 16 10")
        reqs.extend(letters[l] for l in word)
        reqs.extend(["sum 0", "sum 1", "sum 2"])
        total += 1
    res = corr(ck, reqs, "bump-exhaustive-strings-len5-9ops")
    classify(ck, reqs, res)
    ck.extra_cov["exhaustive_histories"] = total


# ------------------------------------------------------------------------------------------ search
def kind_of(msg):
    return " ".join(re.sub(r"\d+", "N", msg).split()[:3])


def oracle_kinds(ck, hist):
    _rc, _out, err = run_impl(ck, hist, timeout=120)
    return [kind_of(m.group(1)) for l in err for m in [re.match(r"ORACLE-FAIL \d+ (.*)", l)] if m]


def remove_line(hist, i):
    """Remove request i; block and mark numbers are positional, so references are renumbered and
    requests that referred to the removed block/mark are dropped."""
    op = hist[i].split()[0]
    blk = sum(1 for r in hist[:i] if r.split()[0] in BLOCK_OPS)
    mrk = sum(1 for r in hist[:i] if r.split()[0] == "mark")
    out = hist[:i]
    for r in hist[i + 1:]:
        w = r.split()
        if op in BLOCK_OPS and w[0] in BLK_REFS:
            b = int(w[1])
            if b == blk:
                continue
            if b > blk:
                w[1] = str(b - 1)
        if op == "mark" and w[0] == "reset":
            k = int(w[1])
            if k == mrk:
                continue
            if k > mrk:
                w[1] = str(k - 1)
        out.append(" ".join(w))
    return out


def shrink(ck, hist, what):
    kind = kind_of(what)
    best = list(hist)
    for _ in range(4):
        changed = False
        i = len(best) - 1
        while i >= 1:
            if i < len(best):
                cand = remove_line(best, i)
                if len(cand) < len(best) and kind in oracle_kinds(ck, cand):
                    best, changed = cand, True
            i -= 1
        if not changed:
            break
    return best


def dies(ck, hist):
    rc, _out, err = run_impl(ck, hist, timeout=120)
    return rc != 0 and died_at(err) is not None


def shrink_death(ck, hist):
    """Shortest history found by line removal on which the harness process is still killed."""
    best = list(hist)
    for _ in range(4):
        changed = False
        i = len(best) - 2          # the last request is the one it dies in
        while i >= 1:
            if i < len(best) - 1:
                cand = remove_line(best, i)
                if len(cand) < len(best) and dies(ck, cand):
                    best, changed = cand, True
            i -= 1
        if not changed:
            break
    return best


def signature(hist, what):
    """Narrow tag of the D-11 shape: a block misaligned for an alignment above the page size."""
    m = re.match(r"misaligned block \d+: addr mod (\d+) = (\d+)", what)
    if m and int(m.group(1)) > 4096 and int(m.group(2)) % 4096 == 0:
        return {"oracle": "misaligned", "alignment": "above-page-size", "residue": "page-multiple"}
    return None


def search(ck):
    found = list(ck.oracle_fails)
    if not found and not getattr(ck, "deaths", []):
        budget = 8000 if ck.tier == "quick" else 150000
        for shift, extra in ((101, []), (202, ["--bias", "align"]), (303, ["--bias", "str"])):
            ck.seed += shift
            reqs = ck.gen("bump", ["--n", budget, "--maxlen", 60] + extra)
            ck.seed -= shift
            corr(ck, reqs, "bump-search")
            if ck.oracle_fails or getattr(ck, "deaths", []):
                found = list(ck.oracle_fails)
                break
    deaths = getattr(ck, "deaths", [])
    if not found and deaths:
        # the harness process was killed in the middle of a request (SIGSEGV: a write outside the committed
        # range; SIGABRT: one of std's UB checks, e.g. Vec::set_len past the capacity)
        d = min(deaths, key=lambda x: len(x["history"]))
        hist = shrink_death(ck, d["history"]) if dies(ck, d["history"]) else d["history"]
        rc, impl, err = run_impl(ck, hist, timeout=120)
        at = died_at(err)
        _mrc, model, _ = run_model(model_requests(hist, impl)) if os.path.exists(DRIVER) else (0, [], "")
        ck.report_violation({"kind": "impl-killed", "family": "bump", "what": at[1] if at else d["what"],
                             "requests": hist, "impl_answers": impl, "model_answers": model,
                             "replay_cmd": "./check C11 --replay <this file>",
                             "broken": ck.broken[:5], "disagreements": ck.disagreements[:3]})
        return
    if found:
        f = min(found, key=lambda x: len(x["history"]))
        hist = shrink(ck, f["history"], f["what"])
        rc, impl, err = run_impl(ck, hist, timeout=120)
        whats = [m.group(1) for l in err for m in [re.match(r"ORACLE-FAIL \d+ (.*)", l)] if m]
        what = whats[0] if whats else f["what"]
        _mrc, model, _ = run_model(model_requests(hist, impl)) if os.path.exists(DRIVER) else (0, [], "")
        rep = {"kind": "impl-vs-oracle", "family": "bump", "what": what, "requests": hist,
               "impl_answers": impl, "model_answers": model,
               "replay_cmd": "./check C11 --replay <this file>",
               "broken": ck.broken[:5], "disagreements": ck.disagreements[:3]}
        sig = signature(hist, what)
        if sig:
            rep["signature"] = sig
        ck.report_violation(rep)
    else:
        ck.report_violation({"kind": "tie-broken", "family": "bump",
                             "what": "a proof obligation or the model/implementation correspondence no longer "
                                     "checks; no history violating the property itself was found",
                             "broken": ck.broken[:10], "disagreements": ck.disagreements[:5],
                             "requests": (ck.disagreements[0]["history"] if ck.disagreements else [])},
                            no_input_found=True)


def replay(ck, data):
    reqs = data.get("requests", [])
    if not reqs:
        print("no requests recorded:", data.get("what"), data.get("broken"))
        return 1
    rc, il, err = run_impl(ck, reqs, timeout=300)
    _mrc, ml, _ = run_model(model_requests(reqs, il))
    print("request | implementation | model")
    for i, r in enumerate(reqs):
        print(f"{r} | {il[i] if i < len(il) else '?'} | {ml[i] if i < len(ml) else '?'}")
    print("\n".join(err))
    failed = any(l.startswith("ORACLE-FAIL") for l in err)
    at = died_at(err)
    if rc != 0:
        print(f"implementation: KILLED (exit status {rc})" + (f" in request {at[0] + 1}: {reqs[at[0]]}" if at and at[0] < len(reqs) else ""))
    print("oracle:", "FAIL" if failed else "not reached (killed)" if rc != 0 else "ok",
          "| model vs implementation:", "same" if il == ml else "DIFFERENT")
    return 1 if failed or il != ml or rc != 0 else 0
