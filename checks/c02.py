"""C02 — memory reclamation is invisible: frame resets, pool slot recycling and the relocation of
return values never change what a program prints or how it ends.

Proof: lean/NaijaVerif/Props/C02.lean over the model lean/NaijaVerif/Model/Mem.lean (`MemEval`: an
abstract-interpretation evaluator of the memory discipline of src/runtime.rs over the real annotated
AST; values are shapes with storage handles, every data-dependent decision comes from universally
quantified oracle streams): T1 no read of recycled storage, T2 only live pool slots are released
(the hypothesis of C12), T3 erasure (the run with reclamation and the run without observe and print
the same contents), plus `c02_pinned_is_unsafe` (the pinned discipline, kept as a switch, provably
reads recycled storage on the D-02 witnesses).
Tie: family `mem` — `m` lines: the memory-event trace of the real run (hook `mem_trace_*`: frame
marks/resets, pool allocs/frees with class+index, promotes, clone-on-read copies, relocation staging,
scope pops, control decisions) against the event list MemEval produces on the annotated AST with the
oracle streams extracted from that trace; compared line by line.
Implementation-level oracle (needs no model): `d` lines — the same program run by the real crate with
`Runtime::new(arena, Some(frame))` and with `Runtime::new(arena, None)` in the debug build (freed
memory is poisoned); outputs and ending have to be equal.  Streams: corpus (the D-02 witnesses as `d`
lines, corpus/C02/src/*.ns as trace programs), the enumerated product value source x store path x
reclamation event x observation, the enumerated product temporary receiver x method case x holding
context (method calls on computed temporaries -- popped elements, call results, concatenations,
chains -- whose result is held while a string of the same pool class is stored), the enumerated product
command builder call x argument source x reclaimed region, the enumerated product computed operand of every length
1..40 x first-allocation shape of a callee (loop / block / branch / nested call entered before any local, no locals at
all) held across the call, the enumerated product pool size class x bulk release mode with more than a quarter of the
class's slots alive and then free at once next to live strings of the neighbouring class, random programs
(the same temporary-receiver shapes are weighted options of the random generator; their distribution
is reported as `random_temp_shapes`)."""
import glob
import os
import re
import subprocess

from common import Check, DRIVER, LEAN, VERIF, MachineryError, sh

FAMILY = "mem"
PROP = "NaijaVerif.Props.C02"
CORPUS = os.path.join(VERIF, "corpus", "C02")
STAT = re.compile(r"STAT (\d+) end=(\w+) resets=(\d+) frees=(\d+) pallocs=(\d+) reuse=(\d+) rcopy=(\d+)")
FAIL = re.compile(r"ORACLE-FAIL (\d+) (.*)")
GEN_STAT = re.compile(r"GEN-STAT (.*)")
# tag keys of the two enumerated products (first line of a product program)
DIM_KEYS = ("src", "store", "ev", "obs", "recv", "meth", "hold", "storer", "len", "cmd", "arg", "region", "cmdobs",
            "held", "hlen", "callee", "ctx", "bulk", "cls", "fill")

# The witnesses of D-02 (fixed by b552049): each differed between the two runs on the pinned tree.
WITNESSES = [
    ("D-02a held operand, callee reassigns the variable",
     'make x get "aaaa" add "b"\ndo f() start\nx get "zzzz" add "y"\nreturn "!"\nend\nshout(x add f())'),
    ("D-02a element of a literal",
     'make x get "aaaa" add "b"\ndo f() start\nx get "zzzz" add "y"\nreturn "!"\nend\nshout([x, f()])'),
    ("D-02a compared operand",
     'make x get "aaaa" add "b"\ndo f() start\nx get "zzzz" add "y"\nreturn "aaaab"\nend\nshout(x na f())'),
    ("D-02b self assignment", 'make s get "ab" add "c"\ns get s\nshout(s)'),
    ("D-02b each-other assignment",
     'make s get "ab" add "c"\nmake t get "de" add "f"\ns get t\nt get s\nshout(s)\nshout(t)'),
    ("D-02c variable through the identity function",
     'do id(p) start return p end\nmake s get "ab" add "c"\ns get id(s)\nshout(s)'),
    ("D-02c parameter returned while the callee reassigns the global",
     'make g get "ab" add "c"\ndo f(p) start\ng get "zz" add "y"\nreturn p\nend\nshout(f(g))'),
    ("D-02c local returned", 'do f() start\nmake s get "a" add "b"\nreturn s\nend\nshout(f())'),
    ("D-02d temporary through the identity function", 'do id(p) start return p end\nshout(id("ab" add "cd"))'),
    ("D-02e command returned from a function",
     'do mk() start\nmake c get command("echo")\nreturn c\nend\nmake k get mk()\nshout(k)'),
    ("D-02f parameter array grown in a loop",
     'do f(p) start\nmake i get 0\njasi (i small pass 40) start\np.push("x")\ni get i add 1\nend\n'
     'return p.len()\nend\nshout(f([1]))'),
    ("D-02f parameter array grown in a loop and returned",
     'make a get [1, 2]\ndo f(p) start\nmake i get 0\njasi (i small pass 40) start\np.push("x" add "y")\n'
     'i get i add 1\nend\nreturn p\nend\nshout(f(a))'),
]


# ------------------------------------------------------------------------------------------ requests

def d_line(src):
    b = src.encode()
    return "d " + (b.hex() if b else "-")


def src_of(req):
    w = req.split()
    if len(w) < 2 or w[1] == "-":
        return ""
    try:
        return bytes.fromhex(w[1]).decode(errors="replace")
    except ValueError:
        return ""


def ensure_corpus():
    """corpus/C02/*.req hold request lines; a fresh tree gets the D-02 witnesses."""
    os.makedirs(CORPUS, exist_ok=True)
    if glob.glob(os.path.join(CORPUS, "*.req")):
        return
    with open(os.path.join(CORPUS, "d02-witnesses.req"), "w") as f:
        f.write("# C02 seeds: the witnesses of D-02 (fix: b552049), one `d <hex of source>` request per line\n")
        for name, src in WITNESSES:
            f.write(f"# {name}\n{d_line(src)}\n")


def corpus_lines():
    out = []
    for path in sorted(glob.glob(os.path.join(CORPUS, "*.req"))):
        for line in open(path):
            line = line.strip()
            if line and not line.startswith("#"):
                out.append(line)
    return out


def nvh_lines(ck, args, what):
    p = sh([ck.nvh(), FAMILY] + [str(a) for a in args], timeout=1800)
    if p.returncode != 0:
        raise MachineryError(f"nvh mem {what} failed: {p.stderr.decode(errors='replace')[-500:]}")
    return p.stdout.decode().splitlines()


def product_lines(ck):
    return nvh_lines(ck, ["product"], "product")


def random_lines(ck, n, shift=0, record=True):
    """`d` lines of n random programs; the generator's own count of the temporary-receiver shapes it
    emitted (stderr, `GEN-STAT k=v ...`) is accumulated into the evidence."""
    p = sh([ck.nvh(), FAMILY, "gen", "--seed", str(ck.seed + shift), "--n", str(n)], timeout=1800)
    if p.returncode != 0:
        raise MachineryError(f"nvh mem gen failed: {p.stderr.decode(errors='replace')[-500:]}")
    if record:
        shapes = ck.extra_cov.setdefault("random_temp_shapes", {})
        for l in p.stderr.decode(errors="replace").splitlines():
            m = GEN_STAT.match(l)
            if m:
                for kv in m.group(1).split():
                    k, _, v = kv.partition("=")
                    if v.isdigit():
                        shapes[k] = shapes.get(k, 0) + int(v)
    return p.stdout.decode().splitlines()


def trace_lines(ck, n, shift=0, corpus=False):
    """`m` request lines: (hand-written corpus sources first, when asked,) the product, n random programs."""
    src_dir = os.path.join(CORPUS, "src")
    if corpus and os.path.isdir(src_dir):
        os.environ["NV_MEMTRACE_SRC_DIR"] = src_dir
        ck.extra_cov["corpus_trace_sources"] = len(glob.glob(os.path.join(src_dir, "*.ns")))
    try:
        return nvh_lines(ck, ["gen", "--kind", "trace", "--seed", ck.seed + shift, "--n", n], "gen --kind trace")
    finally:
        os.environ.pop("NV_MEMTRACE_SRC_DIR", None)


def hook_present(ck):
    p = sh([ck.nvh(), FAMILY, "hook-present"])
    return p.returncode == 0 and p.stdout.decode().strip() == "1"


# ------------------------------------------------------------------------------------------- streams

def stats_of(res):
    """{0-based line: (end, resets, frees, pallocs, reuse, rcopy)} from the STAT lines on stderr."""
    out = {}
    for l in res["stderr"]:
        m = STAT.match(l)
        if m:
            out[int(m.group(1)) - 1] = (m.group(2),) + tuple(int(x) for x in m.groups()[2:])
    return out


def tag_of(src):
    """The `# src=.. store=.. ev=.. obs=..` / `# recv=.. meth=.. hold=.. storer=.. len=..` /
    `# cmd=.. arg=.. region=.. cmdobs=..` first line of a product program as a dict."""
    first = src.split("\n", 1)[0]
    if not first.startswith(("# src=", "# recv=", "# cmd=", "# held=", "# bulk=")):
        return None
    return dict(kv.split("=", 1) for kv in first[2:].split() if "=" in kv)


def classify(ck, label, reqs, res):
    st = stats_of(res)
    dims = ck.extra_cov.setdefault("product_dimensions", {}) if label.startswith("product") else None
    n = nontrivial = reclaiming = reclaiming_nt = 0
    for i, r in enumerate(reqs):
        kind = r.split(" ", 1)[0]
        if kind == "m":
            # a traced program: non-trivial by the same rule, read off the implementation's event list
            ck.count(f"{label}_m_lines")
            ans = res["impl_lines"][i] if i < len(res["impl_lines"]) else ""
            evs = ans.split(" ev=", 1)[1].split(",") if " ev=" in ans else []
            freed, resets, reuse = set(), 0, 0
            for e in evs:
                w = e.split(":")
                if w[0] == "reset":
                    resets += 1
                elif w[0] == "pfree" and len(w) == 3:
                    freed.add((w[1], w[2]))
                elif w[0] == "palloc" and len(w) == 3 and (w[1], w[2]) in freed:
                    freed.discard((w[1], w[2]))
                    reuse += 1
            ck.count("trace_events", len(evs))
            if resets >= 1 and reuse >= 1:
                ck.count("trace_nontrivial")
                ck.nontrivial_case(r.split(" ", 2)[1])
            continue
        if kind != "d":
            ck.count(f"{label}_{kind}_lines")
            continue
        n += 1
        s = st.get(i)
        if s is None:
            ck.count(f"{label}_without_stat")
            continue
        end, resets, frees, pallocs, reuse, rcopy = s
        ck.count(f"end_{end}")
        if resets:
            ck.count("programs_with_frame_reset")
        if frees:
            ck.count("programs_with_pool_free")
        if reuse:
            ck.count("programs_with_slot_reuse")
        if rcopy:
            ck.count("programs_with_read_copy")
        nt = resets >= 1 and reuse >= 1
        if nt:
            nontrivial += 1
            ck.nontrivial_case(r)
            if len(ck.samples) < 6 and len(r) < 1500 and sum(1 for x in ck.samples if x.get("stream") == label) < 2:
                ck.samples.append({"stream": label, "source": src_of(r),
                                   "stats": {"end": end, "resets": resets, "frees": frees, "pallocs": pallocs,
                                             "reuse": reuse, "rcopy": rcopy}})
        if dims is not None:
            t = tag_of(src_of(r))
            if t:
                if "recv" in t:
                    ck.count("product_temp_receiver_programs")
                    if nt:
                        ck.count("product_temp_receiver_nontrivial")
                if "cmd" in t:
                    ck.count("product_command_builder_programs")
                    if nt:
                        ck.count("product_command_builder_nontrivial")
                if "held" in t:
                    ck.count("product_held_across_call_programs")
                if "bulk" in t:
                    ck.count("product_mass_release_programs")
                    # more than a quarter of one class's slots given back: at least 208 frees in the smallest case
                    if frees >= 200:
                        ck.count("product_mass_release_over_a_quarter_freed")
                for k in DIM_KEYS:
                    if k in t:
                        d = dims.setdefault(k, {})
                        d[t[k]] = d.get(t[k], 0) + 1
                if t.get("reclaim") == "1":
                    reclaiming += 1
                    reclaiming_nt += nt
    ck.count(f"{label}_programs", n)
    ck.count(f"{label}_nontrivial", nontrivial)
    if reclaiming:
        ck.extra_cov[f"{label}_reclaiming_event_programs"] = reclaiming
        ck.extra_cov[f"{label}_reclaiming_event_nontrivial"] = reclaiming_nt


def stream(ck, label, reqs, profile="debug"):
    if not reqs:
        return None
    name = label if profile == "debug" else f"{label}-{profile}"
    try:
        res = ck.corr(FAMILY, reqs, profile=profile, label=name, timeout=1500)
    except subprocess.TimeoutExpired:
        # a program that does not terminate under reclamation (only a corrupted run does that)
        ck.broken.append({"kind": "impl-run-hung", "family": FAMILY, "stream": name, "requests": len(reqs)})
        return None
    if profile == "debug":
        classify(ck, label, reqs, res)
    return res


def chunks(xs, n):
    for i in range(0, len(xs), n):
        yield xs[i:i + n]


# ----------------------------------------------------------------------------------------------- run

def run(ck: Check):
    ck.rule = ("whole programs run twice by the real crate (frame arena and pool recycling on / off), outputs and ending "
               "compared; non-trivial = the run with reclamation performed >= 1 frame reset and >= 1 pool slot reuse "
               "(an allocation that is handed a previously freed slot), by the trace-hook counters; distinct by "
               "request text")
    ck.assumptions += [
        "the differential oracle compares what the two runs print and how they end; memory that is reclaimed too "
        "early but never read again is invisible to it (the theorem covers it, the debug-build poisoning narrows it)",
    ]
    ensure_corpus()
    ck.build_harness()
    ck.gen_tables()
    if os.path.exists(os.path.join(LEAN, "NaijaVerif", "Props", "C02.lean")):
        ck.lean_obligations([PROP])
    else:
        ck.notes.append("lean/NaijaVerif/Props/C02.lean is not there yet: no proof obligations counted")
    ck.build_driver()
    hook = hook_present(ck)
    ck.extra_cov["hook_present"] = hook
    if not hook:
        ck.notes.append("trace hook absent: the STAT counters are all zero, no case counts as non-trivial")

    quick = ck.tier == "quick"
    # 1. corpus, 2. the enumerated product, 3. random programs, 4. memory-event traces
    stream(ck, "corpus", corpus_lines())
    prod = product_lines(ck)
    ck.extra_cov["product_programs"] = len(prod)
    stream(ck, "product", prod)
    n_random = 20000 if quick else 300000
    done, shift = 0, 0
    while done < n_random:
        n = min(10000, n_random - done)
        stream(ck, "random", random_lines(ck, n, shift))
        done += n
        shift += 1000
    if hook:
        n_trace = 1500 if quick else 30000
        done, shift = 0, 0
        while done < n_trace:
            n = min(5000, n_trace - done)
            stream(ck, "trace", trace_lines(ck, n, shift, corpus=(done == 0)))
            done += n
            shift += 1000
    else:
        ck.notes.append("trace hook absent: trace correspondence skipped")

    if not quick:
        # the same streams in the release build: no poisoning, other inlining and layout
        ck.build_harness("release")
        stream(ck, "corpus", corpus_lines(), profile="release")
        stream(ck, "product", prod, profile="release")
        for shift in range(0, 8000, 1000):
            stream(ck, "random", random_lines(ck, 10000, shift, record=False), profile="release")
        if os.path.exists(os.path.join(LEAN, "NaijaVerif", "Props", "C02.lean")):
            ck.leanchecker([PROP])

    if ck.is_broken():
        search(ck)
    return ck.finish()


# -------------------------------------------------------------------------------------------- search

def run_batch(ck, sources, profile="debug"):
    """Differential verdict of each source: None (the runs agree) or the oracle's message."""
    if not sources:
        return []
    inp = ("\n".join(d_line(s) for s in sources) + "\n").encode()
    out = [None] * len(sources)
    try:
        p = sh([ck.nvh(profile), FAMILY, "run"], inp=inp, timeout=600)
    except subprocess.TimeoutExpired:
        return out
    for l in p.stderr.decode(errors="replace").splitlines():
        m = FAIL.match(l)
        if m and 0 < int(m.group(1)) <= len(sources):
            out[int(m.group(1)) - 1] = m.group(2)
    return out


def genuine(msg):
    """The run without reclamation ended normally (ok / runtime error): the failure is a difference between
    the two runs and not, say, a program that exhausts memory either way."""
    m = re.search(r"without: (\S*)", msg)
    return bool(m) and (m.group(1) == "ok" or m.group(1).startswith("rt:"))


def loop_cost(src):
    """Largest loop bound of a program text in thousands (0 for ordinary programs)."""
    bounds = [int(x) for x in re.findall(r"small pass (\d{4,6})\)", src)]
    return max(bounds, default=0) // 1000


def outcome_of(msg):
    if "ended in abort" in msg:
        return "abort"
    if "ended in panic" in msg:
        return "panic"
    return "diff"


def search(ck):
    """Something no longer checks: look for a concrete program on which the property itself fails on the
    implementation (the two runs differ), minimise it and report it."""
    found = [(f["request"], f["what"]) for f in ck.oracle_fails if f["request"].startswith("d ")]
    if not found:
        budget = 20000 if ck.tier == "quick" else 100000
        pools = [corpus_lines(), product_lines(ck)] + [random_lines(ck, budget, s, record=False) for s in (101, 202, 303)]
        for reqs in pools:
            reqs = [r for r in reqs if r.startswith("d ")]
            for part in chunks(reqs, 10000):
                verdicts = run_batch(ck, [src_of(r) for r in part])
                ck.evaluations += len(part)
                found += [(r, v) for r, v in zip(part, verdicts) if v]
            if found:
                break
    if not found:
        ck.report_violation({"kind": "tie-broken", "family": FAMILY,
                             "what": "proof obligation or model/implementation correspondence no longer checks; no "
                                     "program on which the two runs differ was found",
                             "broken": ck.broken[:10], "disagreements": ck.disagreements[:5],
                             "requests": (ck.disagreements[0]["history"] if ck.disagreements else [])},
                            no_input_found=True)
        return
    # minimise a few of the smallest failing programs: different programs may show different defects
    # programs whose two runs both end normally and print different things first (both outputs are in the
    # report), then aborts / panics of the reclaiming run
    # (among those, programs with small loop bounds first: minimising a program that fills thousands of pool slots
    # costs seconds per candidate)
    found.sort(key=lambda f: (not genuine(f[1]), outcome_of(f[1]) != "diff", loop_cost(src_of(f[0])), len(f[0])))
    reported = set()
    for req, what in found[:40]:
        if len(reported) >= 3:
            break
        src, what = shrink(ck, src_of(req), what)
        sig = {"oracle": "frame-vs-noframe", "outcome": outcome_of(what), "tags": structural_tags(src)}
        key = repr(sig)
        if key in reported:
            continue
        reported.add(key)
        ck.report_violation({"kind": "impl-vs-oracle", "family": FAMILY, "what": what[:600],
                             "requests": [d_line(src)], "source": src, "signature": sig,
                             "original_request": req if len(req) < 20000 else req[:20000] + "…",
                             "replay_cmd": "./check C02 --replay <this file>",
                             "broken": ck.broken[:5], "disagreements": ck.disagreements[:3]})


# ------------------------------------------------------------------------------------ program trees

class Node:
    """A statement line, or a block: header line, children, `end`, optionally `if not so start` children `end`."""

    def __init__(self, line, kids=None, other=None):
        self.line = line
        self.kids = kids      # None for a simple statement
        self.other = other    # else branch of an `if to say`

    def lines(self):
        if self.kids is None:
            return [self.line]
        out = [self.line]
        for k in self.kids:
            out += k.lines()
        out.append("end")
        if self.other is not None:
            out.append("if not so start")
            for k in self.other:
                out += k.lines()
            out.append("end")
        return out


def opens_block(line):
    return line == "start" or line.endswith(" start")


def parse_tree(src):
    """The program as a forest of Nodes; None when the text is not in the one-construct-per-line form the
    generators emit (then it is shrunk by plain line deletion)."""
    lines = [l.strip() for l in src.split("\n")]
    lines = [l for l in lines if l]
    pos = 0

    def block():
        nonlocal pos
        out = []
        while pos < len(lines):
            l = lines[pos]
            if l == "end":
                return out
            pos += 1
            if l.startswith("#"):
                out.append(Node(l))
            elif opens_block(l) and not one_liner(l):
                kids = block()
                if pos >= len(lines) or lines[pos] != "end":
                    raise ValueError("unbalanced")
                pos += 1
                node = Node(l, kids)
                if l.startswith("if to say") and pos < len(lines) and lines[pos] == "if not so start":
                    pos += 1
                    node.other = block()
                    if pos >= len(lines) or lines[pos] != "end":
                        raise ValueError("unbalanced")
                    pos += 1
                out.append(node)
            else:
                out.append(Node(l))
        return out

    try:
        forest = block()
        if pos != len(lines):
            return None
        return forest
    except ValueError:
        return None


def one_liner(l):
    """`do id(p) start return p end` — a whole block on one line."""
    return re.search(r"\bstart\b.*\bend$", l) is not None


def render(forest):
    out = []
    for n in forest:
        out += n.lines()
    return "\n".join(out)


COUNTER_STEP = re.compile(r"^(\w+) get \1 add 1$")


def list_reductions(line):
    """The line with one element of one `[a, b, ...]` list (two or more elements) removed, for every list
    and element; quotes are respected. Lets the shrinker thin out the stock arrays of generated programs."""
    out = []
    stack, pairs, quote = [], [], None
    for i, ch in enumerate(line):
        if quote:
            if ch == quote and line[i - 1] != "\\":
                quote = None
        elif ch in "\"'":
            quote = ch
        elif ch in "[(":
            stack.append((ch, i, [i]))
        elif ch in "])" and stack:
            op, start, cuts = stack.pop()
            if op == "[" and ch == "]" and len(cuts) > 1 and (start == 0 or not (line[start - 1].isalnum() or line[start - 1] in "_)]")):
                pairs.append((cuts, i))
        elif ch == "," and stack:
            stack[-1][2].append(i)
    for cuts, end in pairs:
        bounds = cuts + [end]
        for k in range(len(cuts)):
            lo, hi = bounds[k], bounds[k + 1]
            if k == 0:
                # first element: drop it and the comma + blank after it
                cand = line[:lo + 1] + line[hi + 1:].lstrip()
            else:
                cand = line[:lo] + line[hi:]
            out.append(cand)
    return out


def variants(forest):
    """Every program obtained by one reduction step: delete a node, delete an else branch, replace a
    block by its body (loop / if / block wrappers), replace an if by its else body, delete one element
    of an array literal."""
    out = []

    def walk(nodes, rebuild):
        for i, n in enumerate(nodes):
            if n.kids is None and "[" in n.line and not n.line.startswith("#"):
                for cand in list_reductions(n.line):
                    out.append(rebuild(nodes[:i] + [Node(cand)] + nodes[i + 1:]))
            # a loop keeps its counter increment: without it the candidate does not terminate
            if not (n.kids is None and COUNTER_STEP.match(n.line)):
                out.append(rebuild(nodes[:i] + nodes[i + 1:]))
            if n.kids is not None:
                if not n.line.startswith("do "):
                    out.append(rebuild(nodes[:i] + n.kids + nodes[i + 1:]))
                if n.other is not None:
                    out.append(rebuild(nodes[:i] + [Node(n.line, n.kids)] + nodes[i + 1:]))
                    out.append(rebuild(nodes[:i] + n.other + nodes[i + 1:]))

                def in_kids(new, i=i, n=n, nodes=nodes, rebuild=rebuild):
                    return rebuild(nodes[:i] + [Node(n.line, new, n.other)] + nodes[i + 1:])
                walk(n.kids, in_kids)
                if n.other is not None:
                    def in_other(new, i=i, n=n, nodes=nodes, rebuild=rebuild):
                        return rebuild(nodes[:i] + [Node(n.line, n.kids, new)] + nodes[i + 1:])
                    walk(n.other, in_other)

    walk(forest, lambda new: new)
    return out


def shrink(ck, src, what):
    """Greedy reduction: all one-step variants of the current program are run in one batch; the smallest
    one on which the oracle still fails (same outcome class preferred) becomes the current program."""
    best, best_what = src, what
    for _ in range(400):
        forest = parse_tree(best)
        if forest is None:
            lines = best.split("\n")
            cands = ["\n".join(lines[:i] + lines[i + 1:]) for i in range(len(lines))
                     if not COUNTER_STEP.match(lines[i].strip())]
        else:
            cands = [render(v) for v in variants(forest)]
        cands = [c for c in dict.fromkeys(cands) if c.strip() and c != best]
        if not cands:
            break
        verdicts = run_batch(ck, cands)
        ck.evaluations += len(cands)
        failing = [(c, v) for c, v in zip(cands, verdicts) if v]
        if genuine(best_what):
            failing = [f for f in failing if genuine(f[1])]
        if not failing:
            break
        same = [f for f in failing if outcome_of(f[1]) == outcome_of(best_what)]
        best, best_what = min(same or failing, key=lambda f: len(f[0]))
    return best, best_what


IDENT = r"[A-Za-z_][A-Za-z0-9_]*"


def structural_tags(src):
    """Sorted structural tags of a (minimised) program: the shape of the defect, not its text."""
    tags = set()
    forest = parse_tree(src) or [Node(l) for l in src.split("\n") if l.strip()]
    funcs = {}

    def collect(nodes):
        for n in nodes:
            m = re.match(rf"do ({IDENT})\(([^)]*)\) start", n.line)
            if m:
                funcs[m.group(1)] = [p.strip() for p in m.group(2).split(",") if p.strip()]
            if n.kids:
                collect(n.kids)
            if n.other:
                collect(n.other)

    collect(forest)
    call = "|".join(re.escape(f) for f in funcs)

    def stmt(line, params, made, in_loop, fname):
        m = re.match(rf"({IDENT}) get ({IDENT})$", line)
        if m and m.group(1) == m.group(2):
            tags.add("self-assign")
        elif m:
            tags.add("var-to-var-assign")
        m = re.match(rf"({IDENT}) get ", line)
        if m and fname is not None and m.group(1) not in params and m.group(1) not in made:
            tags.add("callee-reassigns-global")
        m = re.match(rf"make ({IDENT})\b", line)
        if m:
            made.add(m.group(1))
        m = re.match(rf"return ({IDENT})$", line) or re.search(rf"\breturn ({IDENT}) end$", line)
        if m:
            tags.add("return-param" if m.group(1) in params else "return-var")
        elif re.search(r"\breturn\b", line):
            tags.add("return-expr")
        m = re.match(rf"({IDENT})\.push\(", line)
        if m and m.group(1) in params:
            tags.add("param-push-in-loop" if in_loop else "param-push")
        elif m:
            tags.add("push")
        if re.match(rf"{IDENT}(\[[^\]]*\])+ get ", line):
            tags.add("index-assign")
        if ".pop()" in line:
            tags.add("pop")
        # a method called on a computed temporary: a popped element / a call result / a parenthesis / a chain
        if re.search(rf"\.pop\(\)(\[[^\]]*\])*\.{IDENT}\(", line):
            tags.add("method-on-popped")
        if re.search(rf"\)\.{IDENT}\(", re.sub(r"\.pop\(\)", "", line)) and not line.startswith("do "):
            tags.add("method-on-temporary")
        if "command(" in line:
            tags.add("host-value")
        if re.search(rf"\{{{IDENT}\}}", line):
            tags.add("interpolation")
        if call:
            for c in re.finditer(rf"\b({call})\(", line):
                if line.startswith("do "):
                    break
                before = line[:c.start()].rstrip()
                # the call is an operand / element / argument next to something already evaluated
                if re.search(r"(\badd|\bna|\bpass|\bminus|\btimes|,)$", before):
                    tags.add("call-in-operand")
                if fname is not None and c.group(1) == fname:
                    tags.add("recursion")
                if in_loop:
                    tags.add("call-in-loop")
        if line in ("next", "comot"):
            tags.add(line)

    def walk(nodes, params, made, in_loop, fname):
        for n in nodes:
            line = n.line
            if line.startswith("#"):
                continue
            m = re.match(rf"do ({IDENT})\(([^)]*)\) start(.*)$", line)
            if m:
                ps = [p.strip() for p in m.group(2).split(",") if p.strip()]
                local = set()
                if n.kids is None:
                    # one-line definition: `do id(p) start return p end`
                    stmt(m.group(3).strip(), ps, local, False, m.group(1))
                else:
                    walk(n.kids, ps, local, False, m.group(1))
                continue
            if n.kids is None:
                stmt(line, params, made, in_loop, fname)
                continue
            if line.startswith("jasi"):
                tags.add("loop-in-function" if fname is not None else "loop")
                walk(n.kids, params, made, True, fname)
            else:
                walk(n.kids, params, made, in_loop, fname)
            if n.other:
                walk(n.other, params, made, in_loop, fname)

    walk(forest, [], set(), False, None)
    if "host-value" in tags and tags & {"return-var", "return-param", "return-expr"}:
        tags.add("host-return")
    return sorted(tags)


# -------------------------------------------------------------------------------------------- replay

def replay(ck, data):
    reqs = data.get("requests", [])
    inp = ("\n".join(reqs) + "\n").encode()
    impl = sh([ck.nvh(), FAMILY, "run"], inp=inp)
    il = impl.stdout.decode().splitlines()
    ml = []
    if os.path.exists(DRIVER):
        mod = sh([DRIVER, FAMILY], inp=inp)
        ml = mod.stdout.decode().splitlines()
    for r in reqs:
        if r.startswith("d "):
            print("--- program")
            print(src_of(r))
    print("--- request | implementation | model")
    for i, r in enumerate(reqs):
        shown = r if len(r) < 200 else r[:200] + "…"
        print(f"{shown} | {il[i] if i < len(il) else '?'} | {ml[i] if i < len(ml) else '?'}")
    print("--- stderr of the implementation run (STAT = hook counters, ORACLE-FAIL = the two runs differ)")
    print(impl.stderr.decode(errors="replace"))
    bad = b"ORACLE-FAIL" in impl.stderr or impl.returncode != 0 or len(il) != len(reqs) or (ml and il != ml)
    return 1 if bad else 0
