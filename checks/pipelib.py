"""Family `pipe` (lead): the COMPOSED Lean pipeline (Model/Pipeline.lean: lex → parse → resolve → limits →
analyses → run) against the real library pipeline on program TEXTS, plus the re-layout differential on
the implementation. Used by c01.py, c07.py, c09.py, c10.py, c14.py.

`nvh pipe run` answers inside a supervised worker: a text on which the implementation does not return
(hang) or kills the process (abort) is answered `stage=hang` / `stage=abort:<status>` and reported as
`ORACLE-FAIL … [C07]`; the stream continues (after 4 such cases the remaining requests are `unrun`)."""
import binascii
import os
import re
import time

from common import DRIVER, VERIF, sh

FAMILY = "pipe"
DRIVER_FAMILIES = ["Pipe"]


def text_of(req):
    w = req.split()
    try:
        return binascii.unhexlify(w[1]).decode(errors="replace") if len(w) > 1 and w[1] != "-" else ""
    except (binascii.Error, ValueError):
        return ""


def front_request(text):
    return f"front {binascii.hexlify(text.encode()).decode() or '-'}"


def corpus_requests(prop, name="front.src"):
    """`front` requests for the hand-written programs of corpus/<prop>/<name>: one program per line,
    `\\n` for a newline, lines starting with `##` are comments."""
    path = os.path.join(VERIF, "corpus", prop, name)
    if not os.path.exists(path):
        return []
    out = []
    for line in open(path, encoding="utf-8").read().split("\n"):
        if line.strip() and not line.startswith("##"):
            out.append(front_request(line.replace("\\n", "\n")))
    return out


def did_not_return(answer):
    """`stage=hang`, `stage=abort:<status>`, `stage=panic@<site>`: the front end (or, for `src`, the
    pipeline before the run) neither produced diagnostics nor a program."""
    return answer.startswith(("stage=hang", "stage=abort", "stage=panic"))


def crashes(ck):
    """[(request, implementation answer)] collected by pipe_stream over all streams of this run."""
    return getattr(ck, "pipe_crashes", [])


def verdict(answer):
    """What a `front` / `src` answer says about acceptance, without spans:
    ("accepted",) | ("semantic", (sorted error categories)) | ("syntax",) | ("noreturn", kind) | ("other", text)."""
    head = answer.split(" ", 1)[0]
    if did_not_return(answer):
        return ("noreturn", head.split("=", 1)[1].split("@")[0].split(":")[0])
    if head in ("stage=accepted", "stage=run"):
        return ("accepted",)
    if head == "stage=syntax":
        return ("syntax",)
    if head == "stage=semantic":
        m = re.search(r" diags=(\S+)", answer)
        cats = sorted({(e.split(":") + ["?", "?", "?"])[2] for e in m.group(1).split(",")}) if m and m.group(1) != "-" else []
        return ("semantic", tuple(cats))
    return ("other", answer[:80])


def pipe_stream(ck, kind, n, label=None, extra=()):
    """kind: progs | layouts | mutants | parens | static | recfns. `extra`: request lines run first
    (corpus). Returns (requests, corr result)."""
    reqs = list(extra) + ck.gen(FAMILY, ["--kind", kind, "--n", n])
    res = ck.corr(FAMILY, reqs, label=label or f"pipe-{kind}", timeout=3600,
                  model_skip=lambda a: a.startswith(("stage=hang", "stage=abort", "unrun")))
    if not hasattr(ck, "pipe_crashes"):
        ck.pipe_crashes = []
    ck.pipe_crashes.extend((r, a) for r, a in zip(reqs, res["impl_lines"]) if did_not_return(a))
    stages = {}
    for r, a in zip(reqs, res["impl_lines"]):
        key = a.split(" ", 1)[0]
        stages[key] = stages.get(key, 0) + 1
        if key in ("stage=run", "same") or (key.startswith("stage=") and len(text_of(r)) > 40):
            ck.nontrivial_case(r)
    for k, v in stages.items():
        ck.count(f"pipe_{kind}_{k}", v)
    if len(ck.samples) < 6 and reqs:
        ck.samples.append({"family": "pipe", "kind": kind, "text": text_of(reqs[0])[:400],
                           "impl_answer": res["impl_lines"][0][:300] if res["impl_lines"] else "?"})
    return reqs, res


def first_disagreement(ck):
    return next((d for d in ck.disagreements if d["family"] == FAMILY), None)


def one(ck, req):
    inp = (req + "\n").encode()
    impl = sh([ck.nvh(), FAMILY, "run"], inp=inp, timeout=300)
    mod = sh([DRIVER, FAMILY], inp=inp, timeout=300)
    il = impl.stdout.decode(errors="replace").splitlines()
    ml = mod.stdout.decode(errors="replace").splitlines()
    fails = [l for l in impl.stderr.decode(errors="replace").splitlines() if l.startswith("ORACLE-FAIL")]
    return (il[0] if il else "?"), (ml[0] if ml else "?"), fails


def shrink_text(ck, req, still, budget=150, budget_s=240):
    """Line-wise then token-wise greedy deletion of the text of a `src`/`front` request (at most `budget`
    trials per pass and `budget_s` seconds in all: a trial on a hanging input costs seconds)."""
    kind = req.split()[0]
    text = text_of(req)
    t0 = time.time()
    for sep in ("\n", " "):
        parts = text.split(sep)
        tries, chunk = 0, max(1, len(parts) // 2)
        while chunk >= 1 and tries < budget and time.time() - t0 < budget_s:
            i, changed = 0, False
            while i < len(parts) and tries < budget and time.time() - t0 < budget_s:
                cand = parts[:i] + parts[i + chunk:]
                tries += 1
                r = f"{kind} {binascii.hexlify(sep.join(cand).encode()).decode() or '-'}"
                if cand and still(r):
                    parts, changed = cand, True
                else:
                    i += chunk
            if not changed or chunk == 1:
                chunk //= 2
        text = sep.join(parts)
    return f"{kind} {binascii.hexlify(text.encode()).decode() or '-'}"


def report(ck, what):
    """A `pipe` disagreement or oracle failure as a replay dict (shrunk), or None."""
    crashed = crashes(ck)
    if crashed:
        return crash_report(ck, crashed)
    fails = [f for f in ck.oracle_fails if f.get("family") == FAMILY]
    if fails:
        f = min(fails, key=lambda x: len(x["request"]))
        req, msg = f["request"], f["what"][:500]
        if req.split()[0] == "pair":
            req = shrink_pair(ck, req)
            a, b, errs = one(ck, req)
            msg = next((l.split(" ", 2)[2] for l in errs if len(l.split(" ", 2)) == 3), msg)[:500]
            return {"kind": "impl-vs-oracle", "family": FAMILY, "what": msg, "requests": [req], "texts": texts_of(req),
                    "program": "\n----\n".join(texts_of(req)), "impl": a, "model": b, "failing_cases": len(fails)}
        return {"kind": "impl-vs-oracle", "family": FAMILY, "what": msg, "requests": [req], "texts": texts_of(req)}
    d = first_disagreement(ck)
    if d is None:
        return None
    req = d["request"]
    if req.split()[0] in ("src", "front"):
        def still(r):
            a, b, _ = one(ck, r)
            return a != b
        req = shrink_text(ck, req, still)
    a, b, _ = one(ck, req)
    return {"kind": "model-vs-impl", "family": FAMILY, "what": what, "requests": [req], "program": text_of(req),
            "impl": a, "model": b}


def texts_of(req):
    """Every hex-encoded text of a request (a `pair` has two)."""
    out = []
    for h in req.split()[1:]:
        try:
            out.append("" if h == "-" else binascii.unhexlify(h).decode(errors="replace"))
        except (binascii.Error, ValueError):
            pass
    return out


def pair_request(a, b):
    return f"pair {binascii.hexlify(a.encode()).decode() or '-'} {binascii.hexlify(b.encode()).decode() or '-'}"


def _tokens(ck, text):
    """Lexemes of a text (real lexer, through `nvh parse mkreq`), or None."""
    import parselib
    try:
        rq = parselib.mkreq(ck, [text.encode()])
    except Exception:  # noqa: BLE001
        return None
    if len(rq) != 1:
        return None
    lx = parselib.lexemes(rq[0])
    return None if lx is None else [t.decode(errors="replace") for t in lx]


def shrink_pair(ck, req, budget=160, budget_s=150):
    """Shrink a failing `pair` whose second member is the first plus redundant parentheses around single
    tokens (`gen --kind parens`, corpus/C10/pairs.src): ddmin over the tokens of the first member, the
    second member rebuilt with the same parentheses around the surviving tokens; then parentheses are
    dropped one at a time. A candidate counts only if the implementation still answers `differ` while
    the MODEL answers `same` (parentheses are redundant only where the grammar says so: the model is the
    judge of that, as in parselib.shrink_pair). Other pairs (re-layouts) are returned unchanged."""
    t0 = time.time()
    ta, tb = (texts_of(req) + ["", ""])[:2]
    a, b = _tokens(ck, ta), _tokens(ck, tb)
    if not a or not b or len(b) <= len(a):
        return req
    depth, j = [], 0
    for t in a:
        d = 0
        while j < len(b) and b[j] == "(" and t != "(":
            d, j = d + 1, j + 1
        if j >= len(b) or b[j] != t:
            return req
        j += 1
        for _ in range(d):
            if j >= len(b) or b[j] != ")":
                return req
            j += 1
        depth.append(d)
    if j != len(b):
        return req

    def build(keep, dep):
        x = " ".join(a[i] for i in keep)
        y = " ".join("( " * dep[i] + a[i] + " )" * dep[i] for i in keep)
        return pair_request(x, y)

    tries = [0]

    def fails(r):
        tries[0] += 1
        ia, ma, _ = one(ck, r)
        return ia.startswith("differ") and ma == "same"

    keep = list(range(len(a)))
    if not fails(build(keep, depth)):
        return req
    chunk = max(1, len(keep) // 2)
    while chunk >= 1 and tries[0] < budget and time.time() - t0 < budget_s:
        i, changed = 0, False
        while i < len(keep) and tries[0] < budget and time.time() - t0 < budget_s:
            cand = keep[:i] + keep[i + chunk:]
            if cand and any(depth[k] for k in cand) and fails(build(cand, depth)):
                keep, changed = cand, True
            else:
                i += chunk
        if not changed or chunk == 1:
            chunk //= 2
    dep = list(depth)
    for k in keep:
        if dep[k] and sum(1 for q in keep if dep[q]) > 1 and tries[0] < budget + 40:
            trial = list(dep)
            trial[k] = 0
            if fails(build(keep, trial)):
                dep = trial
    for k in keep:
        if dep[k] > 1:
            trial = list(dep)
            trial[k] = 1
            if fails(build(keep, trial)):
                dep = trial
    return build(keep, dep)


def crash_report(ck, crashed):
    """The shortest text on which the implementation did not return, shrunk (same kind of failure)."""
    req, ans = min(crashed, key=lambda x: len(x[0]))
    kind = verdict(ans)[1]
    if req.split()[0] in ("src", "front"):
        def still(r):
            a, _b, _ = one(ck, r)
            return verdict(a) == ("noreturn", kind)
        req = shrink_text(ck, req, still, budget=120, budget_s=150)
    a, b, fails = one(ck, req)
    what = {"hang": "the front end does not return on this text (no answer within the CPU limit of the worker)",
            "abort": "the front end kills the process on this text (abort: memory exhausted / stack overflow)",
            "panic": "the front end panics on this text"}.get(kind, "the front end did not return on this text")
    return {"kind": "impl-vs-oracle", "family": FAMILY, "what": what, "requests": [req], "program": text_of(req),
            "texts": [text_of(req)], "impl": a, "model": b, "oracle": fails[:3], "failing_cases": len(crashed)}


def replay(ck, data):
    bad = 0
    for r in data.get("requests", []):
        if r.split()[0] not in ("src", "front", "pair"):
            continue
        a, b, fails = one(ck, r)
        for t in texts_of(r):
            print(f"text: {t!r}")
        print(f"  implementation: {a}\n  model:          {b}")
        for l in fails:
            print("  " + l)
        if a != b or fails:
            bad += 1
    return 1 if bad else 0
