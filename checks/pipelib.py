"""Family `pipe` (lead): the COMPOSED Lean pipeline (Model/Pipeline.lean: lex → parse → resolve → limits →
analyses → run) against the real library pipeline on program TEXTS, plus the re-layout differential on
the implementation. Used by c01.py, c07.py, c10.py, c14.py."""
import binascii

from common import DRIVER, sh

FAMILY = "pipe"
DRIVER_FAMILIES = ["Pipe"]


def text_of(req):
    w = req.split()
    try:
        return binascii.unhexlify(w[1]).decode(errors="replace") if len(w) > 1 and w[1] != "-" else ""
    except (binascii.Error, ValueError):
        return ""


def pipe_stream(ck, kind, n, label=None):
    """kind: progs | layouts | mutants. Returns (requests, corr result)."""
    reqs = ck.gen(FAMILY, ["--kind", kind, "--n", n])
    res = ck.corr(FAMILY, reqs, label=label or f"pipe-{kind}", timeout=3600)
    stages = {}
    for r, a in zip(reqs, res["impl_lines"]):
        key = a.split(" ", 1)[0]
        stages[key] = stages.get(key, 0) + 1
        if key in ("stage=run", "same") or (key.startswith("stage=") and len(text_of(r)) > 40):
            ck.nontrivial_case(r)
    for k, v in stages.items():
        ck.count(f"pipe_{kind}_{k}", v)
    if len(ck.samples) < 6 and reqs:
        ck.samples.append({"family": "pipe", "kind": kind, "text": text_of(reqs[0])[:400],
                           "impl_answer": res["impl_lines"][0][:300] if res["impl_lines"] else "?"})
    return reqs, res


def first_disagreement(ck):
    return next((d for d in ck.disagreements if d["family"] == FAMILY), None)


def one(ck, req):
    inp = (req + "\n").encode()
    impl = sh([ck.nvh(), FAMILY, "run"], inp=inp, timeout=300)
    mod = sh([DRIVER, FAMILY], inp=inp, timeout=300)
    il = impl.stdout.decode(errors="replace").splitlines()
    ml = mod.stdout.decode(errors="replace").splitlines()
    fails = [l for l in impl.stderr.decode(errors="replace").splitlines() if l.startswith("ORACLE-FAIL")]
    return (il[0] if il else "?"), (ml[0] if ml else "?"), fails


def shrink_text(ck, req, still, budget=150):
    """Line-wise then token-wise greedy deletion of the text of a `src`/`front` request."""
    kind = req.split()[0]
    text = text_of(req)
    for sep in ("\n", " "):
        parts = text.split(sep)
        tries, chunk = 0, max(1, len(parts) // 2)
        while chunk >= 1 and tries < budget:
            i, changed = 0, False
            while i < len(parts) and tries < budget:
                cand = parts[:i] + parts[i + chunk:]
                tries += 1
                r = f"{kind} {binascii.hexlify(sep.join(cand).encode()).decode() or '-'}"
                if cand and still(r):
                    parts, changed = cand, True
                else:
                    i += chunk
            if not changed or chunk == 1:
                chunk //= 2
        text = sep.join(parts)
    return f"{kind} {binascii.hexlify(text.encode()).decode() or '-'}"


def report(ck, what):
    """A `pipe` disagreement or oracle failure as a replay dict (shrunk), or None."""
    fails = [f for f in ck.oracle_fails if f.get("family") == FAMILY]
    if fails:
        f = fails[0]
        return {"kind": "impl-vs-oracle", "family": FAMILY, "what": f["what"][:500], "requests": [f["request"]],
                "texts": [text_of(f["request"])]}
    d = first_disagreement(ck)
    if d is None:
        return None
    req = d["request"]
    if req.split()[0] in ("src", "front"):
        def still(r):
            a, b, _ = one(ck, r)
            return a != b
        req = shrink_text(ck, req, still)
    a, b, _ = one(ck, req)
    return {"kind": "model-vs-impl", "family": FAMILY, "what": what, "requests": [req], "program": text_of(req),
            "impl": a, "model": b}


def replay(ck, data):
    bad = 0
    for r in data.get("requests", []):
        if r.split()[0] not in ("src", "front", "pair"):
            continue
        a, b, fails = one(ck, r)
        print(f"text: {text_of(r)!r}\n  implementation: {a}\n  model:          {b}")
        for l in fails:
            print("  " + l)
        if a != b or fails:
            bad += 1
    return 1 if bad else 0
