"""C13 — string built-ins agree with their specification on every input (find through all four
tiers, replace, split/join, slice, len, UTF-8 well-formedness of the results).

Proof: lean/NaijaVerif/Props/C13.lean (model of tw.rs/replace.rs/string.rs/array.rs; `find = firstOcc`
for all inputs given only the memchr specification).  Tie: Gen/Strs.lean (tier threshold and tier
tests, by regex) and the correspondence stream `strs` (real built-ins in-process vs `nvdriver strs`).
Implementation-level oracle (no model): naive search / std `replace`/`split`/`chars` in the harness."""
import glob
import os

from common import Check, DRIVER, VERIF, sh

FAMILY = "strs"
THRESHOLD = 16
# a case takes microseconds; a case that needs more than 4 s is a hang (answer `timeout`, oracle failure);
# after 3 of them the harness stops executing (the rest is answered `skipped`), so a non-terminating
# `find` costs a stream at most ~12 s
RUN = ("run", "--limit-ms", "4000", "--max-timeouts", "3")


def unhex(s):
    return b"" if s == "-" else bytes.fromhex(s)


def hexs(b):
    return b.hex() if b else "-"


def tier_of(nlen):
    if nlen <= 2:
        return str(nlen)
    return "3..T" if nlen <= THRESHOLD else ">T"


def classify(ck, reqs, res):
    impl = res["impl_lines"]
    for i, r in enumerate(reqs):
        w = r.split()
        if not w:
            continue
        op = w[0]
        a = impl[i] if i < len(impl) else "?"
        ck.count("op_" + op)
        if a in ("bad-utf8", "bad-op"):
            ck.count("rejected_" + a)
            continue
        try:
            if op in ("find", "replace") and len(w) >= 3:
                h, n = unhex(w[1]), unhex(w[2])
                ck.count(f"{op}_tier_{tier_of(len(n))}")
                if op == "find":
                    ck.count("find_hit" if a.isdigit() else ("find_miss" if a == "none" else "find_" + a))
                if 1 <= len(n) <= len(h) and n[:1] in h:
                    ck.nontrivial_case(r)
                    if len(n) > THRESHOLD:
                        ck.count("long_tier_candidates_examined")
                if any(b >= 0x80 for b in h + n):
                    ck.count("multibyte_search")
            elif op == "slice" and len(w) == 4:
                if unhex(w[1]):
                    ck.nontrivial_case(r)
            elif op in ("split", "splitjoin") and len(w) == 3:
                s, p = unhex(w[1]), unhex(w[2])
                if not p or p in s:
                    ck.nontrivial_case(r)
                if not p:
                    ck.count("split_empty_separator")
        except ValueError:
            pass
    if len(ck.samples) < 4:
        for i, r in enumerate(reqs):
            w = r.split()
            if w and w[0] == "find" and len(w) == 3 and len(unhex_safe(w[2])) > THRESHOLD and i < len(impl):
                ck.samples.append({"request": r, "impl": impl[i]})
                break


def unhex_safe(s):
    try:
        return unhex(s)
    except ValueError:
        return b""


def corpus_lines():
    out = []
    for f in sorted(glob.glob(os.path.join(VERIF, "corpus", "C13", "*"))):
        for line in open(f):
            line = line.strip()
            if line and not line.startswith("#"):
                out.append(line)
    return out


def enum(ck, kind, extra=()):
    p = sh([ck.nvh(), FAMILY, "enum", "--kind", kind] + [str(x) for x in extra], timeout=1800)
    if p.returncode != 0:
        from common import MachineryError
        raise MachineryError(f"nvh strs enum --kind {kind} failed: {p.stderr.decode(errors='replace')[-500:]}")
    return p.stdout.decode().splitlines()


def run(ck: Check):
    ck.rule = ("requests to the real built-ins (find/replace/slice/len/split/join/case/trim/to_number) over small "
               "alphabets, periodic and near-periodic words, multi-byte characters, needle lengths at every tier "
               "boundary (0,1,2,3,15,16,17,18,…), special float bounds; non-trivial = a search whose needle fits the "
               "haystack and whose first byte occurs in it (a candidate is examined), a slice of a non-empty string, "
               "a split whose separator occurs or is empty; distinct by request text")
    ck.assumptions += [
        "memchr-rs `memchr(b, h, o)` returns the first index of b at or after o, else h.len() (MemchrSpec; the only "
        "assumption of find_eq_firstOcc)",
        "std str::split/chars/from_utf8/trim, char case mapping, parse::<f64>, `as isize` are modelled "
        "(Model/StrsStd.lean) and validated by the stream only",
    ]
    ck.build_harness()
    ck.gen_tables()
    ck.lean_obligations(["NaijaVerif.Props.C13"])
    # C13 imports Gen/Strs.lean only (DESIGN §3.2: a broken extractor counts for the properties that
    # import its table).  A generator that *raises* cannot be attributed to a file by common.py and is
    # charged to everybody; generators are named in the message, so keep only our own (`gen_strs`).
    foreign = [b for b in ck.broken if b.get("kind") == "extractor-broken" and "gen_strs" not in str(b.get("what"))]
    ck.broken = [b for b in ck.broken if b not in foreign]
    for b in foreign:
        ck.notes.append(f"ignored (table not imported by C13): {b.get('what')}")
    ck.build_driver(["Strs"])

    cl = corpus_lines()
    if cl:
        res = ck.corr(FAMILY, cl, label="strs-corpus", nvh_args=RUN)
        classify(ck, cl, res)

    n = 100000 if ck.tier == "quick" else 1000000
    reqs = ck.gen(FAMILY, ["--n", n])
    res = ck.corr(FAMILY, reqs, label="strs-mixed", nvh_args=RUN)
    classify(ck, reqs, res)

    nl = 40000 if ck.tier == "quick" else 500000
    ck.seed += 1000
    reqs = ck.gen(FAMILY, ["--n", nl, "--long-bias"])
    ck.seed -= 1000
    res = ck.corr(FAMILY, reqs, label="strs-long-bias", nvh_args=RUN)
    classify(ck, reqs, res)

    # bounded-exhaustive enumerations validate the tie (they are not the proof)
    if ck.tier == "quick":
        plans = [("short", ["--hmax", 10, "--nmax", 5]), ("long", ["--hmax", 32]), ("wide", [])]
    else:
        plans = [("short", ["--hmax", 13, "--nmax", 6]), ("long", ["--hmax", 40]), ("slice", []), ("wide", [])]
        # `wide --big` (65 535 … 131 073 bytes) exists in the generator but is not registered: the Lean model needs
        # minutes per request at that size (model-timeout) and the harness arena is too small for the largest
        # replace / split results; strings of 65 535 … 65 537 bytes run through corpus/wide (C01 run stream) instead
    for kind, extra in plans:
        er = enum(ck, kind, extra)
        res = ck.corr(FAMILY, er, label=f"strs-enum-{kind}", nvh_args=RUN)
        ck.extra_cov[f"enumerated_{kind}"] = len(er)
        classify(ck, er, res)

    if ck.tier == "thorough":
        ck.leanchecker(["NaijaVerif.Props.C13"])

    if ck.is_broken():
        search(ck)
    return ck.finish()


# ---------------------------------------------------------------------------- search / shrink
def oracle_of(ck, line, limit_ms=3000):
    """(impl answer, [oracle messages]) for one request line on the implementation."""
    p = sh([ck.nvh(), FAMILY, "run", "--limit-ms", str(limit_ms)], inp=(line + "\n").encode(), timeout=120)
    ans = p.stdout.decode(errors="replace").splitlines()
    msgs = [l.split(" ", 2)[2] for l in p.stderr.decode(errors="replace").splitlines() if l.startswith("ORACLE-FAIL ")]
    return (ans[0] if ans else "?"), msgs


def category(msg):
    return msg.split(":", 1)[0].strip()


def model_of(line):
    if not os.path.exists(DRIVER):
        return "?"
    p = sh([DRIVER, FAMILY], inp=(line + "\n").encode(), timeout=120)
    out = p.stdout.decode(errors="replace").splitlines()
    return out[0] if out else "?"


def split_chars(b):
    """Cut a UTF-8 byte string into characters (so that shrinking keeps the payload valid)."""
    try:
        return [c.encode() for c in b.decode()]
    except UnicodeDecodeError:
        return [bytes([x]) for x in b]


def shrink(ck, line, cat, budget=600):
    """Greedy shrinking of the payloads of one request: delete characters, then turn characters into
    'a'; a candidate is kept only if the same oracle still fails.  A non-terminating case costs its
    time limit per probe, so it gets a short limit and a small budget."""
    limit_ms = 3000
    if cat == "non-termination":
        budget, limit_ms = 150, 700
    w = line.split()
    op = w[0]
    npay = {"slice": 1}.get(op, len(w) - 1)
    pays = [split_chars(unhex_safe(x)) for x in w[1:1 + npay]]
    rest = w[1 + npay:]
    calls = [0]

    def build(ps):
        return " ".join([op] + [hexs(b"".join(p)) for p in ps] + rest)

    def fails(ps):
        if calls[0] >= budget:
            return False
        calls[0] += 1
        _a, msgs = oracle_of(ck, build(ps), limit_ms)
        return any(category(m) == cat for m in msgs)

    changed = True
    while changed and calls[0] < budget:
        changed = False
        for k in range(len(pays)):
            # chunks first (halves), then single characters
            size = max(1, len(pays[k]) // 2)
            while size >= 1:
                i = 0
                while i < len(pays[k]):
                    cand = [list(p) for p in pays]
                    del cand[k][i:i + size]
                    if fails(cand):
                        pays = cand
                        changed = True
                    else:
                        i += size
                size //= 2
        for k in range(len(pays)):
            for i in range(len(pays[k])):
                if pays[k][i] != b"a":
                    cand = [list(p) for p in pays]
                    cand[k][i] = b"a"
                    if fails(cand):
                        pays = cand
                        changed = True
    return build(pays)


def describe(line):
    w = line.split()
    d = {"op": w[0]}
    names = {"find": ["haystack", "needle"], "replace": ["haystack", "from", "to"], "slice": ["string"],
             "split": ["string", "separator"], "splitjoin": ["string", "separator"]}.get(w[0], ["string"])
    for nm, x in zip(names, w[1:]):
        b = unhex_safe(x)
        d[nm] = b.decode(errors="replace")
        d[nm + "_len"] = len(b)
    return d


def search(ck):
    """Something no longer checks: look for a concrete request on which the property itself fails on
    the implementation (oracle: naive search / std / by-hand slice; a panic or a time-out is a
    failure of "terminates and never fails")."""
    def witnesses():
        # "gave up after N time-outs" is a summary line of the harness, not a case
        return [f for f in ck.oracle_fails if "gave up after" not in f["what"] and f["request"]]

    found = witnesses()
    if not found:
        budget = 60000 if ck.tier == "quick" else 600000
        for shift, extra in ((101, ["--long-bias"]), (202, [])):
            ck.seed += shift
            reqs = ck.gen(FAMILY, ["--n", budget] + extra)
            ck.seed -= shift
            ck.corr(FAMILY, reqs, label=f"strs-search-{shift}", nvh_args=RUN)
            found = witnesses()
            if found:
                break
        if not found:
            for kind, extra in (("short", ["--hmax", 12, "--nmax", 6]), ("long", ["--hmax", 40]), ("slice", [])):
                er = enum(ck, kind, extra)
                ck.corr(FAMILY, er, label=f"strs-search-enum-{kind}", nvh_args=RUN)
                found = witnesses()
                if found:
                    break
    if found:
        # prefer a wrong answer or a panic (cheap to shrink and replay) to a time-out
        f = min(found, key=lambda x: (category(x["what"]) == "non-termination", len(x["request"])))
        cat = category(f["what"])
        line = shrink(ck, f["request"], cat)
        impl, msgs = oracle_of(ck, line)
        d = describe(line)
        long_needle = d.get("needle_len", d.get("from_len", 0)) > THRESHOLD
        ck.report_violation({
            "kind": "impl-vs-oracle", "family": FAMILY, "requests": [line], "case": d,
            "impl_answer": impl, "model_answer": model_of(line), "oracle": msgs or [f["what"]],
            "what": f"{d['op']}: {msgs[0] if msgs else f['what']}",
            "signature": {"family": FAMILY, "op": d["op"], "oracle": cat, "needle_gt_threshold": long_needle},
            "unshrunk_request": f["request"],
            "replay_cmd": "./check C13 --replay <this file>",
            "broken": ck.broken[:5], "disagreements": ck.disagreements[:3],
        })
    else:
        ck.report_violation({
            "kind": "tie-broken", "family": FAMILY,
            "what": "a proof obligation, a generated table or the model/implementation correspondence no longer "
                    "checks; no request violating the property was found",
            "broken": ck.broken[:10], "disagreements": ck.disagreements[:5],
            "requests": [d["request"] for d in ck.disagreements[:5]],
        }, no_input_found=True)


def replay(ck, data):
    reqs = data.get("requests", [])
    inp = ("\n".join(reqs) + "\n").encode()
    impl = sh([ck.nvh(), FAMILY, "run"], inp=inp)
    mod = sh([DRIVER, FAMILY], inp=inp)
    il, ml = impl.stdout.decode().splitlines(), mod.stdout.decode().splitlines()
    print("request | implementation | model")
    for i, r in enumerate(reqs):
        print(f"{r} | {il[i] if i < len(il) else '?'} | {ml[i] if i < len(ml) else '?'}")
        print("   ", describe(r))
    err = impl.stderr.decode(errors="replace")
    print(err)
    return 1 if "ORACLE-FAIL" in err or il != ml else 0
