"""C12 — string pool: exclusive ownership, conservation, class round trip, exact ownership test."""
from common import Check

STARTS = ("pool1", "set")


def stream(ck, n, maxlen=40, seed_shift=0):
    ck.seed += seed_shift
    reqs = ck.gen("pool", ["--n", n, "--maxlen", maxlen])
    ck.seed -= seed_shift
    res = ck.corr("pool", reqs, starts=STARTS)
    return reqs, res


def run(ck: Check):
    ck.rule = ("histories over one small Pool (1-8 slots) and over the real 20-class PoolSet, sizes at every "
               "class boundary; non-trivial = a history in which a released slot is handed out again or a class "
               "is exhausted; distinct by request text")
    ck.build_harness()
    ck.gen_tables()
    ck.lean_obligations(["NaijaVerif.Props.C12", "NaijaVerif.Props.C12Set"])
    ck.build_driver(["Pool"])
    n = 2000 if ck.tier == "quick" else 150000
    reqs, res = stream(ck, n)
    classify(ck, reqs, res)
    if ck.tier == "thorough":
        ck.leanchecker(["NaijaVerif.Props.C12", "NaijaVerif.Props.C12Set"])
        exhaustive(ck)
    if ck.is_broken():
        search(ck)
    return ck.finish()


def classify(ck, reqs, res):
    """Count non-trivial histories (reuse after release, exhaustion) from the implementation's answers."""
    hist, answers = [], []
    impl = res["impl_lines"]

    def close():
        if not hist:
            return
        reuse = False
        seen = set()
        for r, a in zip(hist, answers):
            if a.startswith("slot ") or a.startswith("pool "):
                key = a.rsplit(" ", 1)[0] if a.startswith("pool ") else a
                if key in seen:
                    reuse = True
                seen.add(key)
        exhausted = any(a == "none" for a in answers)
        fallback = any(a.startswith("arena") for a in answers)
        ck.count("histories")
        if reuse:
            ck.count("histories_with_slot_reuse")
        if exhausted:
            ck.count("histories_with_exhaustion")
        if fallback:
            ck.count("histories_with_fallback")
        if reuse or exhausted:
            ck.nontrivial_case("\n".join(hist))
            if len(ck.samples) < 4 and len(hist) < 25:
                ck.samples.append({"requests": list(hist), "impl_answers": list(answers)})

    for i, r in enumerate(reqs):
        if r.split(" ", 1)[0] in STARTS:
            close()
            hist, answers = [], []
        hist.append(r)
        answers.append(impl[i] if i < len(impl) else "?")
    close()


def exhaustive(ck):
    """All histories up to length 7 over {a, f<live>, s} on a 2-slot pool (validates the model tie;
    not the proof)."""
    reqs = []

    def rec(prefix, nbuf, live, depth):
        if depth == 0:
            return
        for op in ["a", "s"] + [f"f {b}" for b in live]:
            h = prefix + [op]
            reqs.append(["pool1 8 2"] + h)
            if op == "a":
                if len(live) < 2:
                    rec(h, nbuf + 1, live + [nbuf], depth - 1)
                else:
                    rec(h, nbuf, live, depth - 1)
            elif op == "s":
                pass  # stats do not change the state: no need to extend
            else:
                b = int(op.split()[1])
                rec(h, nbuf, [x for x in live if x != b], depth - 1)

    rec([], 0, [], 7)
    flat = [l for h in reqs for l in h]
    res = ck.corr("pool", flat, starts=STARTS, label="pool-exhaustive-len7")
    ck.extra_cov["exhaustive_histories_len7_2slots"] = len(reqs)
    classify(ck, flat, res)


def search(ck):
    """Something no longer checks: look for a concrete history on which the property itself fails
    (implementation-level oracle: shadow ownership, byte patterns, conservation, class round trip)."""
    found = list(ck.oracle_fails)
    # the pool's own debug assertions firing on a history the model accepts (a legal history: every release is of a
    # live buffer with its size) is a failure of the property in its own right — in a release build the same
    # history corrupts silently (seed C12-d1: "free-list slot was not properly poisoned")
    panics = [d for d in ck.disagreements if d["impl"].startswith("panic") and not d["model"].startswith(("bad", "panic"))]
    if not found and panics:
        f = min(panics, key=lambda x: len(x["history"]))
        ck.report_violation({"kind": "impl-vs-oracle", "family": "pool",
                             "what": "the pool panics on a legal history (its own assertion; the model answers "
                                     + f["model"][:80] + ")", "requests": f["history"],
                             "replay_cmd": "./check C12 --replay <this file>",
                             "broken": ck.broken[:5], "disagreements": ck.disagreements[:3]})
        return
    if not found:
        budget = 20000 if ck.tier == "quick" else 300000
        for shift in (101, 202):
            reqs, res = stream(ck, budget, maxlen=60, seed_shift=shift)
            if ck.oracle_fails:
                found = list(ck.oracle_fails)
                break
    if found:
        f = min(found, key=lambda x: len(x["history"]))
        hist = shrink(ck, f["history"], f["what"])
        ck.report_violation({"kind": "impl-vs-oracle", "family": "pool", "what": f["what"], "requests": hist,
                             "replay_cmd": "./check C12 --replay <this file>",
                             "broken": ck.broken[:5], "disagreements": ck.disagreements[:3]})
    else:
        ck.report_violation({"kind": "tie-broken", "family": "pool",
                             "what": "proof obligation or model/implementation correspondence no longer checks; "
                                     "no history violating the property was found",
                             "broken": ck.broken[:10], "disagreements": ck.disagreements[:5],
                             "requests": (ck.disagreements[0]["history"] if ck.disagreements else [])},
                            no_input_found=True)


def shrink(ck, hist, what):
    """ddmin over the op lines (keeping the history header); a candidate is kept if the oracle still
    fails. Buffer numbers are positional, so removing an alloc renumbers later frees: we only try
    removing lines whose removal keeps all buffer references valid (stats/contains lines, and
    trailing suffixes)."""
    import subprocess
    from common import sh

    def fails(h):
        p = sh([ck.nvh(), "pool", "run"], inp=("\n".join(h) + "\n").encode())
        return b"ORACLE-FAIL" in p.stderr

    best = list(hist)
    # drop observation lines
    for i in range(len(best) - 1, 0, -1):
        if best[i].split()[0] in ("s", "S", "c", "C", "K"):
            cand = best[:i] + best[i + 1:]
            if fails(cand):
                best = cand
    return best


def replay(ck, data):
    from common import sh, DRIVER
    reqs = data.get("requests", [])
    inp = ("\n".join(reqs) + "\n").encode()
    impl = sh([ck.nvh(), "pool", "run"], inp=inp)
    mod = sh([DRIVER, "pool"], inp=inp)
    print("request | implementation | model")
    il, ml = impl.stdout.decode().splitlines(), mod.stdout.decode().splitlines()
    for i, r in enumerate(reqs):
        print(f"{r} | {il[i] if i < len(il) else '?'} | {ml[i] if i < len(ml) else '?'}")
    print(impl.stderr.decode())
    return 1 if b"ORACLE-FAIL" in impl.stderr or il != ml else 0
