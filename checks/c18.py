"""C18 — exceeding an analysis budget only disables optimisation, never correctness.

Streams (family `limits`, see harness/src/limits.rs):
  lim   synthetic facts/counts through the real `first_exceeded_limit` (every stage, every boundary,
        u32/u64 extremes, saturation of the liveness bound)
  prog  random small programs through the real front end, `count_program` and `first_exceeded_limit`
        with caps chosen around the observed values; the model recounts from the annotated AST
  e2e   programs sized just below / at / just above each DEFAULT cap through the real pipeline
        (hard-wired DEFAULT_CAPS) and the run afterwards

Boundary programs (all start with `make x get 0  make canary get 7` — `canary` is never read, so
below the limits it earns an "Unused variable" warning and its declaration is pruned; above them
neither may happen — and end with `shout(x)`):
  locals      62 functions with ~2114 parameters each (parameters are locals that cost no statement,
              so the liveness bound stays small)
  scopes      `start end` blocks
  statements  `x get x add 1` (output = the number of padding statements)
  fnblocks    one function with `if to say (true) start end` (3 blocks each) and return / dead-tail
              pairs (1 block each) to hit the block count exactly
  calls       `x get x add one() add one() …` 16 calls per statement
  summary     64 functions, locals chosen so that f·(f+2l+2) = 2^24 exactly (at), ±1 local
  summaryf    4093 / 4094 functions with 2 locals: the last size below and the first above 2^24
  liveness    4096 root locals, ops chosen so that (2·2+ops)·4096 = 2^25 exactly (at), ±1 statement
  functions   16383 / 16384 / 16385 empty functions: all three trip (summary events below the cap,
              `functions` above it — stage order)
Not reachable first at the default caps (proved / argued in Props/C18.lean): cfg ops and ops in one
function (statements has the same cap and comes first), cfg blocks (≤ 2 + 2·scopes + statements).
"""
import json
import os

from common import Check, DRIVER, VERIF, sh

U32 = 4294967295
U64 = 18446744073709551615
METRICS = ["functions", "locals", "scopes", "statements", "cfg_ops", "ops_in_one_function", "cfg_blocks",
           "blocks_in_one_function", "direct_user_calls", "summary_events", "liveness_events"]

# case -> metric expected to trip one above the cap
E2E_METRIC = {"locals": "locals", "scopes": "scopes", "statements": "statements",
              "fnblocks": "blocks_in_one_function", "calls": "direct_user_calls", "summary": "summary_events",
              "summaryf": "summary_events", "liveness": "liveness_events", "functions": "functions"}
# C18: the limit logic and the pipeline decision; C18Run: the run part against the evaluator models
MODULES = ["NaijaVerif.Props.C18", "NaijaVerif.Props.C18Run"]
QUICK_E2E = ["liveness", "summaryf", "summary", "fnblocks", "locals", "statements"]
SLOW_E2E = ["scopes", "functions"]        # seconds each (quadratic scans in the resolver / model)
RELEASE_E2E = ["calls"]                   # ~20 s per program even in release (record_user_call is quadratic)


def deltas(case):
    return [0, 1] if case == "summaryf" else [-1, 0, 1]


def run(ck: Check):
    ck.rule = ("lim: synthetic counts with caps at observed-1/observed/observed+1 per stage; prog: random programs "
               "(functions, loops, dead tails, nested definitions, a few resolver-error programs) with caps around "
               "the observed values; e2e: one program per reachable DEFAULT cap at cap-1 / cap / cap+1. "
               "non-trivial = the deciding stage sits within 1 of its cap, or a later stage is above its cap as well "
               "(so the stage order matters); distinct by request text")
    ck.build_harness()
    ck.gen_tables()
    ck.lean_obligations(MODULES)
    ck.build_driver(["Limits"])
    corpus(ck)
    chunks = [(0, 4000)] if ck.tier == "quick" else [(7000 * k, 20000) for k in range(5)]
    for shift, n in chunks:
        ck.seed += shift
        reqs = ck.gen("limits", ["--n", n, "--lim", n])
        ck.seed -= shift
        res = ck.corr("limits", reqs, label=f"limits-random-{shift}" if shift else "limits-random")
        classify(ck, reqs, res)
        del reqs, res
    e2e(ck, QUICK_E2E, "debug")
    if ck.tier == "thorough":
        e2e(ck, SLOW_E2E, "debug")
        ck.build_harness("release")
        e2e(ck, RELEASE_E2E, "release")
        exhaustive(ck)
        ck.leanchecker(MODULES)
    if ck.is_broken():
        search(ck)
    return ck.finish()


# ------------------------------------------------------------------------------------------- corpus
def mk_lines(ck, items):
    """[(caps, src)] -> prog request lines through the real front end (`nvh limits mk`)."""
    inp = "".join(" ".join(map(str, caps)) + " " + (src.encode().hex() or "-") + "\n" for caps, src in items)
    p = sh([ck.nvh(), "limits", "mk"], inp=inp.encode(), timeout=1800)
    lines = p.stdout.decode().splitlines()
    return lines if len(lines) == len(items) else ["invalid mk died"] * len(items)


def corpus(ck):
    d = os.path.join(VERIF, "corpus", "C18")
    reqs = []
    for fn in sorted(os.listdir(d)):
        path = os.path.join(d, fn)
        if fn.endswith(".txt"):
            reqs += [l for l in open(path).read().splitlines() if l and not l.startswith("#")]
        elif fn.endswith(".jsonl"):
            items = [json.loads(l) for l in open(path) if l.strip()]
            lines = mk_lines(ck, [(it["caps"], it["src"]) for it in items])
            for it, l in zip(items, lines):
                if l.startswith("prog ") or l.startswith("crash "):
                    reqs.append(l)
                else:
                    # a corpus program the front end no longer accepts is a broken tie, not a crash
                    ck.broken.append({"kind": "corpus-program-rejected", "what": l[:200], "src": it["src"]})
    res = ck.corr("limits", reqs, label="limits-corpus")
    classify(ck, reqs, res)
    ck.count("corpus_requests", len(reqs))


# ------------------------------------------------------------------------------------ classification
def observed_of(req, ans):
    """(caps, observed) of a lim / prog request from the implementation's answer, recomputed naively."""
    w = req.split(" ", 21)
    kind = w[0]
    try:
        if kind == "lim":
            caps = list(map(int, w[1:12]))
            f, l, sc, st, tops, tblocks, calls, k = map(int, w[12:20])
            per = [tuple(map(int, t.split(":"))) for t in req.split(" ")[20:20 + k]]
        elif kind == "prog":
            caps = list(map(int, w[1:12]))
            head, per_s = ans.split(" ")[0][len("counts="):].split(";")
            f, l, sc, st, tops, tblocks, calls = map(int, head.split(","))
            per = [] if per_s == "-" else [tuple(map(int, t.split(":"))) for t in per_s.split(",")]
        else:
            return None
    except (ValueError, IndexError):
        return None
    live = min(sum(min((2 * b + o) * n, U64) for b, o, n in per), U64)
    obs = [f, l, sc, st, tops, max([o for _, o, _ in per], default=0), tblocks,
           max([b for b, _, _ in per], default=0), calls, min(f * (f + 2 * l + 2), U64), live]
    return caps, obs


def classify(ck, reqs, res):
    impl = res["impl_lines"]
    for i, r in enumerate(reqs):
        a = impl[i] if i < len(impl) else "?"
        kind = r.split(" ", 1)[0]
        ck.count(f"requests_{kind}")
        lim = a.split("limit=")[1].split(" ")[0] if "limit=" in a else a
        metric = lim.split(":")[0]
        ck.count(f"answer_{metric}")
        co = observed_of(r, a)
        if co is None:
            continue
        caps, obs = co
        above = [j for j in range(11) if obs[j] > caps[j]]
        naive = "none" if not above else f"{METRICS[above[0]]}:{obs[above[0]]}:{caps[above[0]]}"
        if naive != lim:
            # third opinion (python): reported through the harness oracle as well; keep the count
            ck.count("python_naive_differs")
        decide = above[0] if above else None
        boundary = any(abs(obs[j] - caps[j]) <= 1 for j in ([decide] if decide is not None else range(11)))
        if boundary:
            ck.count("boundary_cases")
        if len(above) > 1:
            ck.count("order_matters_cases")
        if boundary or len(above) > 1:
            ck.nontrivial_case(r[:4000])
            if len(ck.samples) < 5 and len(r) < 600:
                ck.samples.append({"request": r, "impl_answer": a})
    for l in res["stderr"]:
        if l.startswith("RUN "):
            ck.count("programs_run_with_and_without_plan")
            if "tripped=1" in l:
                ck.count("programs_run_where_these_caps_trip")
            if not l.endswith("pruned=0"):
                ck.count("programs_run_whose_plan_prunes_something")
        elif l.startswith("GEN-STATS"):
            pass


# --------------------------------------------------------------------------------------------- e2e
def e2e_requests(ck, case, delta, profile):
    p = sh([ck.nvh(profile), "limits", "gen-e2e", "--case", f"{case}:{delta}"], timeout=3600)
    if p.returncode != 0:
        ck.broken.append({"kind": "e2e-generator-failed", "case": f"{case}:{delta}",
                          "what": p.stderr.decode(errors="replace")[-400:]})
        return None
    return p.stdout.decode().splitlines()


def e2e(ck, cases, profile):
    for case in cases:
        for delta in deltas(case):
            name = f"{case}:{delta}"
            reqs = e2e_requests(ck, case, delta, profile)
            if not reqs:
                continue
            nd, nf = len(ck.disagreements), len(ck.oracle_fails)
            res = ck.corr("limits", reqs, profile=profile, label=f"limits-e2e-{name}", timeout=(600 if ck.tier == "quick" else 3600))
            # never keep megabytes of request text in the evidence / replay files
            for d in ck.disagreements[nd:] + ck.oracle_fails[nf:]:
                d["request"] = f"e2e-case {name}"
                d["history"] = [f"e2e-case {name}"]
                d["e2e_case"] = name
            ck.count("e2e_programs")
            impl = (res["impl_lines"] or ["?"])[0]
            model = (res["model_lines"] or ["?"])[0]
            side = [l for l in res["stderr"] if l.startswith("E2E ")]
            info = dict(kv.split("=", 1) for kv in side[0].split(" ")[2:]) if side else {}
            lim = impl.split("limit=")[1].split(" ")[0] if "limit=" in impl else "?"
            tripped = lim != "none"
            ck.count(f"e2e_{'tripped' if tripped else 'within'}")
            ck.nontrivial_case(f"e2e {name}")
            ck.extra_cov.setdefault("e2e", {})[name] = {
                "limit": lim, "warn_plan": impl.split(" limit=")[1].split(" ", 1)[1] if " limit=" in impl and " warn=" in impl else "?",
                "pass_warnings": info.get("other"), "pruned": info.get("pruned"), "output": _unhex(info.get("out")),
                "profile": profile}
            what = None
            if info and tripped and (info.get("other") != "0" or info.get("pruned") != "0"):
                what = "above the cap but pass warnings / pruning present"
            elif info and not tripped and (info.get("other") == "0" or info.get("pruned") == "0"):
                what = ("within every cap but the analyses did not run as usual (the never-read `canary` earned no "
                        "warning / was not pruned)")
            if what:
                ck.oracle_fails.append({"family": "limits", "line": 1, "request": f"e2e-case {name}", "what": what,
                                        "history": [f"e2e-case {name}"], "e2e_case": name})
            # generator drift is a note, never an alarm: the model says where the boundary is
            want = E2E_METRIC[case]
            mlim = model.split("limit=")[1].split(" ")[0] if "limit=" in model else "?"
            if case != "functions" and ((delta == 1) != mlim.startswith(want + ":") or (delta <= 0 and mlim != "none")):
                ck.notes.append(f"e2e {name}: the program does not sit on the {want} boundary any more (model: {mlim})")


def _unhex(s):
    if not s or s == "-":
        return ""
    try:
        return bytes.fromhex(s).decode(errors="replace")[:60]
    except ValueError:
        return s[:60]


# -------------------------------------------------------------------------------------- exhaustive
def exhaustive(ck):
    """Every function body of <= 3 statements over 38 statement forms (simple, return, if / if-else /
    loop / block with every body of <= 2 simple-or-terminator statements): validates the counting
    model's tie on all small shapes (not the proof)."""
    asg, ret = "x get 1\n", "return 1\n"
    simple = [asg, ret]
    seq2 = lambda al: [""] + al + [a + b for a in al for b in al]
    B = seq2(simple)
    B1 = [""] + simple
    BL = seq2([asg, "comot\n", "next\n"])
    forms = list(simple)
    forms += [f"if to say (c) start\n{b}end\n" for b in B]
    forms += [f"if to say (c) start\n{a}end\nif not so start\n{b}end\n" for a in B1 for b in B1]
    forms += [f"jasi (c) start\n{b}end\n" for b in BL]
    forms += [f"start\n{b}end\n" for b in B]
    bodies = [""] + forms + [a + b for a in forms for b in forms] + [a + b + c for a in forms for b in forms for c in forms]
    caps = [U32] * 9 + [U64] * 2
    items = [(caps, f"make c get false\nmake x get 0\ndo f() start\n{b}end\n") for b in bodies]
    reqs = []
    for i in range(0, len(items), 5000):
        reqs += [l for l in mk_lines(ck, items[i:i + 5000]) if l.startswith(("prog ", "crash "))]
    if len(reqs) != len(items):
        ck.broken.append({"kind": "exhaustive-generator", "what": f"{len(items) - len(reqs)} enumerated programs rejected"})
    res = ck.corr("limits", reqs, label="limits-exhaustive-bodies-le3")
    ck.extra_cov["exhaustive_function_bodies_le3_over_%d_forms" % len(forms)] = len(reqs)
    classify(ck, reqs, res)


# ------------------------------------------------------------------------------------------ search
def fails_oracle(ck, lines, profile="debug"):
    p = sh([ck.nvh(profile), "limits", "run"], inp=("\n".join(lines) + "\n").encode(), timeout=3600)
    return [l for l in p.stderr.decode(errors="replace").splitlines() if l.startswith("ORACLE-FAIL")]


def search(ck):
    """Something no longer checks.  Look for a concrete program + caps on which the property itself
    fails on the implementation: the staged answer differs from the first metric (documented stage
    order) above its cap computed naively from the real counts, or limit/plan/warnings disagree, or
    an over-limit run differs from the run with the plan."""
    found = list(ck.oracle_fails)
    if not found:
        budget = 6000 if ck.tier == "quick" else 60000
        for shift in (1001, 2002, 3003):
            ck.seed += shift
            reqs = ck.gen("limits", ["--n", budget, "--lim", budget])
            ck.seed -= shift
            nd = len(ck.disagreements)
            ck.corr("limits", reqs, label=f"limits-search-{shift}")
            del ck.disagreements[nd + 5:]
            if ck.oracle_fails:
                found = list(ck.oracle_fails)
                break
    if found:
        f = min(found, key=lambda x: ("e2e_case" in x, len(x["request"])))   # a small program if there is one
        req, what = f["request"], f["what"]
        replay = {"kind": "impl-vs-oracle", "family": "limits", "what": what,
                  "replay_cmd": "./check C18 --replay <this file>", "broken": ck.broken[:5],
                  "disagreements": [_slim(d) for d in ck.disagreements[:3]]}
        if "e2e_case" in f:
            replay["e2e_cases"] = [f["e2e_case"]]
        else:
            req = shrink(ck, req, what)
            replay["requests"] = [req]
            replay["program"] = _program_of(req)
        ck.report_violation(replay)
    else:
        ck.report_violation({"kind": "tie-broken", "family": "limits",
                             "what": "a proof obligation, a generated table or the model/implementation "
                                     "correspondence no longer checks; no program on which the property fails "
                                     "was found",
                             "broken": ck.broken[:10], "disagreements": [_slim(d) for d in ck.disagreements[:5]],
                             "requests": [d["request"] for d in ck.disagreements[:3] if "e2e_case" not in d],
                             "e2e_cases": [d["e2e_case"] for d in ck.disagreements[:3] if "e2e_case" in d]},
                            no_input_found=True)


def _slim(d):
    d = dict(d)
    d["request"] = d["request"][:3000]
    d["history"] = [h[:3000] for h in d.get("history", [])]
    return d


def _program_of(req):
    w = req.split(" ")
    if w[0] == "crash" and len(w) == 2:
        try:
            return bytes.fromhex(w[1]).decode(errors="replace")
        except ValueError:
            return None
    if w[0] == "prog" and len(w) > 13:
        try:
            return bytes.fromhex(w[13]).decode(errors="replace")
        except ValueError:
            return None
    return None


def shrink(ck, req, what):
    """prog: delete source lines (greedy, block sizes 8/4/2/1) while the same oracle still fails;
    lim: switch off caps / zero counts while it still fails."""
    key = what.split(" ")[0:3]

    def still(line):
        return any(l.split(" ", 2)[2].split(" ")[0:3] == key for l in fails_oracle(ck, [line]))

    w = req.split(" ")
    if w[0] == "prog":
        caps = w[1:12]
        try:
            lines = bytes.fromhex(w[13]).decode().split("\n")
        except ValueError:
            return req
        best = req
        for size in (8, 4, 2, 1):
            i = 0
            while i < len(lines):
                cand = lines[:i] + lines[i + size:]
                made = mk_lines(ck, [(caps, "\n".join(cand))])[0]
                if made.startswith("prog ") and still(made):
                    lines, best = cand, made
                else:
                    i += 1
        return best
    if w[0] == "lim":
        best = w
        for j in range(1, 12):
            cand = list(best)
            cand[j] = str(U32 if j <= 9 else U64)
            if still(" ".join(cand)):
                best = cand
        return " ".join(best)
    return req


# ------------------------------------------------------------------------------------------ replay
def replay(ck, data):
    reqs = list(data.get("requests", []))
    for case in data.get("e2e_cases", []):
        c, d = case.split(":")
        reqs += e2e_requests(ck, c, int(d), "debug") or []
    if not reqs:
        print("nothing to replay: the file names broken obligations only")
        print(json.dumps(data.get("broken", []), indent=1))
        return 1
    inp = ("\n".join(reqs) + "\n").encode()
    impl = sh([ck.nvh(), "limits", "run"], inp=inp, timeout=3600)
    mod = sh([DRIVER, "limits"], inp=inp, timeout=3600)
    il, ml = impl.stdout.decode().splitlines(), mod.stdout.decode().splitlines()
    print("request | implementation | model")
    for i, r in enumerate(reqs):
        print(f"{r[:300]} | {(il[i] if i < len(il) else '?')[:300]} | {(ml[i] if i < len(ml) else '?')[:300]}")
        src = _program_of(r)
        if src and len(src) < 4000:
            print("--- program ---\n" + src + "---------------")
    err = impl.stderr.decode(errors="replace")
    print(err[-3000:])
    return 1 if "ORACLE-FAIL" in err or il != ml else 0
