"""C18 — exceeding an analysis budget only disables optimisation, never correctness.

Streams (family `limits`, see harness/src/limits.rs):
  lim   synthetic facts/counts through the real `first_exceeded_limit` (every stage, every boundary,
        u32/u64 extremes, saturation of the liveness bound)
  prog  random small programs through the real front end, `count_program` and `first_exceeded_limit`
        with caps chosen around the observed values; the model recounts from the annotated AST
  e2e   programs sized just below / at / just above each DEFAULT cap through the real pipeline
        (hard-wired DEFAULT_CAPS) and the run afterwards

Boundary programs (all start with `make x get 0  make canary get 7` — `canary` is never read, so
below the limits it earns an "Unused variable" warning and its declaration is pruned; above them
neither may happen — and end with `shout(x)`):
  locals      62 functions with ~2114 parameters each (parameters are locals that cost no statement,
              so the liveness bound stays small)
  scopes      `start end` blocks
  statements  `x get x add 1` (output = the number of padding statements)
  fnblocks    one function with `if to say (true) start end` (3 blocks each) and return / dead-tail
              pairs (1 block each) to hit the block count exactly
  calls       `x get x add one() add one() …` 16 calls per statement
  summary     64 functions, locals chosen so that f·(f+2l+2) = 2^24 exactly (at), ±1 local
  summaryf    4093 / 4094 functions with 2 locals: the last size below and the first above 2^24
  liveness    4096 root locals, ops chosen so that (2·2+ops)·4096 = 2^25 exactly (at), ±1 statement
  functions   16383 / 16384 / 16385 empty functions: all three trip (summary events below the cap,
              `functions` above it — stage order)
Not reachable first at the default caps (proved / argued in Props/C18.lean): cfg ops and ops in one
function (statements has the same cap and comes first), cfg blocks (≤ 2 + 2·scopes + statements).

  scc   below-limit programs whose call graph has a LARGE strongly connected component (rings and
        denser cycles of 50-1000 mutually recursive functions, optionally a second side-effect-free
        component, optionally reaching every independent function) next to many independent /
        acyclically calling functions, sized from 1 % of the summary-event cap up to the last size
        below it (and the first above), or sitting on a second cap (statements, blocks of one
        function, liveness events, locals, scopes).  Each carries a *payload* whose analysis results
        depend on the component's summaries (dead stores separated from their overwrite only by a
        call into the component, directly / through a caller / through a caller of a caller; an
        unused variable in a function that calls it; an unused result of a call into the
        side-effect-free component; random payloads) and a *twin*: the same payload around a
        component of 3.  Metamorphic oracle (harness): while the Lean limit model says no cap is
        exceeded, the payload's warnings (message, label, span relative to the payload), the pruned
        statements / definitions of the payload, the warnings and prunings outside it (as a
        multiset / count) and the payload's output are those of the twin - the size of a component
        must not matter below the limits; exactly one resource-limit warning, no pass warning and
        no plan iff the model says a cap is exceeded (correspondence of the answer line).

  summ  the interprocedural summary fixpoint itself: `summ <budget> <f> <l> <direct facts>` requests
        answered by the REAL `compute_summaries_with_max_events` (on synthetic facts holding exactly
        these direct facts) and by the model (`Summary.compute`: its own transcription of the
        scheduling + `runGlobal`), compared per function (available, sorted transitive callees /
        reads / writes, transitive class, body class).  Direct facts: random call graphs (sparse,
        dense, complete, rings, chains of rings, shared rings, long chains into a ring, self calls,
        disconnected parts, acyclic) with random captures and statement classes, and the real
        resolver's facts of random programs with mutual recursion, captures and nested functions; a
        few malformed ones (duplicates, callee out of range -> both sides `panic`).  Budgets per
        program: the preflight bound f*(f+2l+2), bound-1, the least budget that suffices, one less,
        half, two random smaller ones (run out mid-component), 0.  Oracles (harness): budget >= bound
        and well-formed facts => every summary available (the theorem `summary_budget_suffices` on
        the implementation); an available summary equals the one of the unlimited run.
"""
import json
import os

import c18cli

from common import Check, DRIVER, VERIF, sh

U32 = 4294967295
U64 = 18446744073709551615
METRICS = ["functions", "locals", "scopes", "statements", "cfg_ops", "ops_in_one_function", "cfg_blocks",
           "blocks_in_one_function", "direct_user_calls", "summary_events", "liveness_events"]

# case -> metric expected to trip one above the cap
E2E_METRIC = {"locals": "locals", "scopes": "scopes", "statements": "statements",
              "fnblocks": "blocks_in_one_function", "calls": "direct_user_calls", "summary": "summary_events",
              "summaryf": "summary_events", "liveness": "liveness_events", "functions": "functions"}
# C18: the limit logic and the pipeline decision; C18Run: the run part against the evaluator models
MODULES = ["NaijaVerif.Props.C18", "NaijaVerif.Props.C18Run"]
QUICK_E2E = ["liveness", "summaryf", "summary", "fnblocks", "locals", "statements"]
SLOW_E2E = ["scopes", "functions"]        # seconds each (quadratic scans in the resolver / model)
RELEASE_E2E = ["calls"]                   # ~20 s per program even in release (record_user_call is quadratic)

# scc specs (harness/src/limits.rs `Scc`): k component size, kp side-effect-free component, d edge
# shape (1 ring, 2 +chord, 3 both directions+chord, 4 eight successors, 5 backward ring), hub: the
# component reaches every independent function, cap: captures, s independent functions (0 = as many
# as fit), frac: summary-event target in ppm of the cap (parameters of a never-called function fill
# up), dl: +locals, pay: payload variant, pad/pd: second cap and offset from it
QUICK_SCC = [
    "scc/k=300/d=3/s=50/frac=10000/pay=3",                       # 1 % of the summary-event cap
    "scc/k=1000/d=5/s=40/pay=2",                                 # ring of 1000, 6 %
    "scc/k=200/kp=50/d=2/hub=1/cap=1/s=300/frac=250000/pay=1",   # 25 %, component reaches everything
    "scc/k=500/kp=120/d=3/s=900/frac=500000/pay=5",              # 50 %
    "scc/k=100/d=5/hub=1/cap=1/s=1000/frac=1000000/pay=6",       # last size below the cap, captures, reaches everything
    "scc/k=100/d=1/s=0/frac=1000000/dl=1",                       # first size above the summary-event cap
    "scc/k=60/d=2/s=30/frac=1000000/pay=4",                      # few functions, 88 000 locals, just below
    "scc/k=150/d=4/s=500/pad=fnblocks", "scc/k=150/d=4/s=500/pad=fnblocks/pd=1",
    "scc/k=150/kp=60/d=1/s=500/pad=liveness", "scc/k=150/kp=60/d=1/s=500/pad=liveness/pd=1",
    "scc/k=50/d=2/s=4/pad=locals", "scc/k=50/d=2/s=4/pad=locals/pd=1",
    "scc/k=150/d=1/s=500/pad=statements",
]
QUICK_SCC_RANDOM = 4
QUICK_SUMM = (400, 40)                    # programs, largest function count
THOROUGH_SUMM = (6000, 90)
THOROUGH_SCC = (
    [f"scc/k={k}/d={d}/s={s}/frac={frac}/pay={100 + d}"
     for frac in (10000, 50000, 250000, 500000, 900000, 1000000)
     for d, k, s in ((1, 120, 0), (2, 300, 0), (3, 700, 0), (4, 200, 0), (5, 1000, 0))
     if not (frac == 10000 and k > 300) and not (frac <= 50000 and k > 700)]
    + [f"scc/k=250/kp=250/d={d}/hub={int(d in (2, 3, 5))}/cap=1/s={800 if d in (2, 3, 5) else 0}/frac=1000000/dl={dl}/pay={200 + d}"
       for d in (1, 2, 3, 4, 5) for dl in (0, 1)]
    + [f"scc/k=200/d=3/s=400/pad={pad}/pd={pd}/pay=7" for pad in ("statements", "scopes", "fnblocks", "liveness") for pd in (-1, 0, 1)]
    + [f"scc/k=52/d=5/s=4/pad=locals/pd={pd}/pay=8" for pd in (-1, 0, 1)]
)
THOROUGH_SCC_RANDOM = 40


def deltas(case):
    return [0, 1] if case == "summaryf" else [-1, 0, 1]


def run(ck: Check):
    ck.rule = ("lim: synthetic counts with caps at observed-1/observed/observed+1 per stage; prog: random programs "
               "(functions, loops, dead tails, nested definitions, a few resolver-error programs) with caps around "
               "the observed values; e2e: one program per reachable DEFAULT cap at cap-1 / cap / cap+1; scc: programs "
               "with a strongly connected call-graph component of 50-1000 functions next to independent functions, at "
               "1 %-100 % of the summary-event cap and on second caps, compared with their ring-of-3 twins; summ: the "
               "summary fixpoint on random call graphs / resolver facts with event budgets from the preflight bound "
               "down to 0 (non-trivial = the budget runs out, or it is within 1 of the bound / of the least "
               "sufficient budget). "
               "non-trivial = the deciding stage sits within 1 of its cap, or a later stage is above its cap as well "
               "(so the stage order matters); distinct by request text")
    ck.build_harness()
    ck.gen_tables()
    ck.lean_obligations(MODULES)
    ck.build_driver(["Limits"])
    corpus(ck)
    chunks = [(0, 4000)] if ck.tier == "quick" else [(7000 * k, 20000) for k in range(5)]
    for shift, n in chunks:
        ck.seed += shift
        reqs = ck.gen("limits", ["--n", n, "--lim", n])
        ck.seed -= shift
        res = ck.corr("limits", reqs, label=f"limits-random-{shift}" if shift else "limits-random")
        classify(ck, reqs, res)
        del reqs, res
    summ(ck, *QUICK_SUMM, with_corpus=True)
    e2e(ck, QUICK_E2E, "debug")
    # the shipped binary (fixed scratch arenas) around the statement limit: D-20 witness family
    c18cli.run(ck, names=("incr", "bind") if ck.tier == "quick" else tuple(c18cli.FILLERS))
    if ck.tier == "thorough":
        # the release build wraps where the debug build traps: the far-above-the-limit programs on both
        c18cli.run(ck, names=(), profile="release")
    scc(ck, corpus_scc() + QUICK_SCC, QUICK_SCC_RANDOM, label="limits-scc")
    if ck.tier == "thorough":
        ck.seed += 77
        summ(ck, *THOROUGH_SUMM, label="limits-summ-thorough")
        ck.seed -= 77
        scc(ck, THOROUGH_SCC, THOROUGH_SCC_RANDOM, big=True, label="limits-scc-thorough")
        e2e(ck, SLOW_E2E, "debug")
        ck.build_harness("release")
        e2e(ck, RELEASE_E2E, "release")
        exhaustive(ck)
        ck.leanchecker(MODULES)
    if ck.is_broken():
        search(ck)
    return ck.finish()


# ------------------------------------------------------------------------------------------- corpus
def mk_lines(ck, items):
    """[(caps, src)] -> prog request lines through the real front end (`nvh limits mk`)."""
    inp = "".join(" ".join(map(str, caps)) + " " + (src.encode().hex() or "-") + "\n" for caps, src in items)
    p = sh([ck.nvh(), "limits", "mk"], inp=inp.encode(), timeout=1800)
    lines = p.stdout.decode().splitlines()
    return lines if len(lines) == len(items) else ["invalid mk died"] * len(items)


def corpus(ck):
    d = os.path.join(VERIF, "corpus", "C18")
    reqs = []
    for fn in sorted(os.listdir(d)):
        path = os.path.join(d, fn)
        if fn.endswith(".txt"):
            reqs += [l for l in open(path).read().splitlines() if l and not l.startswith("#")]
        elif fn.endswith(".jsonl"):
            items = [json.loads(l) for l in open(path) if l.strip()]
            lines = mk_lines(ck, [(it["caps"], it["src"]) for it in items])
            for it, l in zip(items, lines):
                if l.startswith("prog ") or l.startswith("crash "):
                    reqs.append(l)
                else:
                    # a corpus program the front end no longer accepts is a broken tie, not a crash
                    ck.broken.append({"kind": "corpus-program-rejected", "what": l[:200], "src": it["src"]})
    res = ck.corr("limits", reqs, label="limits-corpus")
    classify(ck, reqs, res)
    ck.count("corpus_requests", len(reqs))


# ------------------------------------------------------------------------------------ classification
def observed_of(req, ans):
    """(caps, observed) of a lim / prog request from the implementation's answer, recomputed naively."""
    w = req.split(" ", 21)
    kind = w[0]
    try:
        if kind == "lim":
            caps = list(map(int, w[1:12]))
            f, l, sc, st, tops, tblocks, calls, k = map(int, w[12:20])
            per = [tuple(map(int, t.split(":"))) for t in req.split(" ")[20:20 + k]]
        elif kind == "prog":
            caps = list(map(int, w[1:12]))
            head, per_s = ans.split(" ")[0][len("counts="):].split(";")
            f, l, sc, st, tops, tblocks, calls = map(int, head.split(","))
            per = [] if per_s == "-" else [tuple(map(int, t.split(":"))) for t in per_s.split(",")]
        else:
            return None
    except (ValueError, IndexError):
        return None
    live = min(sum(min((2 * b + o) * n, U64) for b, o, n in per), U64)
    obs = [f, l, sc, st, tops, max([o for _, o, _ in per], default=0), tblocks,
           max([b for b, _, _ in per], default=0), calls, min(f * (f + 2 * l + 2), U64), live]
    return caps, obs


def classify(ck, reqs, res):
    impl = res["impl_lines"]
    for i, r in enumerate(reqs):
        a = impl[i] if i < len(impl) else "?"
        kind = r.split(" ", 1)[0]
        ck.count(f"requests_{kind}")
        if kind == "summ":
            continue
        lim = a.split("limit=")[1].split(" ")[0] if "limit=" in a else a
        metric = lim.split(":")[0]
        ck.count(f"answer_{metric}")
        co = observed_of(r, a)
        if co is None:
            continue
        caps, obs = co
        above = [j for j in range(11) if obs[j] > caps[j]]
        naive = "none" if not above else f"{METRICS[above[0]]}:{obs[above[0]]}:{caps[above[0]]}"
        if naive != lim:
            # third opinion (python): reported through the harness oracle as well; keep the count
            ck.count("python_naive_differs")
        decide = above[0] if above else None
        boundary = any(abs(obs[j] - caps[j]) <= 1 for j in ([decide] if decide is not None else range(11)))
        if boundary:
            ck.count("boundary_cases")
        if len(above) > 1:
            ck.count("order_matters_cases")
        if boundary or len(above) > 1:
            ck.nontrivial_case(r[:4000])
            if len(ck.samples) < 5 and len(r) < 600:
                ck.samples.append({"request": r, "impl_answer": a})
    for l in res["stderr"]:
        if l.startswith("RUN "):
            ck.count("programs_run_with_and_without_plan")
            if "tripped=1" in l:
                ck.count("programs_run_where_these_caps_trip")
            if not l.endswith("pruned=0"):
                ck.count("programs_run_whose_plan_prunes_something")
        elif l.startswith("GEN-STATS"):
            pass


# --------------------------------------------------------------------------------------------- e2e
def e2e_requests(ck, case, delta, profile):
    p = sh([ck.nvh(profile), "limits", "gen-e2e", "--case", f"{case}:{delta}"], timeout=3600)
    if p.returncode != 0:
        ck.broken.append({"kind": "e2e-generator-failed", "case": f"{case}:{delta}",
                          "what": p.stderr.decode(errors="replace")[-400:]})
        return None
    return p.stdout.decode().splitlines()


def e2e(ck, cases, profile):
    for case in cases:
        for delta in deltas(case):
            name = f"{case}:{delta}"
            reqs = e2e_requests(ck, case, delta, profile)
            if not reqs:
                continue
            nd, nf = len(ck.disagreements), len(ck.oracle_fails)
            res = ck.corr("limits", reqs, profile=profile, label=f"limits-e2e-{name}", timeout=(600 if ck.tier == "quick" else 3600))
            # never keep megabytes of request text in the evidence / replay files
            for d in ck.disagreements[nd:] + ck.oracle_fails[nf:]:
                d["request"] = f"e2e-case {name}"
                d["history"] = [f"e2e-case {name}"]
                d["e2e_case"] = name
            ck.count("e2e_programs")
            impl = (res["impl_lines"] or ["?"])[0]
            model = (res["model_lines"] or ["?"])[0]
            side = [l for l in res["stderr"] if l.startswith("E2E ")]
            info = dict(kv.split("=", 1) for kv in side[0].split(" ")[2:]) if side else {}
            lim = impl.split("limit=")[1].split(" ")[0] if "limit=" in impl else "?"
            tripped = lim != "none"
            ck.count(f"e2e_{'tripped' if tripped else 'within'}")
            ck.nontrivial_case(f"e2e {name}")
            ck.extra_cov.setdefault("e2e", {})[name] = {
                "limit": lim, "warn_plan": impl.split(" limit=")[1].split(" ", 1)[1] if " limit=" in impl and " warn=" in impl else "?",
                "pass_warnings": info.get("other"), "pruned": info.get("pruned"), "output": _unhex(info.get("out")),
                "profile": profile}
            what = None
            if info and tripped and (info.get("other") != "0" or info.get("pruned") != "0"):
                what = "above the cap but pass warnings / pruning present"
            elif info and not tripped and (info.get("other") == "0" or info.get("pruned") == "0"):
                what = ("within every cap but the analyses did not run as usual (the never-read `canary` earned no "
                        "warning / was not pruned)")
            if what:
                ck.oracle_fails.append({"family": "limits", "line": 1, "request": f"e2e-case {name}", "what": what,
                                        "history": [f"e2e-case {name}"], "e2e_case": name})
            # generator drift is a note, never an alarm: the model says where the boundary is
            want = E2E_METRIC[case]
            mlim = model.split("limit=")[1].split(" ")[0] if "limit=" in model else "?"
            if case != "functions" and ((delta == 1) != mlim.startswith(want + ":") or (delta <= 0 and mlim != "none")):
                ck.notes.append(f"e2e {name}: the program does not sit on the {want} boundary any more (model: {mlim})")


def _unhex(s):
    if not s or s == "-":
        return ""
    try:
        return bytes.fromhex(s).decode(errors="replace")[:60]
    except ValueError:
        return s[:60]


# -------------------------------------------------------------------------------------------- summ
def summ_corpus():
    """corpus/C18/*.req: hand-written `summ` requests and minimised past failures, run first."""
    d = os.path.join(VERIF, "corpus", "C18")
    out = []
    for fn in sorted(os.listdir(d)):
        if fn.endswith(".req"):
            out += [l.strip() for l in open(os.path.join(d, fn)) if l.strip() and not l.startswith("#")]
    return out


def summ(ck, n, fmax, with_corpus=False, label="limits-summ"):
    p = sh([ck.nvh(), "limits", "gen-summ", "--seed", str(ck.seed), "--n", str(n), "--fmax", str(fmax)], timeout=3600)
    err = p.stderr.decode(errors="replace").splitlines()
    if p.returncode != 0:
        ck.broken.append({"kind": "summ-generator-failed", "what": "\n".join(err[-3:])[-600:]})
        return
    reqs = (summ_corpus() if with_corpus else []) + p.stdout.decode().splitlines()
    for l in err:
        if l.startswith("GEN-STATS"):
            ck.extra_cov.setdefault("summ_generator", {})[label] = dict(kv.split("=", 1) for kv in l.split(" ")[1:] if "=" in kv)
    res = ck.corr("limits", reqs, label=label, timeout=3600)
    impl = res["impl_lines"]
    info = {}
    for l in res["stderr"]:
        if l.startswith("SUMM "):
            w = l.split(" ")
            info[int(w[1]) - 1] = dict(kv.split("=", 1) for kv in w[2:])
    programs = {}
    least = {}
    for i, r in enumerate(reqs):
        key = r.split(" ", 2)[2] if r.count(" ") >= 2 else r
        d = info.get(i)
        if d is not None and d["lost"] == "0":
            least[key] = min(least.get(key, 1 << 70), int(d["budget"]))
    for i, r in enumerate(reqs):
        ck.count("requests_summ")
        a = impl[i] if i < len(impl) else "?"
        key = r.split(" ", 2)[2] if r.count(" ") >= 2 else r
        prog = programs.setdefault(key, {"ran_out": False, "scc": 0, "wf": True, "panic": False})
        if a == "panic":
            ck.count("summ_requests_answered_panic")
            prog["panic"] = True
            continue
        d = info.get(i)
        if d is None:
            continue
        f, lost, budget, bound, scc_max = int(d["f"]), int(d["lost"]), int(d["budget"]), int(d["bound"]), int(d["maxscc"])
        prog["scc"] = max(prog["scc"], scc_max)
        prog["wf"] = prog["wf"] and d["wf"] == "1"
        if lost:
            prog["ran_out"] = True
            ck.count("summ_requests_where_the_budget_ran_out")
            ck.count("summ_requests_budget_ran_out_%s" % ("before_the_first_event" if lost == f and budget == 0 else
                                                          "everything_lost" if lost == f else "part_of_the_program_lost"))
        if budget >= bound:
            ck.count("summ_requests_with_budget_at_or_above_the_preflight_bound")
        elif budget == bound - 1:
            ck.count("summ_requests_with_budget_one_below_the_bound")
        at_least = key in least and budget in (least[key], least[key] - 1)
        if at_least:
            ck.count("summ_requests_at_the_least_sufficient_budget_or_one_below")
        if lost or at_least or abs(budget - bound) <= 1:
            ck.nontrivial_case(r[:4000])
    for prog in programs.values():
        ck.count("summ_programs")
        if prog["ran_out"]:
            ck.count("summ_programs_where_some_budget_ran_out")
        if prog["scc"] >= 3:
            ck.count("summ_programs_with_a_component_of_3_or_more")
        if prog["scc"] >= 10:
            ck.count("summ_programs_with_a_component_of_10_or_more")
        if not prog["wf"]:
            ck.count("summ_programs_malformed_duplicates")
        if prog["panic"]:
            ck.count("summ_programs_malformed_callee_out_of_range")
    if len(info) + sum(1 for a in impl if a == "panic") + sum(1 for a in impl if a == "bad-op") != len(reqs):
        ck.broken.append({"kind": "summ-side-info-missing", "what": f"{len(reqs)} requests, {len(info)} SUMM lines"})


# --------------------------------------------------------------------------------------------- scc
def corpus_scc():
    """Specs kept in corpus/C18/*.cases (one per line, `#` comments): past failures, run first."""
    d = os.path.join(VERIF, "corpus", "C18")
    out = []
    for fn in sorted(os.listdir(d)):
        if fn.endswith(".cases"):
            out += [l.split("#")[0].strip() for l in open(os.path.join(d, fn))]
    return [l for l in out if l]


def scc_requests(ck, specs, nrandom=0, big=False, profile="debug", seed=None):
    """-> (request lines, full spec of each line) or None."""
    cmd = [ck.nvh(profile), "limits", "gen-scc", "--seed", str(ck.seed if seed is None else seed), "--n", str(nrandom)]
    if specs:
        cmd += ["--case", ",".join(specs)]
    if big:
        cmd += ["--big"]
    p = sh(cmd, timeout=3600)
    err = p.stderr.decode(errors="replace").splitlines()
    if p.returncode != 0:
        ck.broken.append({"kind": "scc-generator-failed", "what": "\n".join(err[-3:])[-600:]})
        return None
    return p.stdout.decode().splitlines(), [l.split(" ", 1)[1] for l in err if l.startswith("SCC-SPEC ")]


def scc(ck, specs, nrandom, big=False, label="limits-scc"):
    made = scc_requests(ck, specs, nrandom, big)
    if not made:
        return
    reqs, names = made
    nd, nf = len(ck.disagreements), len(ck.oracle_fails)
    res = ck.corr("limits", reqs, label=label, timeout=3600)
    # never keep megabytes of request text in the evidence / replay files: the spec regenerates it
    for d in ck.disagreements[nd:] + ck.oracle_fails[nf:]:
        i = d["line"] - 1
        name = names[i] if i < len(names) else "?"
        d["request"] = f"scc-case {name}"
        d["history"] = [f"scc-case {name}"]
        d["scc_case"] = name
    cov = ck.extra_cov.setdefault("scc", {})
    caps = default_caps(ck)
    compared = 0
    for l in res["stderr"]:
        if not l.startswith("SCC "):
            continue
        compared += 1
        info = dict(kv.split("=", 1) for kv in l.split(" ")[2:] if "=" in kv and not kv.startswith("spec="))
        spec = l.split(" spec=", 1)[1].split(" obs=")[0]
        ck.count("scc_programs")
        tripped = info.get("limit") != "none"
        ck.count("scc_tripped" if tripped else "scc_within")
        if not tripped and info.get("paywarn", "0") != "0" and info.get("payplan", "0") != "0":
            ck.count("scc_within_with_summary_dependent_warnings_and_prunings")
        ck.nontrivial_case(f"scc {spec}")
        obs = [int(x) for x in info.get("obs", "").split(",") if x]
        close = {}
        if caps and len(obs) == 11:
            close = {METRICS[j]: round(100.0 * obs[j] / caps[j], 3) for j in range(11) if caps[j] and 100 * obs[j] >= caps[j]}
        cov[spec] = {"limit": info.get("limit"), "payload_warnings": info.get("paywarn"), "payload_pruned": info.get("payplan"),
                     "same_as_twin": info.get("same"), "functions": obs[0] if obs else None, "percent_of_caps": close}
        k = int(spec.split("/k=")[1].split("/")[0])
        ck.count("scc_component_%s" % ("50-99" if k < 100 else "100-299" if k < 300 else "300-699" if k < 700 else "700-1000"))
        pct = close.get("summary_events", 0)
        ck.count("scc_summary_events_%s" % ("le2pct" if pct <= 2 else "le10pct" if pct <= 10 else "le60pct" if pct <= 60
                                             else "le99pct" if pct <= 99 else "le100pct" if pct <= 100 else "above"))
    if compared != len(reqs):
        ck.broken.append({"kind": "scc-twin-oracle-did-not-run", "what": f"{len(reqs)} programs, {compared} twin comparisons"})


def default_caps(ck):
    """DEFAULT_CAPS of the crate under test (the same dump Gen/Caps.lean is written from)."""
    p = sh([ck.nvh(), "dump-tables"], timeout=600)
    try:
        return [int(x) for x in json.loads(p.stdout.decode())["limits_default_caps"]]
    except (ValueError, KeyError, TypeError):
        return None


def scc_fields(spec):
    return dict(kv.split("=", 1) for kv in spec.split("/")[1:])


def scc_spec(fields):
    return "scc/" + "/".join(f"{k}={v}" for k, v in fields.items())


def scc_fails(ck, spec, key=None):
    """ORACLE-FAIL messages of one spec (optionally only those starting with the words `key`)."""
    made = scc_requests(ck, [spec])
    if not made:
        return []
    msgs = [l.split(" ", 2)[2] for l in fails_oracle(ck, made[0])]
    return [m for m in msgs if key is None or m.split(" ")[0:3] == key]


def shrink_scc(ck, spec, what):
    """Generator-parameter shrinking: drop options, then halve the sizes, while the same oracle fails."""
    key = what.split(" ")[0:3]
    cur = scc_fields(spec)
    tries = 0

    def attempt(changes):
        nonlocal cur, tries
        cand = dict(cur)
        cand.update(changes)
        if cand == cur or tries >= 24:
            return False
        tries += 1
        if scc_fails(ck, scc_spec(cand), key):
            cur = cand
            return True
        return False

    if cur.get("s") == "0":
        # resolve `as many as fit` to a number first
        src = sh([ck.nvh(), "limits", "src", "--case", scc_spec(cur)], timeout=600).stdout.decode()
        attempt({"s": str(max(4, src.count("\ndo s")))})
    for ch in ({"pad": "none", "pd": "0"}, {"frac": "0", "dl": "0"}, {"kp": "0"}, {"hub": "0"}, {"cap": "0"}, {"pay": "0"}, {"d": "5"}):
        attempt(ch)
    for field, lo in (("s", 4), ("k", 3)):
        while cur.get(field, "0").isdigit() and int(cur[field]) // 2 >= lo and attempt({field: str(int(cur[field]) // 2)}):
            pass
        if cur.get(field, "0").isdigit() and int(cur[field]) * 3 // 4 >= lo:
            attempt({field: str(int(cur[field]) * 3 // 4)})
    return scc_spec(cur)


def scc_replay_record(ck, spec, what):
    """What goes into the replay file for a failing scc case: the generator parameters, how to print the
    program, the differing warnings / prunings, and the program itself when it is small."""
    small = shrink_scc(ck, spec, what)
    diffs = scc_fails(ck, small) or [what]
    rec = {"scc_cases": [small], "found_as": spec, "generator_parameters": scc_fields(small),
           "differences": diffs[:6],
           "print_program": f"nvh limits src --case {small}    # with --twin: the small-component twin it is compared with"}
    for key, extra in (("program", []), ("twin_program", ["--twin"])):
        p = sh([ck.nvh(), "limits", "src", "--case", small] + extra, timeout=600)
        src = p.stdout.decode(errors="replace")
        rec[key] = src if len(src) <= 60000 else src[:3000] + f"\n… [{len(src)} bytes, see print_program] …\n" + src[-3000:]
    return rec


# -------------------------------------------------------------------------------------- exhaustive
def exhaustive(ck):
    """Every function body of <= 3 statements over 38 statement forms (simple, return, if / if-else /
    loop / block with every body of <= 2 simple-or-terminator statements): validates the counting
    model's tie on all small shapes (not the proof)."""
    asg, ret = "x get 1\n", "return 1\n"
    simple = [asg, ret]
    seq2 = lambda al: [""] + al + [a + b for a in al for b in al]
    B = seq2(simple)
    B1 = [""] + simple
    BL = seq2([asg, "comot\n", "next\n"])
    forms = list(simple)
    forms += [f"if to say (c) start\n{b}end\n" for b in B]
    forms += [f"if to say (c) start\n{a}end\nif not so start\n{b}end\n" for a in B1 for b in B1]
    forms += [f"jasi (c) start\n{b}end\n" for b in BL]
    forms += [f"start\n{b}end\n" for b in B]
    bodies = [""] + forms + [a + b for a in forms for b in forms] + [a + b + c for a in forms for b in forms for c in forms]
    caps = [U32] * 9 + [U64] * 2
    items = [(caps, f"make c get false\nmake x get 0\ndo f() start\n{b}end\n") for b in bodies]
    reqs = []
    for i in range(0, len(items), 5000):
        reqs += [l for l in mk_lines(ck, items[i:i + 5000]) if l.startswith(("prog ", "crash "))]
    if len(reqs) != len(items):
        ck.broken.append({"kind": "exhaustive-generator", "what": f"{len(items) - len(reqs)} enumerated programs rejected"})
    res = ck.corr("limits", reqs, label="limits-exhaustive-bodies-le3")
    ck.extra_cov["exhaustive_function_bodies_le3_over_%d_forms" % len(forms)] = len(reqs)
    classify(ck, reqs, res)


# ------------------------------------------------------------------------------------------ search
def fails_oracle(ck, lines, profile="debug"):
    p = sh([ck.nvh(profile), "limits", "run"], inp=("\n".join(lines) + "\n").encode(), timeout=3600)
    return [l for l in p.stderr.decode(errors="replace").splitlines() if l.startswith("ORACLE-FAIL")]


def search(ck):
    """Something no longer checks.  Look for a concrete program + caps on which the property itself
    fails on the implementation: the staged answer differs from the first metric (documented stage
    order) above its cap computed naively from the real counts, or limit/plan/warnings disagree, or
    an over-limit run differs from the run with the plan."""
    found = list(ck.oracle_fails)
    if not found and any(d["request"].startswith("summ ") for d in ck.disagreements):
        # the summary fixpoint and its model differ: is there a call graph on which a budget of the
        # preflight bound does not suffice?
        nd = len(ck.disagreements)
        ck.seed += 4004
        summ(ck, 3000, 60, label="limits-summ-search")
        ck.seed -= 4004
        del ck.disagreements[nd + 5:]
        found = list(ck.oracle_fails)
    if not found:
        budget = 6000 if ck.tier == "quick" else 60000
        for shift in (1001, 2002, 3003):
            ck.seed += shift
            reqs = ck.gen("limits", ["--n", budget, "--lim", budget])
            ck.seed -= shift
            nd = len(ck.disagreements)
            ck.corr("limits", reqs, label=f"limits-search-{shift}")
            del ck.disagreements[nd + 5:]
            if ck.oracle_fails:
                found = list(ck.oracle_fails)
                break
    if found:
        # a small program if there is one; a generated case with parameters before a fixed boundary program
        f = min(found, key=lambda x: ("e2e_case" in x, "scc_case" in x, len(x["request"])))
        req, what = f["request"], f["what"]
        replay = {"kind": "impl-vs-oracle", "family": "limits", "what": what,
                  "replay_cmd": "./check C18 --replay <this file>", "broken": ck.broken[:5],
                  "disagreements": [_slim(d) for d in ck.disagreements[:3]]}
        if "scc_case" in f:
            replay.update(scc_replay_record(ck, f["scc_case"], what))
            replay["what"] = replay["differences"][0]
        elif "e2e_case" in f:
            replay["e2e_cases"] = [f["e2e_case"]]
        else:
            req = shrink(ck, req, what)
            replay["requests"] = [req]
            replay["program"] = _program_of(req)
        ck.report_violation(replay)
    else:
        ck.report_violation({"kind": "tie-broken", "family": "limits",
                             "what": "a proof obligation, a generated table or the model/implementation "
                                     "correspondence no longer checks; no program on which the property fails "
                                     "was found",
                             "broken": ck.broken[:10], "disagreements": [_slim(d) for d in ck.disagreements[:5]],
                             "requests": [d["request"] for d in ck.disagreements[:3] if "e2e_case" not in d and "scc_case" not in d],
                             "e2e_cases": [d["e2e_case"] for d in ck.disagreements[:3] if "e2e_case" in d],
                             "scc_cases": [d["scc_case"] for d in ck.disagreements[:3] if "scc_case" in d]},
                            no_input_found=True)


def _slim(d):
    d = dict(d)
    d["request"] = d["request"][:3000]
    d["history"] = [h[:3000] for h in d.get("history", [])]
    return d


def _program_of(req):
    w = req.split(" ")
    if w[0] == "crash" and len(w) == 2:
        try:
            return bytes.fromhex(w[1]).decode(errors="replace")
        except ValueError:
            return None
    if w[0] == "e2e" and len(w) > 3:
        try:
            return bytes.fromhex(w[2]).decode(errors="replace")
        except ValueError:
            return None
    if w[0] == "summ" and len(w) > 3:
        # the call graph in words
        out = [f"{w[2]} functions, {w[3]} locals, event budget {w[1]} (preflight bound {int(w[2]) * (int(w[2]) + 2 * int(w[3]) + 2)})"]
        for i, t in enumerate(w[4:]):
            p = (t.split(";") + ["-"] * 4)[:4]
            out.append(f"f{i}: calls {p[0]}  reads captured {p[1]}  writes captured {p[2]}  statement classes {p[3]}")
        return "\n".join(out) + "\n"
    if w[0] == "prog" and len(w) > 13:
        try:
            return bytes.fromhex(w[13]).decode(errors="replace")
        except ValueError:
            return None
    return None


def shrink(ck, req, what):
    """prog: delete source lines (greedy, block sizes 8/4/2/1) while the same oracle still fails;
    lim: switch off caps / zero counts while it still fails."""
    key = what.split(" ")[0:3]

    def still(line):
        return any(l.split(" ", 2)[2].split(" ")[0:3] == key for l in fails_oracle(ck, [line]))

    w = req.split(" ")
    if w[0] == "prog":
        caps = w[1:12]
        try:
            lines = bytes.fromhex(w[13]).decode().split("\n")
        except ValueError:
            return req
        best = req
        for size in (8, 4, 2, 1):
            i = 0
            while i < len(lines):
                cand = lines[:i] + lines[i + size:]
                made = mk_lines(ck, [(caps, "\n".join(cand))])[0]
                if made.startswith("prog ") and still(made):
                    lines, best = cand, made
                else:
                    i += 1
        return best
    if w[0] == "summ":
        return shrink_summ(req, still)
    if w[0] == "lim":
        best = w
        for j in range(1, 12):
            cand = list(best)
            cand[j] = str(U32 if j <= 9 else U64)
            if still(" ".join(cand)):
                best = cand
        return " ".join(best)
    return req


def shrink_summ(req, still):
    """Drop direct facts entry by entry, then uncalled trailing functions, while the oracle fails.
    A budget that was at the preflight bound follows the bound."""
    w = req.split(" ")
    budget, f, l = int(w[1]), int(w[2]), int(w[3])
    at_bound = budget - f * (f + 2 * l + 2)

    def parse(t):
        return [[] if x == "-" else x.split(",") for x in t.split(";")]

    def line(fns):
        n = len(fns)
        b = max(0, n * (n + 2 * l + 2) + at_bound) if at_bound >= -1 else budget
        return " ".join(["summ", str(b), str(n), str(l)] + [";".join(",".join(x) or "-" for x in fn) for fn in fns])

    fns = [parse(t) for t in w[4:]]
    tries = 0
    changed = True
    while changed and tries < 400:
        changed = False
        # trailing functions nobody calls
        while len(fns) > 1 and not any(str(len(fns) - 1) in fn[0] for fn in fns[:-1]) and tries < 400:
            tries += 1
            if still(line(fns[:-1])):
                fns = fns[:-1]
                changed = True
            else:
                break
        for i in range(len(fns)):
            for k in range(4):
                j = 0
                while j < len(fns[i][k]) and tries < 400:
                    cand = [[list(x) for x in fn] for fn in fns]
                    del cand[i][k][j]
                    tries += 1
                    if still(line(cand)):
                        fns = cand
                        changed = True
                    else:
                        j += 1
    return line(fns)


# ------------------------------------------------------------------------------------------ replay
def replay(ck, data):
    reqs = list(data.get("requests", []))
    for case in data.get("e2e_cases", []):
        c, d = case.split(":")
        reqs += e2e_requests(ck, c, int(d), "debug") or []
    if data.get("scc_cases"):
        print("generator parameters:", json.dumps(data.get("generator_parameters", {})))
        for d in data.get("differences", []):
            print("recorded difference:", d)
        reqs += (scc_requests(ck, data["scc_cases"], seed=data.get("seed")) or ([], []))[0]
    if not reqs:
        print("nothing to replay: the file names broken obligations only")
        print(json.dumps(data.get("broken", []), indent=1))
        return 1
    inp = ("\n".join(reqs) + "\n").encode()
    impl = sh([ck.nvh(), "limits", "run"], inp=inp, timeout=3600)
    mod = sh([DRIVER, "limits"], inp=inp, timeout=3600)
    il, ml = impl.stdout.decode().splitlines(), mod.stdout.decode().splitlines()
    print("request | implementation | model")
    for i, r in enumerate(reqs):
        print(f"{r[:300]} | {(il[i] if i < len(il) else '?')[:300]} | {(ml[i] if i < len(ml) else '?')[:300]}")
        src = _program_of(r)
        if src and len(src) < 4000:
            print("--- program ---\n" + src + "---------------")
    err = impl.stderr.decode(errors="replace")
    print(err[-3000:])
    return 1 if "ORACLE-FAIL" in err or il != ml else 0
