"""C01 — program results equal the documented language semantics.

Proof: Props/C01Parse.lean (the extracted binding-power table implements the documented precedence and
associativity; print/parse round trip for every expression with any redundant parentheses, and for
canonical programs), Props/C01Eval.lean (evaluator laws: left-to-right, short-circuit and/or with the
state after the left operand only, null falsy, loop unrolling with comot/next, call/return, concatenation
with number formatting, interpolation, division by zero; fuel monotonicity), Props/C01Accept.lean (a valid
program is never rejected: lexer round trip + parser round trip + C09's "accepted iff the documented rules
hold" composed for `Pipeline.frontEnd` / `runSource`; the text runs like the annotated tree). The reference semantics is
the Lean evaluator model over the Lean front end (Model/Pipeline.lean). Tie: `run` stream (real Runtime vs
evaluator model on the real front end's annotated AST), the composed Lean pipeline vs the real pipeline on
program TEXTS (`pipe`), the float self-test of the driver, and a precedence oracle on the real parser that
uses the documented grouping only. A disagreement on an accepted program IS a failing input for C01."""
import parselib
import pipelib
import runlib
from common import Check

MODULES = ["NaijaVerif.Props.C01Parse", "NaijaVerif.Props.C01Eval", "NaijaVerif.Props.C01Accept"]


def run(ck: Check):
    ck.rule = ("typed, scope-aware generated programs (every statement / expression form, builtins and methods, "
               "recursion, captures, loops with comot/next, deliberate runtime errors), the hand-written corpus and "
               "the shipped example programs; non-trivial = accepted, prints a value and contains a call, loop, "
               "method call or index write; distinct by program text")
    ck.build_harness()
    ck.gen_tables()
    ck.lean_obligations(MODULES)
    ck.build_driver(["Run", "Parse", "Pipe"])
    quick = ck.tier == "quick"
    runlib.float_selftest(ck, 3000 if quick else 50000)
    parselib.precedence_oracle(ck)
    streams = runlib.run_streams(ck, ck.tier, kinds=("corpus", "main"), n_main=2000 if quick else 80000,
                                 corpus_dirs=("wide",))
    for bias in ("strings", "control", "numbers"):
        ck.seed += 11
        got = runlib.run_streams(ck, ck.tier, kinds=("main",), bias=bias, n_main=500 if quick else 20000)
        streams[bias] = got.get("main")
    ck.seed -= 33
    pipelib.pipe_stream(ck, "progs", 800 if quick else 30000)
    if ck.tier == "thorough":
        ck.leanchecker(MODULES)
    if ck.is_broken():
        search(ck, streams)
    return ck.finish()


def search(ck, streams):
    prec = [f for f in ck.oracle_fails if f.get("family") == "parse"]
    if prec:
        f = prec[0]
        ck.report_violation({"kind": "impl-vs-oracle", "family": "parse", "what": f["what"][:500],
                             "requests": [f["request"]], "program": parselib.req_text(f["request"])})
        return
    own = [f for f in ck.oracle_fails if f.get("family") == "run" and f.get("what", "").startswith("[C01]")]
    rep = runlib.report_disagreements(ck, "the real interpreter and the reference semantics (Lean evaluator) give "
                                          "different results for this accepted program", streams)
    if rep is not None:
        rep["broken"] = ck.broken[:5]
        # the reference interpreter is the specification: a differing accepted program is the failing input
        ck.report_violation(rep)
        return
    if own:
        f = own[0]
        ck.report_violation({"kind": "impl-vs-oracle", "family": "run", "what": f["what"][:500],
                             "requests": [f["request"]], "program": runlib.src_of(f["request"])})
        return
    rep = pipelib.report(ck, "composed Lean pipeline and real pipeline give different results for this text")
    if rep is not None:
        ck.report_violation(rep)
        return
    ck.report_violation({"kind": "tie-broken", "broken": ck.broken[:10], "oracle_fails": ck.oracle_fails[:5],
                         "requests": []}, no_input_found=True)


def replay(ck, data):
    if data.get("family") == "pipe":
        return pipelib.replay(ck, data)
    if data.get("family") == "parse":
        return parselib.replay(ck, data)
    return runlib.replay_requests(ck, data)
