"""C03 — analysis-driven pruning never changes what a program does.


Proof obligations: `lean/NaijaVerif/Props/C03.lean` (theorems about the analysis model
`Model/Analysis.lean` and the evaluator fragment `Model/AnalysisEval.lean`).
Tie: family `plan` — the real analyses vs the model on generated and corpus programs: the
implementation's plan must be contained in the model's, its effect classes at least the model's, and
the analysis warnings equal (`planlib.compare`).
Tie of the evaluator the theorems are about: `arun` requests — `AEval.run` instantiated with `evalPrims`
(`Model/AnalysisPrims.lean`; the instance of the closed theorem `c03_concrete`) on the real annotated AST,
facts and plan, without and with the plan, against the real runtime without and with the plan: printed values
and ending must be equal (`planlib.compare_arun`), on every program of the plan streams plus programs of the
`run` family's generators (they exercise the primitive operations much more widely).
Oracle (needs no model): the real runtime with the real plan vs without it, same AST and facts."""
import os

import planlib
from common import Check, VERIF, sh, DRIVER

MODULES = ["NaijaVerif.Props.C03"]


def run(ck: Check):
    ck.rule = ("generated programs (typed, terminating; captured reads/writes through one, two and recursive calls, "
               "may-writes, dead code with definitions and calls, stores before comot/next/return, loop-carried "
               "stores, shadowing and re-declaration, trapping/effectful initialisers, unused functions containing "
               "used ones) plus corpus/C03 seeds; non-trivial = the real plan removes >= 1 statement that the real "
               "analysis considers reachable inside a function whose body is reachable (a dead store or an unused "
               "declaration that would otherwise execute; the exact executed-statement bitmap needs the proposed "
               "hook, see proposed-fixes/hook-exec-bitmap.diff); distinct by source text")
    ck.assumptions.append("C03: c03_full_holds speaks about the evaluator fragment Model/AnalysisEval.lean (abstract "
                          "primitives); c03_concrete instantiates it with the primitive steps of Model/Eval.lean (evalPrims, "
                          "proved Lawful); c03_bridge / c03_bridge_converse prove that instance and Model/Eval.lean equivalent "
                          "up to fuel on annotated programs (side conditions evaluated per case: bridge=1), and c03_eval is "
                          "C03 for Eval.run itself. What ties these models to the Rust runtime is not a proof about Rust but "
                          "the `arun` streams here (fragment instance vs real runtime, plain and pruned) and the `run` "
                          "streams of C01 (Model/Eval.lean vs real runtime)")
    ck.build_harness()
    ck.gen_tables()
    ck.lean_obligations(MODULES)
    ck.build_driver(["Plan"])

    # corpus first
    seeds = planlib.corpus_sources(VERIF)
    sreqs, rejected = planlib.requests_for(ck, seeds)
    if rejected:
        ck.notes.append(f"{len(rejected)} corpus program(s) rejected by the front end: {rejected[:3]}")
    if sreqs:
        res = planlib.corr_plan(ck, sreqs, label="plan-corpus")
        planlib.count_distribution(ck, sreqs, res)
        arun_stream(ck, sreqs, "arun-corpus")

    n = 1500 if ck.tier == "quick" else 30000
    total_equal, total = 0, 0
    cov_reqs = list(sreqs)
    for (shift, size, cnt) in ((0, 14, n), (7, 30, n // 5)):
        ck.seed += shift
        reqs = ck.gen("plan", ["--n", cnt, "--size", size])
        ck.seed -= shift
        res = planlib.corr_plan(ck, reqs, label=f"plan-gen-size{size}")
        planlib.count_distribution(ck, reqs, res)
        arun_stream(ck, reqs, f"arun-gen-size{size}")
        total_equal += res["plans_equal"]
        total += res["requests"]
        cov_reqs += reqs[:300] if ck.tier == "quick" else reqs[:3000]
    ck.extra_cov["impl_plan_equals_model_plan"] = f"{total_equal}/{total}"
    # the run family's programs (typed generator; thorough: also the exhaustive sink x type x route product):
    # methods, interpolation, index paths, process commands — the primitive steps of evalPrims
    kinds = [("main", 800)] if ck.tier == "quick" else [("main", 10000), ("product", 20000)]
    for kind, cnt in kinds:
        rreqs = ck.gen("run", ["--n", cnt, "--kind", kind])
        arun_stream(ck, [r for r in rreqs if r.startswith("run ")], f"arun-run-{kind}")
    c = ck.counters
    ck.extra_cov["arun_fragment_evaluator_vs_real_runtime"] = (
        f"{c.get('arun_programs_compared', 0)} programs compared (plain and pruned run each), "
        f"{c.get('arun_with_nonempty_plan', 0)} with a non-empty plan, "
        f"{c.get('arun_ending_in_runtime_error', 0)} ending in a runtime error, "
        f"{c.get('arun_skipped_read_line', 0)} skipped (read_line), "
        f"{c.get('arun_not_compared_resource_exhaustion', 0)} not compared (fuel / stack / hang)")
    # corpus + a sample of both generated streams
    coverage_statistic(ck, cov_reqs)
    if ck.tier == "thorough":
        ck.leanchecker(MODULES)
    if ck.is_broken():
        search(ck)
    return ck.finish()


def arun_stream(ck, reqs, label):
    """The programs of `reqs` (request lines of family `plan` or `run`: second word = hex source) as `arun` requests."""
    areqs = planlib.arun_requests(ck, [r.split()[1] for r in reqs if len(r.split()) > 1])
    return planlib.corr_arun(ck, areqs, label=label)


def coverage_statistic(ck, reqs):
    """Model-only: for which programs do the decidable hypotheses of the proved theorems evaluate to true (driver):
    * `c03_full_holds` (C03 itself: every plan contained in the model's plan; liveness simulation T5 with calls of
      pure user functions): hypothesis `structOkB root facts` — distinct ids, consistency of the facts and of the
      model's tables/verdicts with the annotated program, no plan involved (`live=1`); the whole model plan of such
      a program is covered;
    * `c03_bridge` / `c03_eval` (refinement of the fragment evaluator by Model/Eval.lean): hypothesis `okBlock (orcOf …)`
      (`bridge=1`);
    * `c03_partial_checked` (the older static theorem: unreachable statements, unused functions, quiet stores to
      never-read variables) for comparison."""
    if not reqs or not os.path.exists(DRIVER):
        return
    inp = ("\n".join("cover " + r.split(" ", 1)[1] for r in reqs) + "\n").encode()
    p = sh([DRIVER, "plan"], inp=inp, timeout=1800)
    tot = proved = ok = n = 0
    live_items = live_n = bridge_n = 0
    why = {"distinct": 0, "global": 0, "fnsok": 0, "rootok": 0}
    for line in p.stdout.decode(errors="replace").splitlines():
        d = planlib.parse(line)
        if "total" not in d:
            continue
        n += 1
        tot += int(d["total"])
        proved += int(d["proved"])
        ok += int(d["ok"])
        if d.get("live") == "1":
            live_n += 1
            live_items += int(d["total"])
        if d.get("bridge") == "1":
            bridge_n += 1
        for k in why:
            if d.get(k) == "0":
                why[k] += 1
    ck.extra_cov["plan_items_covered_by_c03_full"] = \
        f"{live_items}/{tot} over {n} programs (all decidable hypotheses hold on {live_n})"
    ck.extra_cov["bridge_side_conditions_hold"] = \
        (f"{bridge_n}/{n} programs (okBlock with the oracle computed from the facts: hypothesis of c03_bridge / c03_eval, "
         f"the refinement of the fragment evaluator by Model/Eval.lean)")
    if n and bridge_n < n:
        ck.notes.append(f"c03_eval: the static side conditions of the bridge failed on {n - bridge_n} of {n} sampled programs")
    ck.extra_cov["plan_items_covered_by_c03_partial_checked"] = f"{proved}/{tot} over {n} programs (hypotheses hold on {ok})"
    if n and live_n < n:
        ck.notes.append(f"c03_full: decidable hypothesis structOkB failed on {n - live_n} of {n} sampled programs "
                        f"(failing condition counts: {why})")
    if n and why["distinct"] + why["global"] + why["fnsok"]:
        # plan-independent consistency conditions on the facts: these must hold for every program of the real front end
        ck.broken.append({"kind": "model-hypothesis-failed",
                          "what": f"C03 global consistency conditions of the facts failed on generated programs: {why}"})


def oracle_fails_on(ck, source):
    reqs, _ = planlib.requests_for(ck, [source])
    if not reqs:
        return False
    p = sh([ck.nvh(), "plan", "run"], inp=(reqs[0] + "\n").encode(), timeout=120)
    if b"ORACLE-FAIL" in p.stderr:
        return True
    # the same comparison as the `arun` stream makes on the implementation's two runs (process execution denied)
    areqs = planlib.arun_requests(ck, [reqs[0].split()[1]])
    if not areqs:
        return False
    p = sh([ck.nvh(), "plan", "run", "--no-oracle"], inp=(areqs[0] + "\n").encode(), timeout=120)
    a = planlib.parse(p.stdout.decode(errors="replace"))
    if "plain.end" not in a:
        return False
    res = [a["plain.end"], a["pruned.end"]]
    if any(planlib._resource(e) for e in res) or res == ["panic", "panic"]:
        return False
    return (a["plain.end"], a["plain.out"]) != (a["pruned.end"], a["pruned.out"])


def search(ck):
    """Something no longer checks. Look for a program on which the property itself fails on the
    implementation (plan vs no plan), shrink it and report it; otherwise report the broken tie."""
    found = list(ck.oracle_fails)
    if not found:
        budget = 6000 if ck.tier == "quick" else 120000
        for shift in (101, 202, 303):
            ck.seed += shift
            reqs = ck.gen("plan", ["--n", budget // 3, "--size", 18])
            ck.seed -= shift
            before = len(ck.disagreements)
            planlib.corr_plan(ck, reqs, label=f"plan-search-{shift}")
            del ck.disagreements[max(before, 20):]
            if ck.oracle_fails:
                found = list(ck.oracle_fails)
                break
    if found:
        f = min(found, key=lambda x: len(x.get("source", "")))
        src = planlib.shrink_source(ck, f["source"], lambda s: oracle_fails_on(ck, s))
        reqs, _ = planlib.requests_for(ck, [src])
        ck.report_violation({"kind": "impl-vs-oracle", "family": "plan", "what": f["what"], "source": src,
                             "requests": reqs or f["history"], "replay_cmd": "./check C03 --replay <this file>",
                             "broken": ck.broken[:5],
                             "disagreements": [{k: d[k] for k in ("source", "why", "impl", "model")} for d in ck.disagreements[:3]]})
    else:
        d0 = ck.disagreements[0] if ck.disagreements else None
        ck.report_violation({"kind": "tie-broken", "family": "plan",
                             "what": "a proof obligation or the model/implementation correspondence of the analyses no "
                                     "longer checks; no program on which the plan changes behaviour was found",
                             "broken": ck.broken[:10],
                             "disagreements": [{k: d[k] for k in ("source", "why", "impl", "model")} for d in ck.disagreements[:5]],
                             "requests": d0["history"] if d0 else []},
                            no_input_found=True)


def replay(ck, data):
    reqs = data.get("requests", [])
    if data.get("source") and not reqs:
        reqs, _ = planlib.requests_for(ck, [data["source"]])
    if data.get("source"):
        # the facts in a stored request may be stale: rebuild from the source with the current front end
        fresh, _ = planlib.requests_for(ck, [data["source"]])
        reqs = fresh or reqs
    # every program also as an `arun` request (fragment evaluator vs real runtime), rebuilt by the current front end
    hexes = []
    for r in reqs:
        h = r.split()[1] if len(r.split()) > 1 else None
        if h and h not in hexes:
            hexes.append(h)
    reqs = [r for r in reqs if not r.startswith("arun ")] + planlib.arun_requests(ck, hexes)
    inp = ("\n".join(reqs) + "\n").encode()
    impl = sh([ck.nvh(), "plan", "run"], inp=inp)
    mod = sh([DRIVER, "plan"], inp=inp)
    il, ml = impl.stdout.decode().splitlines(), mod.stdout.decode().splitlines()
    bad = 0
    for i, r in enumerate(reqs):
        print("source:", planlib.source_of(r).replace("\n", " ; "))
        a = il[i] if i < len(il) else "?"
        b = ml[i] if i < len(ml) else "?"
        print("implementation:", a)
        print("model:         ", b)
        why = planlib.compare_arun(a, b) if r.startswith("arun ") else planlib.compare(a, b)
        print("comparison:    ", why or "ok")
        bad += bool(why)
        if r.startswith("arun "):
            pa = planlib.parse(a)
            if "plain.end" in pa and not any(planlib._resource(pa[k]) for k in ("plain.end", "pruned.end")) and \
                    (pa["plain.end"], pa["plain.out"]) != (pa["pruned.end"], pa["pruned.out"]) and \
                    [pa["plain.end"], pa["pruned.end"]] != ["panic", "panic"]:
                print("the plan changes the behaviour of the real runtime on this program")
                bad += 1
    err = impl.stderr.decode()
    print(err)
    return 1 if "ORACLE-FAIL" in err or bad else 0
