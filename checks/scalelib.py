"""Scale stream: the front end's resource use on large, repetitive but ordinary sources.

The Lean models of lexer, parser and checker are pure functions: they have no notion of the bump arena filling
up, so the clause of C07 "terminates without panic, abort or memory error" rests, for memory, on the assumption
that front-end allocation is proportionate to the source. That assumption is what this stream exercises on the
real binary (it is an implementation-level oracle, a test supporting the tie, not a theorem): every family
below is a source of `n` repetitions of one ordinary construct (a few hundred KB up to ~1.5 MB at n = 20000),
run through /repo's own `naija` binary built from the working tree. The oracle: the process exits 0 or 1 (ran,
or reported diagnostics) within the time limit — never a signal, exit 101 (panic) or 134 (abort: the arena
reports `memory allocation of N bytes failed`). Defect D-19 (fixed by 7525b16: `scan_string` reserved the whole
rest of the source for every string with an escape) is the reason this stream exists; family `esc` at n = 20000
is its witness. A failing family is bisected to the smallest failing n and reported with the program (or, above
1 MB, its generator call) as the replay.

Families whose output is inherently O(diagnostics x line length) on ONE line (many errors on one long line) are
left out on purpose: the rendered report is buffered in the arena and its size is quadratic by construction
(recorded in DESIGN.md section 11 as an observation, not a defect)."""
import os
import subprocess
import tempfile
import time

from common import CACHE

TIME_LIMIT = 120


def family(name, n):
    R = range(n)
    if name == "esc":
        return "".join('shout("a\\nb%d")\n' % i for i in R)
    if name == "esc-quote":
        return "".join('shout("a\\"b%d\\\\")\n' % i for i in R)
    if name == "esc-single":
        return "".join("shout('a\\tb%d')\n" % i for i in R)
    if name == "esc-1line":
        return "shout(" + " add ".join('"a\\tb%d"' % i for i in range(min(n, 1800))) + ")\n" + \
            "".join('make s%d get "x\\ny" add "z\\tw" add "k\\\\%d"\n' % (i, i) for i in R)
    if name == "esc-invalid":
        return "".join('shout("a\\qb%d")\n' % i for i in R)
    if name == "esc-unterminated":
        return "".join('shout("a\\nb%d)\n' % i for i in R)
    if name == "tmpl":
        return "make x get 1\n" + "".join('shout("v {x} w%d {x} {{k}}")\n' % i for i in R)
    if name == "tmpl-many":
        return "make x get 1\nshout(\"" + " ".join("{x}" for _ in R) + "\")\n"
    if name == "comments":
        return "".join("# comment number %d with some text\nshout(%d) # trailing\n" % (i, i) for i in R)
    if name == "arrays":
        return "".join('make a%d get [1, 2, 3, "x", [4, 5]]\n' % i for i in R)
    if name == "funcs":
        return "".join("do f%d(a, b) start return a add b end\n" % i for i in R) + "shout(f0(1, 2))\n"
    if name == "nested-funcs":
        return "".join("do f%d(a) start do g(b) start return b add a end return g(a) end\n" % i for i in R) + "shout(f0(1))\n"
    if name == "calls":
        return "do f(a, b) start return a add b end\n" + "".join("shout(f(%d, 2))\n" % i for i in R)
    if name == "ifs":
        return "make x get 1\n" + "".join(
            "if to say (x na %d) start shout(%d) end if not so start shout(0) end\n" % (i, i) for i in R)
    if name == "loops":
        return "".join("make i%d get 0\njasi (i%d small pass 2) start i%d get i%d add 1 end\n" % (i, i, i, i) for i in R)
    if name == "methods":
        return 'make s get "abc"\n' + "".join("shout(s.to_uppercase().to_lowercase().len())\n" for _ in R)
    if name == "vars":
        return "".join("make v%d get %d\n" % (i, i) for i in R) + "shout(v0)\n"
    if name == "lex-errors":
        return "".join("shout(1) @\n" for _ in R)
    if name == "syntax-errors":
        return "".join("make get get\n" for _ in R)
    if name == "semantic-errors":
        return "".join("shout(undeclared%d)\n" % i for i in R)
    if name == "type-errors":
        return "".join('shout(%d minus "s")\n' % i for i in R)
    if name == "long-string":
        return 'shout("' + "ab\\n" * n + '")\n'
    if name == "long-ident":
        return "make " + "a" * n + " get 1\nshout(" + "a" * n + ")\n"
    if name == "long-number":
        return "shout(" + "1" * n + ")\n"
    if name == "bin-chain":
        return "shout(" + " add ".join("%d" % i for i in range(min(n, 1800))) + ")\n" + \
            "".join("shout(%d add 1 times 2 minus 3)\n" % i for i in R)
    if name == "array-literal":
        return "make a get [" + ", ".join("%d" % i for i in R) + "]\nshout(a.len())\n"
    if name == "params":
        return "do f(" + ", ".join("p%d" % i for i in R) + ") start return 1 end\n"
    if name == "unused":
        return "".join("do g%d() start make u get %d end\n" % (i, i) for i in R)
    if name == "dead-stores":
        return "do f() start\n" + "".join("make d%d get %d\n" % (i, i) for i in R) + "return 1 end\nshout(f())\n"
    if name == "blocks":
        return "".join("start make b get %d shout(b) end\n" % i for i in R)
    if name == "crlf":
        return "".join('make c%d get "r\\n%d"\r\n' % (i, i) for i in R)
    raise KeyError(name)


FAMILIES = ["esc", "esc-quote", "esc-single", "esc-1line", "esc-invalid", "esc-unterminated", "tmpl", "tmpl-many",
            "comments", "arrays", "funcs", "nested-funcs", "calls", "ifs", "loops", "methods", "vars", "lex-errors",
            "syntax-errors", "semantic-errors", "type-errors", "long-string", "long-ident", "long-number", "bin-chain",
            "array-literal", "params", "unused", "dead-stores", "blocks", "crlf"]


def run_one(cli, text):
    """-> (ok, what, seconds). ok iff the process exited 0 or 1 within the limit."""
    d = os.path.join(CACHE, "tmp")
    os.makedirs(d, exist_ok=True)
    fd, path = tempfile.mkstemp(suffix=".ns", dir=d)
    try:
        with os.fdopen(fd, "w", newline="") as f:
            f.write(text)
        t0 = time.time()
        try:
            p = subprocess.run([cli, path], stdout=subprocess.DEVNULL, stderr=subprocess.PIPE, stdin=subprocess.DEVNULL,
                               timeout=TIME_LIMIT)
        except subprocess.TimeoutExpired:
            return False, f"no result within {TIME_LIMIT} s", time.time() - t0
        dt = time.time() - t0
        if p.returncode in (0, 1):
            return True, f"exit {p.returncode}", dt
        err = p.stderr.decode(errors="replace").strip().splitlines()
        first = next((ln for ln in err if ln.strip()), "")
        return False, f"exit status {p.returncode}: {first[:200]}", dt
    finally:
        try:
            os.unlink(path)
        except OSError:
            pass


def scale_stream(ck, n, profile="release"):
    """Run every family at size n. Returns the list of failures (each already shrunk to the smallest failing n)."""
    cli = ck.build_cli(profile)
    fails = []
    sizes = {}
    slowest = ("", 0.0)
    for name in FAMILIES:
        text = family(name, n)
        ok, what, dt = run_one(cli, text)
        ck.count("scale_cases")
        ck.nontrivial_case("scale " + name + " " + str(n))
        sizes[name] = len(text)
        if dt > slowest[1]:
            slowest = (name, round(dt, 2))
        if ok:
            continue
        lo, hi = 0, n   # family(lo) passes (empty / trivial), family(hi) fails
        while hi - lo > 1 and hi > 1:
            mid = (lo + hi) // 2
            ok2, what2, _ = run_one(cli, family(name, mid))
            ck.count("scale_cases")
            if ok2:
                lo = mid
            else:
                hi, what = mid, what2
        fails.append({"family": name, "n": hi, "bytes": len(family(name, hi)), "what": what})
    ck.extra_cov["scale_stream"] = {"n": n, "families": len(FAMILIES), "largest_source_bytes": max(sizes.values()),
                                    "slowest": {"family": slowest[0], "seconds": slowest[1]}, "profile": profile,
                                    "failures": len(fails)}
    for f in fails:
        ck.oracle_fails.append({"family": "scale", "line": 0, "request": f"scale {f['family']} {f['n']}",
                                "what": f["what"], "history": []})
    return fails


def report(ck, fails):
    f = min(fails, key=lambda x: x["bytes"])
    text = family(f["family"], f["n"])
    rep = {"kind": "impl-vs-oracle", "family": "scale", "oracle": "front end exits 0/1 on a large ordinary source",
           "what": (f"`naija` on {f['n']} repetitions of the `{f['family']}` construct ({f['bytes']} bytes): {f['what']} — "
                    "the front end must end with a program or diagnostics, not a crash or memory error"),
           "scale": {"family": f["family"], "n": f["n"]}, "all_failures": fails, "requests": [],
           "replay_cmd": f"python3 -c \"import sys; sys.path.insert(0,'/verif/checks'); import scalelib; "
                         f"sys.stdout.write(scalelib.family('{f['family']}', {f['n']}))\" > /tmp/p.ns && naija /tmp/p.ns"}
    if len(text) <= (1 << 20):
        rep["program"] = text
    return rep


def replay(ck, data):
    sc = data["scale"]
    cli = ck.build_cli("release")
    ok, what, _ = run_one(cli, data.get("program") or family(sc["family"], sc["n"]))
    ck.count("scale_cases")
    if not ok:
        ck.report_violation(dict(data, what=what))
    return ck.finish()
