"""C08 — the recursion shapes, as naijascript source generators.

Three groups (the `kind` of a shape):

* ``rt``    recursion at run time through user functions: `src(limit)` recurses `limit` levels and
            then returns normally, so a small limit validates that the shape is a well-formed,
            terminating program (exit 0) and a huge limit (`INF`) must end in the `Stack overflow`
            runtime error.  Every evaluator function that calls `eval_expr` is exercised by at least
            one of these (see `covers`), so every guard-free chain of Model/Depth.lean is walked.
* ``nest``  source nesting of depth `n` (the parser / resolver / cfg recurse on it; the evaluator
            too, but guarded).  `src(n)`; `stage_cut(src, 'parser'|'resolver')` appends an error that
            makes the CLI stop after that stage, which is how the crashing stage is attributed on
            the real binary.
* ``data``  data nesting built at run time (value-recursive helpers: clone_into, promote, Display,
            join, drop glue).
* ``comp``  composite "recursion THEN tower" (`composite(rt, tower, d, n)`): an ``rt`` shape driven to the
            chosen depth `d`, at whose bottom a function runs whose body is an `n`-level tower of nested
            statements or expressions (`TOWERS`).  A descent that is probed only through something the
            tower does not do (e.g. a condition that needs no evaluation) overruns the stack only when it
            starts close below the budget line -- each ingredient alone is harmless.

Each shape has a finite `construct` tag; signatures of known findings are
`{"defect": "D-08", "stage": <stage>, "construct": <construct>}`.
"""

INF = 10 ** 9


def _rt(body_fn_defs, call, pre=""):
    """A recursion shape: `pre` (declarations), function definitions using {L}, final statement."""
    def src(limit):
        return (pre + body_fn_defs + call).replace("{L}", str(limit))
    return src


BASE = "    if to say (n pass {L}) start\n        return %s\n    end\n"

RT = {}


def rt(name, defs, call, pre="", covers=()):
    RT[name] = {"kind": "rt", "construct": name, "src": _rt(defs, call, pre), "covers": list(covers),
                "base_case": (BASE.split("%s")[0]) in defs}


# -- direct / mutual -------------------------------------------------------------------------
rt("direct",
   "do f(n) start\n" + BASE % "0" + "    f(n add 1)\nend\n", "f(0)\n",
   covers=["exec_stmt", "eval_expr", "eval_function_call", "exec_block_with_flow"])
rt("direct_return",
   "do f(n) start\n" + BASE % "0" + "    return f(n add 1)\nend\n", "shout(f(0))\n",
   covers=["eval_builtin_call"])
rt("direct_assign",
   "do f(n) start\n" + BASE % "0" + "    make r get f(n add 1)\n    r get r add 0\n    return r\nend\n",
   "make z get f(0)\nshout(z)\n")
rt("mutual2",
   "do a(n) start\n" + BASE % "0" + "    return b(n add 1)\nend\n"
   "do b(n) start\n" + BASE % "0" + "    return a(n add 1)\nend\n", "shout(a(0))\n")
rt("mutual3",
   "do a(n) start\n" + BASE % "0" + "    return b(n add 1)\nend\n"
   "do b(n) start\n" + BASE % "0" + "    return c(n add 1)\nend\n"
   "do c(n) start\n" + BASE % "0" + "    return a(n add 1)\nend\n", "shout(a(0))\n")
# -- through arguments ------------------------------------------------------------------------
rt("arg_user",
   "do id(x) start\n    return x\nend\n"
   "do f(n) start\n" + BASE % "0" + "    return id(f(n add 1))\nend\n", "shout(f(0))\n")
rt("arg_second",
   "do pick(x, y) start\n    return y\nend\n"
   "do f(n) start\n" + BASE % "0" + "    return pick(n, f(n add 1))\nend\n", "shout(f(0))\n")
rt("arg_builtin",
   "do f(n) start\n" + BASE % "\"s\"" + "    return to_string(f(n add 1))\nend\n", "shout(f(0))\n",
   covers=["eval_builtin_call"])
rt("arg_typeof",
   "do f(n) start\n" + BASE % "\"s\"" + "    return typeof(f(n add 1))\nend\n", "shout(f(0))\n")
# -- conditions -------------------------------------------------------------------------------
rt("cond_if",
   "do f(n) start\n" + BASE % "true" + "    if to say (f(n add 1)) start\n        return true\n    end\n    return false\nend\n",
   "shout(f(0))\n")
rt("cond_else",
   "do f(n) start\n" + BASE % "false" +
   "    if to say (n small pass 0) start\n        return true\n    end\n    if not so start\n        return f(n add 1)\n    end\nend\n",
   "shout(f(0))\n")
rt("cond_loop",
   "do f(n) start\n" + BASE % "false" + "    jasi (f(n add 1)) start\n        comot\n    end\n    return false\nend\n",
   "shout(f(0))\n")
# -- nested blocks and loops inside the recursive function ------------------------------------------
rt("blocks_loops",
   "do f(n) start\n" + BASE % "0" +
   "    make r get 0\n    start\n        start\n            make i get 0\n            jasi (i small pass 1) start\n"
   "                if to say (true) start\n                    start\n                        r get f(n add 1)\n"
   "                    end\n                end\n                i get i add 1\n            end\n        end\n    end\n"
   "    return r\nend\n", "shout(f(0))\n")
rt("nested_fn",
   "do f(n) start\n" + BASE % "0" +
   "    do g(m) start\n        do h(k) start\n            return f(k add 1)\n        end\n        return h(m)\n    end\n"
   "    return g(n)\nend\n", "shout(f(0))\n")
# -- operators --------------------------------------------------------------------------------
rt("binary_rhs",
   "do f(n) start\n" + BASE % "0" + "    return 1 add f(n add 1)\nend\n", "shout(f(0))\n")
rt("binary_lhs",
   "do f(n) start\n" + BASE % "0" + "    return f(n add 1) times 1\nend\n", "shout(f(0))\n")
rt("and_rhs",
   "do f(n) start\n" + BASE % "true" + "    return true and f(n add 1)\nend\n", "shout(f(0))\n")
rt("or_rhs",
   "do f(n) start\n" + BASE % "true" + "    return false or f(n add 1)\nend\n", "shout(f(0))\n")
rt("unary_not",
   "do f(n) start\n" + BASE % "true" + "    return not f(n add 1)\nend\n", "shout(f(0))\n")
rt("unary_minus",
   "do f(n) start\n" + BASE % "1" + "    return minus f(n add 1)\nend\n", "shout(f(0))\n")
rt("deep_expr",
   "do f(n) start\n" + BASE % "0" + "    return " + "(1 add (2 times " * 12 + "f(n add 1)" + "))" * 12 + "\nend\n",
   "shout(f(0))\n")
# -- values of (nearly) maximal nesting handled at every level: the unprobed value helpers run right
#    below the budget line (copy, promote and drop; Display)
DEEP_VALUE = "make deep get [0]\nmake k get 0\njasi (k small pass 500) start\n    deep get [deep]\n    k get k add 1\nend\n"
rt("data_copy_at_depth",
   "do f(n) start\n" + BASE % "0" + "    make q get deep\n    make r get f(n add 1)\n    return r add q.len()\nend\n",
   "shout(f(0))\n", pre=DEEP_VALUE)
rt("data_display_at_depth",
   "do f(n) start\n" + BASE % "0" + "    make q get \"{deep}\"\n    make r get f(n add 1)\n    return r add q.len()\nend\n",
   "shout(f(0))\n", pre=DEEP_VALUE)
rt("interp",
   "do f(n) start\n" + BASE % "\"x\"" + "    make s get f(n add 1)\n    make t get \"v{n}:{s}\"\n    return \"{t}\"\nend\n",
   "shout(f(0))\n", covers=["eval_string_expr"])
# -- index chains and array literals -----------------------------------------------------------
rt("array_literal",
   "do f(n) start\n" + BASE % "[0]" + "    return [n, f(n add 1)]\nend\n", "make z get f(0)\nshout(z.len())\n")
rt("index_rhs",
   "make a get [0]\n"
   "do f(n) start\n" + BASE % "0" + "    return a[f(n add 1)]\nend\n", "shout(f(0))\n")
rt("index_base",
   "do f(n) start\n" + BASE % "[[0]]" + "    return [f(n add 1)[0]]\nend\n", "make z get f(0)\nshout(z.len())\n")
rt("index_chain",
   "make a get [[[0]]]\n"
   "do f(n) start\n" + BASE % "0" + "    return a[0][f(n add 1)][0]\nend\n", "shout(f(0))\n")
rt("assign_index",
   "make a get [[1]]\n"
   "do f(n) start\n" + BASE % "0" + "    a[0][f(n add 1)] get n\n    return 0\nend\n", "shout(f(0))\n",
   covers=["assign_index", "eval_index_value"])
rt("assign_index_value",
   "make a get [[1]]\n"
   "do f(n) start\n" + BASE % "0" + "    a[0][0] get f(n add 1)\n    return 0\nend\n", "shout(f(0))\n")
# -- method-call chains ------------------------------------------------------------------------
rt("method_receiver",
   "do f(n) start\n" + BASE % "\"ab\"" + "    return f(n add 1).trim().to_uppercase()\nend\n", "shout(f(0))\n",
   covers=["eval_member_call", "eval_string_member_call"])
rt("method_arg_slice",
   "do f(n) start\n" + BASE % "0" + "    return \"abc\".slice(f(n add 1), 2).len()\nend\n", "shout(f(0))\n",
   covers=["eval_string_member_call"])
rt("method_arg_find",
   "do f(n) start\n" + BASE % "\"a\"" + "    return to_string(\"abc\".find(f(n add 1)))\nend\n", "shout(f(0))\n")
rt("method_arg_replace",
   "do f(n) start\n" + BASE % "\"a\"" + "    return \"abc\".replace(\"a\", f(n add 1))\nend\n", "shout(f(0))\n")
rt("method_arg_split",
   "do f(n) start\n" + BASE % "\"a\"" + "    return \"abc\".split(f(n add 1)).join(\"-\")\nend\n", "shout(f(0))\n")
rt("method_arg_join",
   "do f(n) start\n" + BASE % "\"a\"" + "    return [\"x\", \"y\"].join(f(n add 1))\nend\n", "shout(f(0))\n",
   covers=["eval_array_member_call"])
rt("method_push",
   "make a get [[1]]\n"
   "do f(n) start\n" + BASE % "0" + "    a.push(f(n add 1))\n    return 0\nend\n", "shout(f(0))\n",
   covers=["eval_array_member_call_mut"])
rt("method_push_index",
   "make a get [[1]]\n"
   "do f(n) start\n" + BASE % "0" + "    a[f(n add 1)].push(n)\n    return 0\nend\n", "shout(f(0))\n",
   covers=["get_mutable_array", "eval_index_value"])
rt("method_number",
   "do f(n) start\n" + BASE % "0" + "    return f(n add 1).abs().floor()\nend\n", "shout(f(0))\n")
# -- process-command builders (no process is started) -------------------------------------------
rt("command_arg",
   "make c get command(\"true\")\n"
   "do f(n) start\n" + BASE % "\"x\"" + "    c.arg(f(n add 1))\n    return \"y\"\nend\n", "shout(f(0))\n",
   covers=["eval_process_command_call_mut"])
rt("command_env",
   "make c get command(\"true\")\n"
   "do f(n) start\n" + BASE % "\"x\"" + "    c.env(\"K\", f(n add 1))\n    return \"y\"\nend\n", "shout(f(0))\n",
   covers=["eval_process_command_call_mut", "eval_required_string"])
rt("command_cwd",
   "make c get command(\"true\")\n"
   "do f(n) start\n" + BASE % "\"x\"" + "    c.cwd(f(n add 1))\n    return \"y\"\nend\n", "shout(f(0))\n",
   covers=["eval_required_string"])
rt("command_timeout",
   "make c get command(\"true\")\n"
   "do f(n) start\n" + BASE % "5" + "    c.timeout_ms(f(n add 1))\n    return 5\nend\n", "shout(f(0))\n",
   covers=["eval_timeout_ms"])
rt("command_index",
   "make cs get [command(\"true\")]\n"
   "do f(n) start\n" + BASE % "0" + "    cs[f(n add 1)].arg(\"a\")\n    return 0\nend\n", "shout(f(0))\n",
   covers=["get_mutable_process_command"])
rt("command_name",
   "do f(n) start\n" + BASE % "\"x\"" + "    make c get command(f(n add 1))\n    c.arg(\"q\")\n    return \"y\"\nend\n", "shout(f(0))\n")


# -- bare recursion: no parameter, no base case, nothing evaluated on the cycle except the call itself --------
# Every shape above evaluates a condition and an argument at each level, so some probed function is entered on
# every cycle whatever path the call itself takes. These do not: the ONLY thing on the cycle is the construct
# named by the shape, so a construct that reaches the callee without passing a probe (e.g. a shortcut for
# `return <call>`) overflows the native stack here and nowhere else. At a small limit the functions are
# defined but not called (they cannot terminate), which still validates that the program is well formed.
def bare(name, defs, call):
    def src(limit):
        return defs + (call if limit >= INF else "shout(0)\n")
    RT["bare_" + name] = {"kind": "rt", "construct": "bare_" + name, "src": src, "covers": [], "base_case": False}


bare("return", "do spin() start\n    return spin()\nend\n", "shout(spin())\n")
bare("stmt", "do spin() start\n    spin()\nend\n", "spin()\n")
bare("pingpong", "do ping() start\n    return pong()\nend\ndo pong() start\n    return ping()\nend\n", "shout(ping())\n")
bare("cycle3", "do a() start\n    return b()\nend\ndo b() start\n    return c()\nend\ndo c() start\n    return a()\nend\n",
     "shout(a())\n")
bare("pingpong_stmt", "do ping() start\n    pong()\nend\ndo pong() start\n    ping()\nend\n", "ping()\n")
bare("return_in_block", "do f() start\n    start\n        return f()\n    end\nend\n", "shout(f())\n")
bare("return_in_if", "do f() start\n    if to say (true) start\n        return f()\n    end\n    return 0\nend\n", "shout(f())\n")
bare("return_in_else", "do f() start\n    if to say (false) start\n        return 0\n    end\n    if not so start\n        return f()\n    end\nend\n",
     "shout(f())\n")
bare("return_in_loop", "do f() start\n    jasi (true) start\n        return f()\n    end\nend\n", "shout(f())\n")
bare("assign", "do f() start\n    make r get f()\n    return r\nend\n", "shout(f())\n")
bare("assign_existing", "make g get 0\ndo f() start\n    g get f()\n    return g\nend\n", "shout(f())\n")
bare("assign_index_value", "make a get [0]\ndo f() start\n    a[0] get f()\n    return 0\nend\n", "shout(f())\n")
bare("arg", "do id(x) start\n    return x\nend\ndo f() start\n    return id(f())\nend\n", "shout(f())\n")
bare("builtin_arg", "do f() start\n    shout(f())\nend\n", "f()\n")
bare("method", "do f() start\n    return f().len()\nend\n", "shout(f())\n")
bare("index", "do f() start\n    return f()[0]\nend\n", "shout(f())\n")
bare("not", "do f() start\n    return not f()\nend\n", "shout(f())\n")
bare("array", "do f() start\n    return [f()]\nend\n", "shout(f())\n")
bare("cond", "do f() start\n    if to say (f()) start\n        return true\n    end\n    return false\nend\n", "shout(f())\n")
bare("nested_fn", "do f() start\n    do g() start\n        return f()\n    end\n    return g()\nend\n", "shout(f())\n")

# ------------------------------------------------------------------------------------------------
# source nesting
NEST = {}


def nest(name, fn, construct=None, expect="any"):
    NEST[name] = {"kind": "nest", "construct": construct or name, "src": fn, "expect": expect}


def rep(unit, n, per_line=40):
    """`unit` repeated n times with a newline every `per_line` repetitions (keeps the lines that the
    diagnostic renderer prints short; a newline is plain whitespace to the lexer)."""
    full, rest = divmod(n, per_line)
    line = unit * per_line + "\n"
    return line * full + unit * rest


def dead(body):
    """Parsed and resolved but never evaluated (the chain would be ill-typed at run time)."""
    return "if to say (false) start\n" + body + "end\n"


nest("paren", lambda n: "make x get " + rep("(", n) + "1" + rep(")", n) + "\nshout(x)\n")
nest("not", lambda n: "make x get " + rep("not ", n) + "true\nshout(x)\n")
nest("neg", lambda n: "make x get " + rep("minus ", n) + "1\nshout(x)\n")
nest("array", lambda n: "make x get " + rep("[", n) + "1" + rep("]", n) + "\nshout(x.len())\n")
nest("block", lambda n: rep("start ", n) + "\n" + rep("end ", n) + "\n")
nest("if", lambda n: rep("if to say (true) start ", n, 8) + "\n" + rep("end ", n) + "\n")
nest("else", lambda n: rep("if to say (false) start end if not so start ", n, 4) + "\n" + rep("end ", n) + "\n")
nest("loop", lambda n: rep("jasi (false) start ", n, 8) + "\n" + rep("end ", n) + "\n")
nest("fndef", lambda n: "".join(f"do f{i}() start" + ("\n" if i % 8 == 7 else " ") for i in range(n)) + "\n" + rep("end ", n) + "\n")
nest("call_args", lambda n: "do f(x) start\n    return x\nend\nmake y get " + rep("f(", n) + "1" + rep(")", n) + "\nshout(y)\n")
nest("builtin_args", lambda n: "make y get " + rep("to_string(", n, 10) + "1" + rep(")", n) + "\nshout(y)\n",
     construct="call_args")
nest("method_args", lambda n: "make y get " + rep("\"a\".replace(\"a\", ", n, 4) + "\"b\"" + rep(")", n) + "\nshout(y)\n",
     construct="call_args")
nest("index_nest", lambda n: "make a get [0]\nmake y get " + rep("a[", n) + "0" + rep("]", n) + "\nshout(y)\n")
nest("paren_binary", lambda n: "make x get " + rep("(1 add ", n, 10) + "1" + rep(")", n) + "\nshout(x)\n",
     construct="paren")
# iterative in the parser (loop in parse_expression_continuation), left-nested AST of depth n
nest("binary_chain", lambda n: "make x get 1" + rep(" add 1", n, 10) + "\nshout(x)\n")
nest("and_chain", lambda n: "make x get true" + rep(" and true", n, 10) + "\nshout(x)\n", construct="binary_chain")
nest("method_chain", lambda n: "make y get \"a\"" + rep(".trim()", n, 10) + "\nshout(y)\n")
nest("index_chain", lambda n: "make a get [0]\n" + dead("make y get a" + rep("[0]", n, 20) + "\nshout(y)\n"))
nest("call_chain", lambda n: "do f() start\n    return 0\nend\n" + dead("make y get f" + rep("()", n, 20) + "\nshout(y)\n"))
nest("member_chain", lambda n: dead("make y get \"a\"" + rep(".b", n, 20) + "\nshout(y)\n"))
nest("assign_index_chain", lambda n: "make a get [0]\n" + dead("a" + rep("[0]", n, 20) + " get 1\n"))
# lexer recursion (D-07c): the invalid-number path re-enters next_token
nest("lex_number", lambda n: "make x get " + rep("1.a ", n, 10) + "\n", construct="invalid_number")


# -- bare runs of every prefix / bracketing construct in further positions and in pairwise mixtures: a run with
#    NOTHING else on the cycle is what finds a helper that re-enters itself (or its sibling) without going back
#    through the probed entry point; `n` always counts nesting LEVELS (a mixture of two constructs has n/2 pairs)
nest("not_neg", lambda n: "make x get " + rep("not minus ", n // 2, 20) + "1\nshout(x)\n")
nest("neg_not", lambda n: "make x get " + rep("minus not ", n // 2, 20) + "true\nshout(x)\n")
nest("not_paren", lambda n: "make x get " + rep("not (", n // 2) + "true" + rep(")", n // 2) + "\nshout(x)\n")
nest("neg_paren", lambda n: "make x get " + rep("minus (", n // 2) + "1" + rep(")", n // 2) + "\nshout(x)\n")
nest("paren_array", lambda n: "make x get " + rep("([", n // 2) + "1" + rep("])", n // 2) + "\nshout(x.len())\n")
nest("array_multi", lambda n: "make x get " + rep("[0, ", n) + "0" + rep("]", n) + "\nshout(x.len())\n")
nest("call_args2", lambda n: "do pick(x, y) start\n    return y\nend\nmake y get " + rep("pick(0, ", n, 20) + "1" + rep(")", n)
     + "\nshout(y)\n")
nest("call_index_mix", lambda n: "do f(x) start\n    return x\nend\nmake a get [0]\nmake y get " + rep("a[f(", n // 2) + "0"
     + rep(")]", n // 2) + "\nshout(y)\n")
nest("assign_index_nest", lambda n: "make a get [0]\na[" + rep("a[", n) + "0" + rep("]", n) + "] get 1\n")
nest("arg_not", lambda n: "shout(" + rep("not ", n) + "true)\n")
nest("cond_paren", lambda n: "if to say (" + rep("(", n) + "true" + rep(")", n) + ") start\nend\n")
nest("cond_not", lambda n: "jasi (" + rep("not ", n) + "true) start\n    comot\nend\n")
nest("return_neg", lambda n: "do f() start\n    return " + rep("minus ", n) + "1\nend\nshout(f())\n")
# statement towers with literal-true and with variable conditions (the `if`/`loop` shapes above never enter a body
# below the first level at run time only when the condition is false: `if` uses true, `loop` uses false)
nest("loop_true", lambda n: rep("jasi (true) start ", n, 8) + "\n" + rep("comot end ", n, 20) + "\n")
nest("if_var", lambda n: "make t get true\n" + rep("if to say (t) start ", n, 8) + "\n" + rep("end ", n) + "\n")
nest("loop_var", lambda n: "make t get true\n" + rep("jasi (t) start ", n, 8) + "\n" + rep("comot end ", n, 20) + "\n")
nest("stmt_mix", lambda n: rep("start if to say (true) start jasi (true) start ", n // 3, 4) + "\n"
     + rep("comot end end end ", n // 3, 10) + "\n")


# FLAT operator chains (built by the Pratt loop without recursion: only the checker's and the evaluator's probes
# bound them) in every position an expression can take, incl. positions that are walked by a read-only pass BEFORE
# the checking walk: the `return` expression of a function (return-type pre-pass), the first argument of
# `command(..)`, typed method arguments (seed C08-d2)
def _flat(n, op="add", leaf="1"):
    return rep(f"{leaf} {op} ", n, 60) + leaf


nest("flat_return", lambda n: "do f() start\n    return " + _flat(n) + "\nend\nshout(f())\n")
nest("flat_return_and", lambda n: "do f() start\n    return " + _flat(n, "and", "true") + "\nend\nshout(f())\n")
nest("flat_make", lambda n: "make x get " + _flat(n) + "\nshout(x)\n")
nest("flat_cond", lambda n: "if to say (" + _flat(n) + " pass 0) start\nend\n")
nest("flat_arg", lambda n: "do f(x) start\n    return x\nend\nshout(f(" + _flat(n) + "))\n")
nest("flat_command_arg", lambda n: "make c get command(" + _flat(n, "add", "\"a\"") + ")\nshout(typeof(c))\n")
nest("flat_method_arg", lambda n: "shout(\"abc\".find(" + _flat(n, "add", "\"a\"") + "))\n")
nest("flat_index", lambda n: "make a get [1]\nshout(a[" + _flat(n, "times", "0") + "])\n")
nest("flat_return_nested_fn", lambda n: "do g() start\n    do f() start\n        return " + _flat(n) + "\n    end\n    return f()\nend\nshout(g())\n")

# constructs the parser builds with a LOOP: their depth is not bounded by the parser's own probe, so a helper that
# recurses on them with a small frame needs far more levels than the nested constructs to overrun 8 MiB
CHAINS = ["binary_chain", "and_chain", "method_chain", "index_chain", "call_chain", "member_chain", "assign_index_chain"]


def stage_cut(src, stage):
    """Make the CLI stop after `stage`: a trailing syntax error ends the run after the parser, a
    trailing semantic error ends it after the resolver (which includes the analyses: cfg, liveness)."""
    if stage == "parser":
        return src + ")\n"
    if stage == "resolver":
        return src + "shout(zz_not_declared_zz)\n"
    return src


# ------------------------------------------------------------------------------------------------
# data nesting
DATA = {}


def data(name, fn, construct=None):
    DATA[name] = {"kind": "data", "construct": construct or name, "src": fn}


def _wrap_loop(n, tail, chunk):
    """Reach data depth ~n with n/chunk assignments, each wrapping `chunk` levels at once: every
    assignment copies the whole value (clone_into on the read, promote on the store, drop glue of the
    old value), so memory is O(n^2/chunk) and the arena (256 MiB) survives n of several 10^4."""
    lit = "[" * chunk + "a" + "]" * chunk
    it = max(1, n // chunk)
    return ("make a get [0]\nmake i get 0\n"
            f"jasi (i small pass {it}) start\n    a get {lit}\n    i get i add 1\nend\n" + tail)


# chunk: literal nesting per assignment; 200 keeps the evaluation of the literal itself far below the
# stack budget in the debug profile (about 8 KiB of native stack per literal level there)
CHUNK = {"debug": 200, "release": 500}

# plain wrapping, one level per assignment: memory runs out (abort "memory allocation failed") near
# depth 4000, long before any stack limit -- kept to document exactly that
data("wrap", lambda n, chunk=1: _wrap_loop(n, "shout(a.len())\n", 1), construct="wrap_plain")
data("wrap_chunk", lambda n, chunk=500: _wrap_loop(n, "shout(a.len())\n", chunk), construct="copy")
data("wrap_chunk_shout", lambda n, chunk=500: _wrap_loop(n, "shout(a)\n", chunk), construct="display")
data("wrap_chunk_interp", lambda n, chunk=500: _wrap_loop(n, "make s get \"{a}\"\nshout(s.len())\n", chunk),
     construct="display")
data("wrap_chunk_tostring", lambda n, chunk=500: _wrap_loop(n, "shout(to_string(a).len())\n", chunk), construct="display")
data("wrap_chunk_join", lambda n, chunk=500: _wrap_loop(n, "shout(a.join(\",\").len())\n", chunk), construct="join")
data("wrap_chunk_pass", lambda n, chunk=500: "do id(x) start\n    return x\nend\n"
     + _wrap_loop(n, "make b get id(a)\nshout(b.len())\n", chunk), construct="copy")
data("wrap_chunk_push", lambda n, chunk=500: _wrap_loop(n, "make b get []\nb.push(a)\nshout(b.len())\n", chunk),
     construct="copy")


# the deep part BEHIND shallower sibling arrays (association-list cells `[[key, value], rest]`, `[0, [1], rest]`):
# a depth measure that follows the first array element, or the first element, sees depth 2 (seed C08-d1)
def _wrap_loop_sibling(n, tail, chunk, head):
    lit = (head * chunk) + "a" + "]" * chunk
    it = max(1, n // chunk)
    return ("make a get [0]\nmake i get 0\n"
            f"jasi (i small pass {it}) start\n    a get {lit}\n    i get i add 1\nend\n" + tail)


for _nm, _head in (("assoc", "[[0, 1], "), ("mixed", "[0, [1], "), ("three", "[[0], [[1]], ")):
    data(_nm + "_chunk", lambda n, chunk=500, h=_head: _wrap_loop_sibling(n, "shout(a.len())\n", chunk, h), construct="copy")
    data(_nm + "_chunk_shout", lambda n, chunk=500, h=_head: _wrap_loop_sibling(n, "shout(a)\n", chunk, h), construct="display")
    data(_nm + "_chunk_pass", lambda n, chunk=500, h=_head: "do id(x) start\n    return x\nend\n"
         + _wrap_loop_sibling(n, "make b get id(a)\nshout(b.len())\n", chunk, h), construct="copy")
    data(_nm + "_chunk_join", lambda n, chunk=500, h=_head: _wrap_loop_sibling(n, "shout(a.join(\",\").len())\n", chunk, h),
         construct="join")


# depth added by GRAFTING: a template of `t` levels whose innermost element is an array is copied and the value
# built so far is stored over that innermost array by one index assignment with t-1 subscripts — each round adds
# t-1 levels through `assign_index` alone (seed C08-e1: the nesting check skipped when the overwritten element is
# already an array); also through `push` onto the innermost array and through a function that does the store
def _graft(n, tail, t=200, how="assign"):
    idx = "[0]" * (t - 2)   # reaches the innermost ARRAY of the template (depth t-1)
    store = {"assign": f"    g{idx} get acc\n",
             "push": f"    g{idx}.pop()\n    g{idx}.push(acc)\n",
             "fn": "    g get put(g, acc)\n"}[how]
    pre = ""
    if how == "fn":
        pre = f"do put(g, v) start\n    g{idx} get v\n    return g\nend\n"
    rounds = max(1, n // (t - 2))
    return (pre + "make tpl get [0]\nmake k get 0\n"
            f"jasi (k small pass {t - 2}) start\n    tpl get [tpl]\n    k get k add 1\nend\n"
            "make acc get tpl\nmake r get 0\n"
            f"jasi (r small pass {rounds}) start\n    make g get tpl\n{store}    acc get g\n    r get r add 1\nend\n" + tail)


for _how in ("assign", "push", "fn"):
    data("graft_" + _how, lambda n, chunk=500, h=_how: _graft(n, "shout(acc.len())\n", how=h), construct="copy")
    data("graft_" + _how + "_shout", lambda n, chunk=500, h=_how: _graft(n, "shout(acc)\n", how=h), construct="display")


# ------------------------------------------------------------------------------------------------
# composite shapes: recursion THEN tower
#
# `open`/`close` are repeated n times around `leaf`; statement towers form the body of `tower()`, expression
# towers are the argument of one call statement (an expression statement is never pruned as a dead store).
# `literal`: the tower's conditions are boolean literals (nothing has to be evaluated to descend).
TOWERS = {}


def tower(name, open_, leaf, close, expr=False, pre="", literal=False, per_line=8):
    TOWERS[name] = {"open": open_, "leaf": leaf, "close": close, "expr": expr, "pre": pre, "literal": literal,
                    "per_line": per_line}


_T = "    make t get true\n"
_U = "    make u get false\n"
tower("if_true", "if to say (true) start ", "tw_id(0)\n", "end ", literal=True)
tower("if_var", "if to say (t) start ", "tw_id(0)\n", "end ", pre=_T)
tower("if_cmp", "if to say (1 na 1) start ", "tw_id(0)\n", "end ")
tower("else_false", "if to say (false) start end if not so start ", "tw_id(0)\n", "end ", literal=True, per_line=4)
tower("else_var", "if to say (u) start end if not so start ", "tw_id(0)\n", "end ", pre=_U, per_line=4)
tower("loop_true", "jasi (true) start ", "tw_id(0)\n", "comot end ", literal=True)
tower("loop_var", "jasi (t) start ", "tw_id(0)\n", "comot end ", pre=_T)
tower("block", "start ", "tw_id(0)\n", "end ", literal=True, per_line=20)
# nothing at all is evaluated inside these two: no probe can come from the leaf either
tower("if_true_empty", "if to say (true) start ", "", "end ", literal=True)
tower("loop_true_empty", "jasi (true) start ", "", "comot end ", literal=True)
tower("array", "[", "0", "]", expr=True, literal=True, per_line=40)
tower("paren", "(", "0", ")", expr=True, literal=True, per_line=40)
tower("paren_binary", "(1 add ", "0", ")", expr=True, literal=True, per_line=10)
tower("neg", "minus ", "1", "", expr=True, literal=True, per_line=20)
tower("call", "tw_id(", "0", ")", expr=True, per_line=20)
tower("builtin", "typeof(", "0", ")", expr=True, per_line=10)
tower("index", "ix[", "0", "]", expr=True, pre="    make ix get [0]\n", per_line=20)


def tower_fn(kind, n):
    """`do tower() start <n levels of `kind`> return 1 end` (plus the identity helper the towers use)."""
    t = TOWERS[kind]
    if t["expr"]:
        body = "tw_id(" + rep(t["open"], n, t["per_line"]) + t["leaf"] + rep(t["close"], n, 40) + ")\n"
    else:
        body = rep(t["open"], n, t["per_line"]) + "\n" + t["leaf"] + rep(t["close"], n, 20) + "\n"
    return "do tw_id(x) start\n    return x\nend\ndo tower() start\n" + t["pre"] + body + "    return 1\nend\n"


_BASE_HEAD = "    if to say (n pass %d) start\n"


def composite(rt_name, kind, d, n):
    """Recursion shape `rt_name` driven to depth `d`; its base case calls `tower()` (an `n`-level tower of
    `kind`) before it returns.  Must end in `Stack overflow`, an ordinary diagnostic or normally."""
    sh = RT[rt_name]
    if not sh.get("base_case"):
        raise ValueError(f"recursion shape {rt_name} has no parametrised base case")
    head = _BASE_HEAD % d
    src = sh["src"](d)
    if head + "        return" not in src:
        raise ValueError(f"recursion shape {rt_name}: base case not found")
    return tower_fn(kind, n) + src.replace(head + "        return", head + "        tower()\n        return")


COMPOSITE_RT = [k for k, v in RT.items() if v.get("base_case")]


ALL = {}
ALL.update(RT)
ALL.update(NEST)
ALL.update(DATA)
