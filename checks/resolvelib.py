"""Shared pieces of the checks that depend on the resolver model (family `resolve`): C09 (owner),
C04 (static half), C01/C06 (the resolved program is their input).

  resolve_obligations(ck, props=("C09", "C04Static"))   Lean obligations of the resolver unit
  resolve_streams(ck, tier, sizes=None)                 corpus + generated streams through three comparisons:
        model-vs-impl   `resolve` answers of the real resolver vs `Model/Resolve.lean`            (the tie)
        impl-vs-spec    `wf` answers: the real resolver's scoping diagnostics vs `Spec/WF.lean`   (oracle, no model)
        impl-vs-oracle  ORACLE-FAIL lines of `nvh resolve run` (bindings name the occurrence, jumps, `exp=` tags)
        accept-vs-WF    acceptance by the real resolver vs the documented judgement `Spec.WF`     (oracle, no model)
  resolve_findings(ck)                                  witnesses of the known defects (KNOWN-FINDING lines)
  resolve_search(ck, res)                               shrink a failing program and report it

`nvh resolve run` answers inside a supervised worker: a program on which the checker does not return or
kills the process is answered `diags=? end=hang` / `diags=? end=abort:<status>` (and reported as
`ORACLE-FAIL … [C07]`), the requests after the 4th such case `unrun`; `crashed(out)` lists them.
"""
import glob
import os
import re
import time

from common import DRIVER, VERIF, MachineryError, sh

CORPUS_DIRS = ("resolve", "C09")


def resolve_obligations(ck, props=("C09", "C04Static")):
    return ck.lean_obligations([f"NaijaVerif.Props.{p}" for p in props])


def corpus_requests():
    out = []
    for d in CORPUS_DIRS:
        for path in sorted(glob.glob(os.path.join(VERIF, "corpus", d, "*.req"))):
            out.extend(l for l in open(path).read().splitlines() if l.strip())
    return out


def src_of(req):
    try:
        return bytes.fromhex(req.split()[1]).decode(errors="replace") if req.split()[1] != "-" else ""
    except Exception:  # noqa: BLE001
        return "<undecodable>"


def exp_of(req):
    m = re.search(r" exp=(\S+) ast=", req)
    return m.group(1) if m else None


def as_kind(req, kind):
    return kind + req[req.index(" "):]


def driver_lines(requests):
    if not os.path.exists(DRIVER):
        raise MachineryError("nvdriver is not built")
    p = sh([DRIVER, "resolve"], inp=("\n".join(requests) + "\n").encode(), timeout=1800)
    lines = p.stdout.decode(errors="replace").splitlines()
    if p.returncode != 0 or len(lines) != len(requests):
        raise MachineryError(f"nvdriver resolve failed: rc={p.returncode} {len(lines)}/{len(requests)}")
    return lines


def mk_requests(ck, sources, exp=None):
    """Request lines for source programs (the AST comes from the real parser)."""
    text = "\n".join(s.replace("\n", "\\n") for s in sources) + "\n"
    cmd = [ck.nvh(), "resolve", "mk"] + (["--exp", exp] if exp else [])
    p = sh(cmd, inp=text.encode())
    if p.returncode != 0:
        raise MachineryError("nvh resolve mk failed: " + p.stderr.decode(errors="replace")[-300:])
    return p.stdout.decode().splitlines()


def default_sizes(tier):
    # `rec`: (mutually) recursive functions returning comparisons / arithmetic of call results with
    # literals of other types (return-type inference must terminate); kept last so that a checker
    # that hangs on them does not leave the other streams unrun.
    # `ret`: static result types of functions (fix D-09b) — a `return` naming a variable / calling a function
    # that the function, its defining block, or only the enclosing code binds; the result used in a typed
    # position; the expectation (`exp=ok` / `exp=<rule>@ret:use`) comes from the documented rule alone
    if tier == "quick":
        return {"valid": 1500, "viol": 2500, "mixed": 1500, "ret": 1200, "rec": 400}
    return {"valid": 40000, "viol": 60000, "mixed": 40000, "ret": 30000, "rec": 10000}


def did_not_return(answer):
    """The implementation's answer says that the checker did not come back with diagnostics or facts:
    `… end=panic`, `panic <msg>`, `diags=? end=hang`, `diags=? end=abort:<status>` (same for `viol=?`)."""
    a = answer.rstrip()
    if a in ("unrun", "ast-mismatch", "bad-op"):
        return False
    return a.startswith("panic") or bool(re.search(r" end=(panic|hang|abort\S*)$", a))


def crashed(out):
    """[(request, answer)] of the `resolve` stream on which the static checker did not return."""
    return [(r, a) for r, a in zip(out["requests"], out["resolve"]["impl_lines"]) if did_not_return(a)]


def resolve_streams(ck, tier, sizes=None, seed_shift=0):
    """Runs all streams; returns {'requests', 'failures'} where failures is a list of dicts
    {kind, request, what} of property-level failures on concrete programs (impl-vs-spec,
    impl-vs-oracle, accept-vs-WF). Model-vs-impl disagreements stay in ck.disagreements."""
    sizes = sizes or default_sizes(tier)
    reqs = corpus_requests()
    ck.count("corpus_requests", len(reqs))
    ck.seed += seed_shift
    for kind, n in sizes.items():
        got = ck.gen("resolve", ["--n", n, "--kind", kind])
        ck.count(f"generated_{kind}", len(got))
        reqs.extend(got)
    ck.seed -= seed_shift
    failures = []
    n_or = len(ck.oracle_fails)
    res = ck.corr("resolve", reqs, label="resolve")
    for f in ck.oracle_fails[n_or:]:
        failures.append({"kind": "impl-vs-oracle", "request": f["request"], "what": f["what"]})
    # every ORACLE-FAIL line, not only the first 20 kept by ck.corr
    for l in res["stderr"]:
        m = re.match(r"ORACLE-FAIL (\d+) (.*)", l)
        if m and len(failures) < 200:
            r = reqs[int(m.group(1)) - 1]
            if not any(f["request"] == r for f in failures):
                failures.append({"kind": "impl-vs-oracle", "request": r, "what": m.group(2)})
    # impl vs declarative spec (scoping rules)
    n_dis = len(ck.disagreements)
    wf = ck.corr("resolve", [as_kind(r, "wf") for r in reqs], label="resolve-wf(impl-vs-spec)")
    spec_dis = ck.disagreements[n_dis:]
    del ck.disagreements[n_dis:]
    for i, (a, b) in enumerate(zip(wf["impl_lines"], wf["model_lines"])):
        if a != b and a != "unrun" and not did_not_return(a) and len(failures) < 400:
            failures.append({"kind": "impl-vs-spec", "request": reqs[i],
                             "what": f"scoping diagnostics of the resolver: {a[:300]} ; violations by the specification: {b[:300]}"})
    ck.count("impl_vs_spec_disagreements", len(spec_dis))
    # acceptance vs the documented judgement WF (typing included)
    full = driver_lines([as_kind(r, "full") for r in reqs])
    ck.evaluations += len(reqs)
    agree = 0
    for r, impl, m in zip(reqs, res["impl_lines"], full):
        if not impl.startswith("diags=") or impl.startswith("diags=?"):
            continue   # not run / no verdict (hang, abort): reported by the [C07] oracle line
        accepted = impl.startswith("diags=- ")
        wf_ok = m.startswith("wf=1")
        # how many programs satisfy the explicit hypothesis of `c09_full_partial` (Spec.ReturnsTyped)
        ck.count("returns_typed_hypothesis_holds" if m.endswith(" rt=1") else "returns_typed_hypothesis_fails")
        if exp_of(r) is None and not wf_ok and not accepted:
            agree += 1
            continue
        if accepted != wf_ok:
            # the mixed stream has no claim to avoid the known typing findings: only well-formedness
            # claims of the typed generators (`exp=`) are decided here
            if exp_of(r) is None:
                ck.count("mixed_accept_vs_wf_differences")
                continue
            failures.append({"kind": "accept-vs-WF", "request": r,
                             "what": f"resolver {'accepts' if accepted else 'rejects'}, documented rules say "
                                     f"{'well-formed' if wf_ok else 'ill-formed'} ({m})"})
        else:
            agree += 1
    ck.count("accept_vs_wf_agreements", agree)
    coverage(ck, reqs, res)
    return {"requests": reqs, "failures": failures, "resolve": res}


def coverage(ck, reqs, res):
    """Distribution: rule x nesting context x site of the injected violations; constructs of the
    well-formed programs; non-trivial = a violation program, or a program with a function and a
    nested scope."""
    rules, ctxs = {}, {}
    for r, impl in zip(reqs, res["impl_lines"]):
        e = exp_of(r)
        src = src_of(r)
        if e and "@" in e:
            rule, rest = e.split("@", 1)
            path, _, site = rest.partition(":")
            rules[rule] = rules.get(rule, 0) + 1
            key = f"{rule}@{path_class(path)}:{site.replace('-istr', '') if site.endswith('-istr') else site}"
            ctxs[key] = ctxs.get(key, 0) + 1
            ck.nontrivial_case(src)
        elif "do " in src and ("jasi" in src or "if to say" in src or "\nstart" in src):
            ck.nontrivial_case(src)
        if "panic" in impl[-12:]:
            ck.count("resolver_panics")
    ck.extra_cov["violations_by_rule"] = rules
    ck.extra_cov["violation_rule_x_context_cells"] = len(ctxs)
    ck.extra_cov["violation_rule_x_context_top"] = dict(sorted(ctxs.items(), key=lambda kv: -kv[1])[:40])
    if len(ck.samples) < 3:
        for r, impl in zip(reqs, res["impl_lines"]):
            if exp_of(r) and "@" in exp_of(r) and len(src_of(r)) < 200:
                ck.samples.append({"program": src_of(r), "expectation": exp_of(r), "impl_diags": impl.split(" ", 1)[0]})
                if len(ck.samples) >= 3:
                    break


def path_class(path):
    """Nesting context of an injection: top | in function | in loop | function-in-loop | loop-in-function | ..."""
    if path == "top":
        return "top"
    p = path.replace("I", "").replace("B", "")
    tags = []
    if "F" in path:
        tags.append("fn")
    if "L" in path:
        tags.append("loop")
    if "LF" in p:
        tags.append("fn-in-loop")
    if "I" in path or "B" in path:
        tags.append("blk")
    return "+".join(tags) or "blk"


FINDING_DIR = {"accept": (True, False), "reject": (False, True)}   # (accepted by impl, WF by the documents)


def resolve_findings(ck, n=60):
    """Witnesses of the known defects of the static checker. A witness still behaving as recorded is
    reported through ck.report_violation with its narrow signature (KNOWN-FINDING when listed)."""
    reqs = ck.gen("resolve", ["--n", n, "--kind", "findings"])
    res = ck.corr("resolve", reqs, label="resolve-findings")
    full = driver_lines([as_kind(r, "full") for r in reqs])
    seen = {}
    for r, impl, m in zip(reqs, res["impl_lines"], full):
        tag = exp_of(r) or ""
        parts = tag.split(":")
        if len(parts) != 4 or parts[0] != "finding":
            continue
        _, defect, shape, direction = parts
        accepted = impl.startswith("diags=- ")
        wf_ok = m.startswith("wf=1")
        if (accepted, wf_ok) == FINDING_DIR[direction]:
            sig = {"defect": defect, "shape": shape, "direction": direction}
            seen.setdefault(str(sig), (sig, r, impl, m))
        elif accepted == wf_ok:
            ck.count(f"finding_no_longer_reproduces_{defect}_{shape}")
    for sig, r, impl, m in seen.values():
        ck.count(f"finding_reproduced_{sig['defect']}_{sig['shape']}_{sig['direction']}")
        ck.report_violation({"kind": "accept-vs-WF", "family": "resolve", "signature": sig,
                             "what": f"resolver {'accepts' if sig['direction'] == 'accept' else 'rejects'} a program the "
                                     f"documented rules call {'ill-formed' if sig['direction'] == 'accept' else 'well-formed'}",
                             "program": src_of(r), "requests": [r], "impl": impl[:400], "spec": m,
                             "replay_cmd": f"./check {ck.pid} --replay <this file>"})
    return seen


def _fails(ck, req, kind, what=None):
    """Does the request still fail in the given way?"""
    inp = (req + "\n").encode()
    if kind == "impl-vs-oracle":
        p = sh([ck.nvh(), "resolve", "run"], inp=inp)
        err = p.stderr.decode(errors="replace")
        if what is None:
            return "ORACLE-FAIL" in err
        # the same oracle must fail (first words of its message; for a rejected well-formed
        # program also the same diagnostic category)
        key = " ".join(what.split()[:3])
        cat = re.search(r"error:semantic:([A-Za-z_`]+):", what)
        return any(key in l and (cat is None or cat.group(1) in l) for l in err.splitlines() if "ORACLE-FAIL" in l)
    if kind == "impl-vs-spec":
        w = as_kind(req, "wf")
        a = sh([ck.nvh(), "resolve", "run"], inp=(w + "\n").encode()).stdout
        b = sh([DRIVER, "resolve"], inp=(w + "\n").encode()).stdout
        return a != b
    if kind == "accept-vs-WF":
        a = sh([ck.nvh(), "resolve", "run"], inp=inp).stdout.decode(errors="replace")
        b = sh([DRIVER, "resolve"], inp=(as_kind(req, "full") + "\n").encode()).stdout.decode(errors="replace")
        return a.startswith("diags=") and (a.startswith("diags=- ") != b.startswith("wf=1"))
    if kind == "model-vs-impl":
        a = sh([ck.nvh(), "resolve", "run"], inp=inp).stdout
        b = sh([DRIVER, "resolve"], inp=inp).stdout
        return a != b
    if kind == "crash":
        a = sh([ck.nvh(), "resolve", "run"], inp=inp, timeout=600).stdout.decode(errors="replace")
        return did_not_return(a.splitlines()[0] if a.strip() else "panic (no answer)")
    return False


def shrink(ck, req, kind, what=None, budget=150, budget_s=240):
    """Line-wise reduction of the program (groups of 4, 2, 1 lines), keeping the same failure."""
    t0 = time.time()
    exp = exp_of(req)
    best_src, best_req = src_of(req), req
    if kind == "impl-vs-oracle" and what and what.startswith("violation of"):
        # the expectation names a construct of this very program: removing lines would remove it
        return best_src, best_req
    if (kind == "impl-vs-oracle" and exp != "ok") or kind == "crash":
        exp = None
    lines = best_src.split("\n")
    changed = True
    while changed and budget > 0:
        changed = False
        for width in (4, 2, 1):
            i = 0
            while i < len(lines) and budget > 0 and time.time() - t0 < budget_s:
                cand = lines[:i] + lines[i + width:]
                if not cand:
                    i += 1
                    continue
                budget -= 1
                r = mk_requests(ck, ["\n".join(cand)], exp=exp)[0]
                parse_clean = b"diags=-" in sh([ck.nvh(), "ast", "run"],
                                                inp=("p " + r.split()[1] + "\n").encode()).stdout[:8]
                if parse_clean and exp == "ok":
                    # a reduced "well-formed program" must still be well-formed by the documented rules
                    parse_clean = driver_lines([as_kind(r, "full")])[0].startswith("wf=1")
                if parse_clean and _fails(ck, r, kind, what):
                    lines, best_req, changed = cand, r, True
                else:
                    i += 1
    return "\n".join(lines), best_req


def resolve_search(ck, out, budget_shift=(101, 202)):
    """Something is broken (obligation, tie, or an oracle): find a concrete program on which the
    PROPERTY fails on the implementation, shrink it, report it; otherwise report the broken tie."""
    failures = list(out["failures"])
    if not failures and (ck.broken or ck.disagreements):
        sizes = ({"valid": 8000, "viol": 12000, "mixed": 4000, "rec": 2000} if ck.tier == "quick"
                 else {"valid": 80000, "viol": 120000, "mixed": 40000, "rec": 20000})
        for shift in budget_shift:
            more = resolve_streams(ck, ck.tier, sizes=sizes, seed_shift=shift)
            failures = list(more["failures"])
            if failures:
                break
    if failures:
        by_kind = {}
        for f in failures:
            by_kind.setdefault(f["kind"], []).append(f)
        for kind, fs in by_kind.items():
            f = min(fs, key=lambda x: len(src_of(x["request"])))
            src, req = shrink(ck, f["request"], kind, f["what"])
            ck.report_violation({"kind": kind, "family": "resolve", "what": f["what"], "program": src,
                                 "requests": [req], "failing_cases": len(fs),
                                 "replay_cmd": f"./check {ck.pid} --replay <this file>",
                                 "broken": ck.broken[:5], "disagreements": ck.disagreements[:2]})
    else:
        d = ck.disagreements[0] if ck.disagreements else None
        req = d["request"] if d else None
        if d:
            _src, req = shrink(ck, d["request"], "model-vs-impl")
        ck.report_violation({"kind": "tie-broken", "family": "resolve",
                             "what": "a proof obligation or the model/implementation correspondence of the resolver no "
                                     "longer checks; no program violating the static rules themselves was found",
                             "broken": ck.broken[:10], "disagreements": [
                                 {k: (v[:600] if isinstance(v, str) else v) for k, v in x.items() if k != "history"}
                                 for x in ck.disagreements[:3]],
                             "program": src_of(req) if req else None,
                             "requests": [req] if req else []}, no_input_found=True)


def resolve_replay(ck, data):
    reqs = data.get("requests", [])
    bad = 0
    for r in reqs:
        print("program:\n" + src_of(r))
        for kind in ("resolve", "wf"):
            q = as_kind(r, kind) + "\n"
            impl = sh([ck.nvh(), "resolve", "run"], inp=q.encode())
            mod = sh([DRIVER, "resolve"], inp=q.encode())
            a, b = impl.stdout.decode(errors="replace").strip(), mod.stdout.decode(errors="replace").strip()
            who = "model" if kind == "resolve" else "spec "
            print(f"[{kind}] implementation: {a[:1500]}")
            print(f"[{kind}] {who}         : {b[:1500]}")
            if impl.stderr.strip():
                print(f"[{kind}] oracle: {impl.stderr.decode(errors='replace').strip()}")
                bad += 1
            if a != b:
                print(f"[{kind}] DISAGREE")
                bad += 1
        full = sh([DRIVER, "resolve"], inp=(as_kind(r, "full") + "\n").encode()).stdout.decode().strip()
        print(f"[full] documented judgement: {full}")
    return 1 if bad else 0
