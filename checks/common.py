"""Shared machinery for ./check: builds, table extraction, Lean obligations, correspondence streams,
search, known findings, evidence and the VIOLATION / KNOWN-FINDING protocol (DESIGN.md §3)."""
import hashlib
import json
import os
import re
import subprocess
import sys
import time

VERIF = os.path.dirname(os.path.dirname(os.path.abspath(__file__)))
REPO = os.environ.get("NV_REPO", "/repo")
LEAN = os.path.join(VERIF, "lean")
HARNESS = os.path.join(VERIF, "harness")
CACHE = os.path.join(VERIF, ".cache")
TARGET = os.path.join(CACHE, "harness-target")
EVID = os.path.join(VERIF, "evidence")
REPLAYS = os.path.join(EVID, "replays")
TMP = os.path.join(CACHE, "tmp")
DRIVER = os.path.join(LEAN, ".lake", "build", "bin", "nvdriver")
ALLOWED_AXIOMS = {"propext", "Classical.choice", "Quot.sound"}
FORBIDDEN = re.compile(
    r"\bsorry\b|\badmit\b|^\s*axiom\s|native_decide|bv_decide|implemented_by|\bunsafe\s|maxHeartbeats\s+0|\bpartial\s+def\b",
    re.M)

TRUSTED_BASE = [
    "Lean 4.33 kernel (lake build; leanchecker in the thorough tier)",
    "axioms reported by #print axioms, required to be within {propext, Classical.choice, Quot.sound}",
    "extract/gen_tables.py and `nvh dump-tables` (Gen/*.lean regenerated from /repo on every run)",
    "the correspondence harness (harness/, Driver/*.lean, canonicalisers) and Lean's compiler for the driver",
    "rustc/cargo; std, memchr, OS primitives are modelled, not verified (DESIGN.md §7)",
]


MODEL_SKIPPED = "model-skipped"
MODEL_STALL_S = 90


def run_model(cmd, requests, starts=(), timeout=1800, stall=MODEL_STALL_S):
    """Answers of the model driver, one per request.  The driver is a pure function of its input, but a request can
    make it take for ever (a generated program that is cheap for the real runtime's worker — which has a time
    limit — and astronomically expensive for a fuel-bounded evaluator).  When no answer arrives for `stall`
    seconds, or the driver dies, the request it was working on is answered `model-timeout` / `model-died`, the
    rest of that history (up to the next request whose first word is in `starts`; the next request when there are
    no histories) `model-skipped`, and a fresh driver continues from there.  Returns (lines, [(index, why)])."""
    import selectors
    import subprocess
    import threading
    import time
    lines, stalls, pos, t_end = [], [], 0, time.time() + timeout
    while pos < len(requests):
        data = ("\n".join(requests[pos:]) + "\n").encode()
        p = subprocess.Popen(cmd, stdin=subprocess.PIPE, stdout=subprocess.PIPE, stderr=subprocess.DEVNULL)

        def feed(proc=p, payload=data):
            try:
                proc.stdin.write(payload)
                proc.stdin.close()
            except (BrokenPipeError, OSError):
                pass

        threading.Thread(target=feed, daemon=True).start()
        sel = selectors.DefaultSelector()
        sel.register(p.stdout, selectors.EVENT_READ)
        buf, got, why = b"", 0, None
        want = len(requests) - pos
        while got < want:
            if not sel.select(timeout=min(stall, max(1.0, t_end - time.time()))):
                why = "timeout"
                break
            chunk = os.read(p.stdout.fileno(), 1 << 20)
            if not chunk:
                why = "died"
                break
            buf += chunk
            *full, buf = buf.split(b"\n")
            for l in full:
                lines.append(l.decode(errors="replace"))
                got += 1
        sel.close()
        p.kill()
        p.wait()
        if got >= want:
            break
        k = pos + got
        stalls.append((k, why))
        lines.append("model-" + why)
        if len(stalls) >= 6 or time.time() > t_end:
            # give up on this stream: the rest is not compared (the unanswered requests are broken ties already)
            lines.extend([MODEL_SKIPPED] * (len(requests) - len(lines)))
            break
        nxt = k + 1
        if starts:
            while nxt < len(requests) and requests[nxt].split(" ", 1)[0] not in starts:
                lines.append(MODEL_SKIPPED)
                nxt += 1
        pos = nxt
    return lines, stalls


class MachineryError(Exception):
    """The check itself could not run (exit 2, never a VIOLATION line)."""


def env_offline():
    e = dict(os.environ)
    e["CARGO_NET_OFFLINE"] = "true"
    e["CARGO_TARGET_DIR"] = TARGET
    e.setdefault("RUST_BACKTRACE", "0")
    return e


def sh(cmd, cwd=None, inp=None, timeout=None, env=None, check=False):
    p = subprocess.run(cmd, cwd=cwd, input=inp, capture_output=True, timeout=timeout, env=env)
    if check and p.returncode != 0:
        raise MachineryError(f"command failed ({p.returncode}): {' '.join(map(str, cmd))}\n"
                             f"{p.stdout.decode(errors='replace')[-3000:]}\n{p.stderr.decode(errors='replace')[-3000:]}")
    return p


def write_if_changed(path, content):
    os.makedirs(os.path.dirname(path), exist_ok=True)
    try:
        with open(path) as f:
            if f.read() == content:
                return False
    except FileNotFoundError:
        pass
    with open(path, "w") as f:
        f.write(content)
    return True


def strip_lean_comments(src):
    # remove /- ... -/ (nested) and -- ... comments
    out, i, depth = [], 0, 0
    n = len(src)
    while i < n:
        if src.startswith("/-", i):
            depth += 1
            i += 2
        elif depth and src.startswith("-/", i):
            depth -= 1
            i += 2
        elif depth:
            if src[i] == "\n":
                out.append("\n")
            i += 1
        elif src.startswith("--", i):
            while i < n and src[i] != "\n":
                i += 1
        else:
            out.append(src[i])
            i += 1
    return "".join(out)


def lean_theorems(path):
    """Fully qualified names of the theorems declared in a Lean file (namespace tracking is simple:
    `namespace X` ... `end X`)."""
    src = strip_lean_comments(open(path).read())
    ns, names = [], []
    for line in src.splitlines():
        m = re.match(r"\s*namespace\s+(\S+)", line)
        if m:
            ns.append(m.group(1))
            continue
        m = re.match(r"\s*end\s+(\S+)\s*$", line)
        if m and ns and ns[-1] == m.group(1):
            ns.pop()
            continue
        m = re.match(r"\s*(?:@\[[^\]]*\]\s*)*(?:private\s+|protected\s+)?theorem\s+(\S+)", line)
        if m:
            names.append(".".join(ns + [m.group(1)]))
    return names


class Check:
    def __init__(self, pid, tier, seed):
        self.pid = pid
        self.tier = tier
        self.seed = seed
        self.t0 = time.time()
        self.obligations = []      # {name, module, ok, axioms}
        self.broken = []           # descriptions of broken obligations / ties
        self.streams = []          # per stream summary
        self.disagreements = []    # model-vs-impl
        self.oracle_fails = []     # impl-vs-oracle
        self.violations = []       # (replay_path, no_input_found)
        self.known_hits = []       # KNOWN-FINDING lines printed
        self.samples = []
        self.evaluations = 0
        self.nontrivial = set()
        self.counters = {}
        self.assumptions = []
        self.notes = []
        self.rule = ""
        self.level = "proof"
        self.checker_cmds = []
        self.extra_cov = {}
        os.makedirs(TMP, exist_ok=True)
        os.makedirs(REPLAYS, exist_ok=True)

    # ------------------------------------------------------------------ builds
    def build_harness(self, profile="debug"):
        cmd = ["cargo", "build", "--quiet"]
        if profile == "release":
            cmd.append("--release")
        p = sh(cmd, cwd=HARNESS, env=env_offline())
        if p.returncode != 0:
            raise MachineryError("harness build failed (does /repo still compile with --features verif-hooks?)\n"
                                 + p.stderr.decode(errors="replace")[-4000:])
        return os.path.join(TARGET, profile, "nvh")

    def nvh(self, profile="debug"):
        return os.path.join(TARGET, profile, "nvh")

    def build_cli(self, profile="debug"):
        """Build /repo's own `naija` binary from the working tree into our cache."""
        e = env_offline()
        e["CARGO_TARGET_DIR"] = os.path.join(CACHE, "repo-target")
        cmd = ["cargo", "build", "--quiet", "--bin", "naija"]
        if profile == "release":
            cmd.append("--release")
        p = sh(cmd, cwd=REPO, env=e)
        if p.returncode != 0:
            raise MachineryError("naija build failed\n" + p.stderr.decode(errors="replace")[-4000:])
        return os.path.join(CACHE, "repo-target", profile, "naija")

    def gen_tables(self):
        """Regenerate lean/NaijaVerif/Gen/*.lean from /repo's current sources. Extractor problems are
        remembered and become broken obligations of exactly those properties whose Lean modules
        import the table concerned (see lean_obligations)."""
        sys.path.insert(0, os.path.join(VERIF, "extract"))
        import gen_tables
        problems = gen_tables.generate(self.nvh(), REPO, os.path.join(LEAN, "NaijaVerif", "Gen"))
        self._extractor_problems = problems
        return problems

    def lake_build(self, targets):
        p = sh(["lake", "build"] + targets, cwd=LEAN, timeout=3600)
        log = p.stdout.decode(errors="replace") + p.stderr.decode(errors="replace")
        return p.returncode == 0, log

    def build_driver(self, families=None):
        """Build nvdriver. A build failure counts as a broken tie of THIS property only when the
        failing file belongs to the import closure of the driver families it uses (`families`, e.g.
        ["Pool"]; None = any failure counts). With an unrelated failure the previously built binary is
        used (MachineryError if there is none)."""
        ok, log = self.lake_build(["nvdriver"])
        if ok:
            return True
        errs = _errors_of(log)
        relevant = True
        if families:
            deps = {os.path.relpath(p, LEAN) for p in lean_deps([f"NaijaVerif.Driver.{f}" for f in families] + ["NaijaVerif.Driver.Util"])}
            files = set(re.findall(r"error: ([^:\s]+\.lean):\d+", log))
            relevant = (not files) or bool(files & deps)
        if relevant:
            self.broken.append({"kind": "driver-build-failed", "what": errs[:5]})
        else:
            self.notes.append("nvdriver rebuild failed in files outside this property's driver families; using the previous binary: "
                              + "; ".join(errs[:2]))
            if not os.path.exists(DRIVER):
                raise MachineryError("nvdriver does not build and no previous binary exists:\n" + "\n".join(errs[:10]))
            # the previous binary is only usable if none of the sources of THIS property's families is newer
            # than it (otherwise the answers would come from an out-of-date model: false disagreements)
            built = os.path.getmtime(DRIVER)
            newer = [d for d in (deps if families else []) if os.path.exists(os.path.join(LEAN, d))
                     and os.path.getmtime(os.path.join(LEAN, d)) > built]
            if newer:
                raise MachineryError("nvdriver cannot be rebuilt (failure in another unit's files: " + "; ".join(errs[:2])
                                     + ") and the previous binary is older than " + ", ".join(sorted(newer)[:4]))
        return False

    # ------------------------------------------------------------- obligations
    def lean_obligations(self, modules):
        """Build the property modules; every theorem in them is an obligation. Audits sources and
        axioms. Records broken obligations instead of raising."""
        if isinstance(modules, str):
            modules = [modules]
        self.checker_cmds.append("cd lean && lake build " + " ".join(modules))
        ok, log = self.lake_build(modules)
        failed_lines = {}
        if not ok:
            for m in re.finditer(r"error: ([^:\s]+\.lean):(\d+):(\d+): (.*)", log):
                failed_lines.setdefault(m.group(1), []).append((int(m.group(2)), m.group(4)))
        all_names = []
        for mod in modules:
            rel = mod.replace(".", "/") + ".lean"
            path = os.path.join(LEAN, rel)
            names = lean_theorems(path)
            # map error lines to enclosing theorem
            bad = set()
            if rel in failed_lines:
                decls = _decl_lines(path)
                for (ln, _msg) in failed_lines[rel]:
                    owner = None
                    for (dl, nm) in decls:
                        if dl <= ln:
                            owner = nm
                    bad.add(owner)
            for nm in names:
                short = nm.split(".")[-1]
                okk = ok or (rel in failed_lines and short not in {b.split(".")[-1] for b in bad if b})
                # when another module failed, theorems here are unchecked → not discharged
                if not ok and rel not in failed_lines:
                    okk = False
                self.obligations.append({"name": nm, "module": mod, "ok": bool(okk), "axioms": None})
                all_names.append(nm)
            if not ok:
                errs = [f"{rel}:{ln}: {msg}" for (ln, msg) in failed_lines.get(rel, [])]
                other = [f"{f}:{ln}: {msg}" for f, v in failed_lines.items() if f != rel for (ln, msg) in v]
                self.broken.append({"kind": "proof-obligation-failed", "module": mod,
                                    "theorems": sorted(b for b in bad if b) or ["<module does not build>"],
                                    "errors": (errs + other)[:8]})
        # source audit over exactly the files these property modules depend on
        deps = lean_deps(modules)
        for path in sorted(deps):
            if os.sep + "Driver" + os.sep in path:
                continue
            src = strip_lean_comments(open(path).read())
            m = FORBIDDEN.search(src)
            if m:
                self.broken.append({"kind": "audit", "what": f"forbidden token {m.group(0)!r} in {os.path.relpath(path, LEAN)}"})
        # extractor problems count only where the table is imported (or when unattributable)
        dep_names = {os.path.basename(p) for p in deps}
        for pr in getattr(self, "_extractor_problems", []):
            f = pr.get("file")
            if f is None or f in dep_names:
                self.broken.append({"kind": "extractor-broken", "what": pr.get("msg"), "table": f})
        if ok and all_names:
            self._axioms(modules, all_names)
        return ok

    def _axioms(self, modules, names):
        src = "".join(f"import {m}\n" for m in modules) + "".join(f"#print axioms {n}\n" for n in names)
        path = os.path.join(TMP, f"axioms_{self.pid}.lean")
        with open(path, "w") as f:
            f.write(src)
        p = sh(["lake", "env", "lean", path], cwd=LEAN, timeout=1800)
        out = p.stdout.decode(errors="replace") + p.stderr.decode(errors="replace")
        # "'X' depends on axioms: [a, b]" or "'X' does not depend on any axioms"
        found = {}
        for m in re.finditer(r"'([^']+)' depends on axioms: \[([^\]]*)\]", out):
            found[m.group(1)] = [a.strip() for a in m.group(2).replace("\n", " ").split(",") if a.strip()]
        for m in re.finditer(r"'([^']+)' does not depend on any axioms", out):
            found[m.group(1)] = []
        for ob in self.obligations:
            if ob["name"] in found:
                ob["axioms"] = found[ob["name"]]
                extra = set(found[ob["name"]]) - ALLOWED_AXIOMS
                if extra:
                    ob["ok"] = False
                    self.broken.append({"kind": "audit", "what": f"{ob['name']} depends on {sorted(extra)}"})
            elif ob["ok"] and ob["name"] in names:
                ob["ok"] = False
                self.broken.append({"kind": "audit", "what": f"no #print axioms output for {ob['name']}: {out[-300:]}"})

    def leanchecker(self, modules):
        if isinstance(modules, str):
            modules = [modules]
        for m in modules:
            self.checker_cmds.append(f"cd lean && lake env leanchecker {m}")
            p = sh(["lake", "env", "leanchecker", m], cwd=LEAN, timeout=3600)
            if p.returncode != 0:
                self.broken.append({"kind": "leanchecker", "what": (p.stdout + p.stderr).decode(errors="replace")[-500:]})

    # ----------------------------------------------------------- correspondence
    def corr(self, family, requests, profile="debug", starts=(), nvh_args=("run",), drv_family=None,
             label=None, timeout=1800, model_skip=None):
        """Run request lines through the implementation (nvh <family> run) and the model
        (nvdriver <family>) and diff the answers. `starts`: first words that begin a new history
        (used to cut out the context of a disagreement). Returns a dict."""
        req_bytes = ("\n".join(requests) + "\n").encode()
        impl = sh([self.nvh(profile), family] + list(nvh_args), inp=req_bytes, timeout=timeout)
        impl_lines = impl.stdout.decode(errors="replace").splitlines()
        err_lines = impl.stderr.decode(errors="replace").splitlines()
        if impl.returncode != 0 or len(impl_lines) != len(requests):
            # the implementation process died: attribute to the first unanswered request
            self.broken.append({"kind": "impl-run-died", "family": family, "rc": impl.returncode,
                                "answered": len(impl_lines), "of": len(requests),
                                "stderr": err_lines[-5:]})
        model_lines = []
        if os.path.exists(DRIVER):
            # stateless families may name implementation answers after which the model is not asked at all (the
            # implementation hung / was killed on that request: the comparison is moot and the model, which has no
            # time limit, may need hours for a program that never ends)
            skip = set()
            if model_skip is not None and not starts:
                skip = {i for i, a in enumerate(impl_lines) if model_skip(a)}
            asked = [r for i, r in enumerate(requests) if i not in skip]
            got, stalls_a = run_model([DRIVER, drv_family or family], asked, starts, timeout)
            back = [i for i in range(len(requests)) if i not in skip]
            model_lines = [MODEL_SKIPPED] * len(requests)
            for j, l in enumerate(got):
                if j < len(back):
                    model_lines[back[j]] = l
            stalls = [(back[j], why) for (j, why) in stalls_a if j < len(back)]
            if len(got) != len(asked):
                model_lines = model_lines[:len(got)]
            for (i, why) in stalls:
                # the model did not answer this request (stalled / died): a broken tie with the request as evidence
                self.broken.append({"kind": "model-" + why, "family": family, "line": i + 1,
                                    "request": requests[i][:2000]})
            if len(model_lines) != len(requests):
                raise MachineryError(f"driver failed on family {family}: {len(model_lines)}/{len(requests)} answers")
        dis = []
        for i, (a, b) in enumerate(zip(impl_lines, model_lines)):
            if a != b and b != MODEL_SKIPPED:
                dis.append(i)
        fails = []
        for l in err_lines:
            m = re.match(r"ORACLE-FAIL (\d+) (.*)", l)
            if m:
                fails.append((int(m.group(1)) - 1, m.group(2)))
        res = {"family": label or family, "requests": len(requests), "impl_answers": len(impl_lines),
               "model_answers": len(model_lines), "disagreements": len(dis), "oracle_fails": len(fails),
               "profile": profile}
        self.streams.append(res)
        self.evaluations += len(requests)
        for i in dis[:20]:
            ctx = _history(requests, i, starts)
            self.disagreements.append({"family": family, "line": i + 1, "request": requests[i],
                                       "impl": impl_lines[i], "model": model_lines[i],
                                       "history": ctx})
        for (i, msg) in fails[:20]:
            ctx = _history(requests, i, starts)
            self.oracle_fails.append({"family": family, "line": i + 1, "request": requests[i] if i < len(requests) else "",
                                      "what": msg, "history": ctx})
        res["impl_lines"] = impl_lines
        res["model_lines"] = model_lines
        res["stderr"] = err_lines
        return res

    def gen(self, family, args, profile="debug"):
        p = sh([self.nvh(profile), family, "gen", "--seed", str(self.seed)] + [str(a) for a in args], timeout=1800)
        if p.returncode != 0:
            raise MachineryError(f"generator {family} failed: {p.stderr.decode(errors='replace')[-1000:]}")
        return p.stdout.decode().splitlines()

    # --------------------------------------------------------------- reporting
    def count(self, key, n=1):
        self.counters[key] = self.counters.get(key, 0) + n

    def nontrivial_case(self, text):
        self.nontrivial.add(hashlib.sha1(text.encode()).hexdigest())

    def is_broken(self):
        return bool(self.broken or self.disagreements or self.oracle_fails)

    def report_violation(self, replay, no_input_found=False):
        """Write the replay file and print the VIOLATION line (unless it matches a known finding)."""
        known = match_known(self.pid, replay)
        if known is not None:
            line = f"KNOWN-FINDING: property={self.pid} {known['id']} {known['what']}"
            if line not in self.known_hits:
                self.known_hits.append(line)
                print(line, flush=True)
            return None
        n = len(self.violations) + 1
        path = os.path.join(REPLAYS, f"{self.pid}-{n}.json")
        replay = dict(replay)
        replay["property"] = self.pid
        replay["seed"] = self.seed
        replay["tier"] = self.tier
        with open(path, "w") as f:
            json.dump(replay, f, indent=1)
        self.violations.append((path, no_input_found))
        tail = " no-failing-input-found" if no_input_found else ""
        print(f"VIOLATION property={self.pid} replay={path}{tail}", flush=True)
        return path

    def replay_known_findings(self, reproduces):
        """For every OPEN finding listed for this property run its witness through
        `reproduces(finding) -> bool`; print the KNOWN-FINDING line when it still fails. Fixed entries
        suppress nothing: their witnesses belong in the corpus and fail as ordinary violations."""
        for k in load_known():
            if k.get("status") != "open" or self.pid not in k.get("properties", [k.get("property")]):
                continue
            try:
                still = reproduces(k)
            except MachineryError:
                raise
            except Exception as e:  # noqa: BLE001
                raise MachineryError(f"witness of finding {k.get('id')} could not be run: {e}")
            self.count("known_findings_replayed")
            if still:
                self.known_finding(k["id"], k["what"])
            else:
                self.notes.append(f"listed finding {k['id']} did not reproduce on this tree")

    def known_finding(self, fid, what):
        line = f"KNOWN-FINDING: property={self.pid} {fid} {what}"
        if line not in self.known_hits:
            self.known_hits.append(line)
            print(line, flush=True)

    def finish(self):
        n_ob = len(self.obligations)
        n_ok = sum(1 for o in self.obligations if o["ok"])
        cov = {
            "obligations": n_ob,
            "discharged": n_ok,
            "checker_cmd": " && ".join(dict.fromkeys(self.checker_cmds)) or "none",
            "trusted_base": TRUSTED_BASE + self.assumptions,
            "theorems": [o["name"] for o in self.obligations],
            "axioms_used": sorted({a for o in self.obligations for a in (o["axioms"] or [])}),
            "evaluations": self.evaluations,
            "distinct_nontrivial": len(self.nontrivial),
            "rule": self.rule,
            "samples": self.samples[:8] or ["<none>"],
            "traces_validated_against_impl": sum(s["requests"] for s in self.streams),
            "streams": [{k: v for k, v in s.items() if k not in ("impl_lines", "model_lines", "stderr")} for s in self.streams],
            "model_vs_impl_disagreements": len(self.disagreements),
            "impl_vs_oracle_failures": len(self.oracle_fails),
            "broken": self.broken[:10],
            "counters": self.counters,
            "known_findings_hit": self.known_hits,
            "notes": self.notes,
        }
        cov.update(self.extra_cov)
        ev = {
            "property_id": self.pid,
            "tier": self.tier,
            "seed": self.seed,
            "level": self.level,
            "coverage": cov,
            "assumptions": self.assumptions,
            "wall_s": round(time.time() - self.t0, 2),
            "violations": len(self.violations),
        }
        os.makedirs(EVID, exist_ok=True)
        with open(os.path.join(EVID, f"{self.pid}.json"), "w") as f:
            json.dump(ev, f, indent=1)
        print(f"[{self.pid}] tier={self.tier} seed={self.seed} obligations={n_ok}/{n_ob} "
              f"evaluations={self.evaluations} nontrivial={len(self.nontrivial)} "
              f"disagreements={len(self.disagreements)} oracle_fails={len(self.oracle_fails)} "
              f"violations={len(self.violations)} known={len(self.known_hits)} wall={ev['wall_s']}s", flush=True)
        return 1 if self.violations else 0


def lean_deps(modules):
    """Paths of the project-local Lean files reachable from the given modules through `import`."""
    seen, todo = set(), list(modules)
    while todo:
        m = todo.pop()
        path = os.path.join(LEAN, m.replace(".", "/") + ".lean")
        if path in seen or not os.path.exists(path):
            continue
        seen.add(path)
        for line in open(path):
            mm = re.match(r"\s*(?:public\s+)?import\s+(NaijaVerif\.\S+)", line)
            if mm:
                todo.append(mm.group(1))
    return seen


def _errors_of(log):
    return [l for l in log.splitlines() if l.startswith("error:")]


def _decl_lines(path):
    """(line number, name) of each top-level declaration, to attribute an error line to a theorem."""
    out = []
    for i, line in enumerate(open(path).read().splitlines(), 1):
        m = re.match(r"\s*(?:@\[[^\]]*\]\s*)*(?:private\s+|protected\s+)?(theorem|def|lemma|example|instance|structure|inductive|abbrev)\s*(\S*)", line)
        if m:
            out.append((i, m.group(2) if m.group(1) == "theorem" else None))
    return out


def _history(requests, i, starts):
    """The requests from the last history start up to and including line i."""
    j = i
    if starts:
        while j > 0 and requests[j].split(" ", 1)[0] not in starts:
            j -= 1
    else:
        j = i
    return requests[j:i + 1]


# ------------------------------------------------------------------ known findings
def load_known():
    path = os.path.join(VERIF, "known_findings.jsonl")
    out = []
    if os.path.exists(path):
        for line in open(path):
            line = line.strip()
            if line and not line.startswith("#"):
                out.append(json.loads(line))
    return out


def match_known(pid, replay):
    """A failure is known only if its signature equals that of an *open* entry for this property."""
    sig = replay.get("signature")
    if sig is None:
        return None
    for k in load_known():
        if k.get("status") == "open" and pid in k.get("properties", [k.get("property")]) and k.get("signature") == sig:
            return k
    return None
