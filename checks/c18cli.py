"""C18, shipped configuration: programs around the default STATEMENT limit through /repo's own `naija` binary.

The `limits` family runs generated over-limit programs through the library pipeline on arenas sized for the
source; the shipped binary has two fixed scratch arenas (`SCRATCH_ARENA_CAPACITY`, src/bin/naija/main.rs).
Defect D-20 (fixed by 97f9db9): the checker's per-statement tables all double at 2^18 entries — exactly the
default statement limit — and with 256 MiB arenas a 3.6 MB script of 262 200 ordinary assignments aborted with
`memory allocation of 8388608 bytes failed` instead of running with the analyses skipped.

Each case is `n` copies of one ordinary statement (several weights per statement) between a prologue and a final
`shout`, with n at limit-2, limit (the prologue and epilogue push it just over) and limit+56; expected: exit
status 0, the analytically known output as the LAST line of stdout, the resource-limit warning exactly when the
statement count exceeds the limit, never a signal / 101 / 134.  An implementation-level oracle on the real
binary (a test supporting the tie of the limit model to the shipped configuration, not a theorem)."""
import os
import subprocess
import tempfile

from common import CACHE

# every kind of binding the runtime takes from the resolver's facts, with a same-named alternative live on the call
# path: a by-name fallback (seed C18-c1: call bindings left unsorted when the analyses are skipped, so the binary
# search misses user calls nested in another call's arguments) prints 111 or 11 instead of 1
BIND = ("do tag() start return 1 end\n"
        "do wrap(v) start return v end\n"
        "do probe() start return wrap(tag()) end\n"
        "start\n"
        "    do tag() start return 11 end\n"
        "    do wrap(v) start return v add 100 end\n"
        "    shout(probe())\n"
        "    shout(wrap(tag()) times 10)\n"
        "end\n"
        "shout(probe())\n"
        "make v get 7\n"
        "do show() start return v end\n"
        "do run() start make v get 70 return show() end\n"
        "shout(run())\n")
BIND_OUT = ["1", "1110", "1", "7"]

FILLERS = {
    # name: (prologue, statement, epilogue, expected last line(s) as a function of n, statements of prologue + epilogue)
    "incr": ("make x get 0\n", "x get x add 1\n", "shout(x)\n", lambda n: str(n), 2),
    "store": ("make x get 0\n", "x get 1\n", "shout(x)\n", lambda n: "1", 2),
    "expr": ("make x get 0\nmake y get 2\n", "x get (x add y times 2 minus 3) mod 7 add 1\n", "shout(x pass 0)\n", lambda n: "true", 3),
    "calls": ("make x get 0\ndo inc(a) start return a add 1 end\n", "x get inc(x)\n", "shout(x)\n", lambda n: str(n), 4),
    "strings": ("make s get \"\"\n", "s get \"ab\".to_uppercase()\n", "shout(s)\n", lambda n: "AB", 2),
    "bind": (BIND + "make x get 0\n", "x get x add 1\n", "shout(x)\n", lambda n: BIND_OUT + [str(n)], 23),
}


def statement_limit(ck):
    try:
        src = open(os.path.join(os.environ.get("NV_REPO", "/repo"), "src", "analysis", "limits.rs")).read()
        import re
        m = re.search(r"max_statements:\s*([0-9_]+)", src)
        return int(m.group(1).replace("_", "")) if m else 262144
    except OSError:
        return 262144


def run(ck, names=("incr", "bind"), deltas=(-2, 0, 56), profile="debug", time_limit=300, far=None):
    cli = ck.build_cli(profile)
    lim = statement_limit(ck)
    tmp = tempfile.mkdtemp(prefix="c18cli-", dir=os.path.join(CACHE))
    cov = ck.extra_cov.setdefault("cli_statement_limit", {"limit": lim, "cases": []})
    try:
        if far is None:
            far = FAR
        if far:
            run_far(ck, cli, tmp, cov, cases=far)
        for name in names:
            pro, stmt, epi, want, fixed = FILLERS[name]
            for d in deltas:
                n = lim + d - fixed if d < 0 else lim + d
                total = n + fixed
                path = os.path.join(tmp, f"{name}_{n}.ns")
                with open(path, "w") as f:
                    f.write(pro)
                    f.write(stmt * n)
                    f.write(epi)
                try:
                    p = subprocess.run([cli, path], capture_output=True, timeout=time_limit)
                    rc, out = p.returncode, p.stdout.decode(errors="replace")
                    err = p.stderr.decode(errors="replace")
                except subprocess.TimeoutExpired:
                    rc, out, err = "timeout", "", ""
                os.unlink(path)
                ck.evaluations += 1
                ck.count("cli_statement_limit_cases")
                w = want(n)
                w = w if isinstance(w, list) else [w]
                lines = out.strip().splitlines()
                last = "\\n".join(lines[-len(w):]) if lines else ""
                warned = "resource limit" in out
                over = total > lim
                ok = rc == 0 and lines[-len(w):] == w and warned == over
                cov["cases"].append({"filler": name, "statements": total, "over_limit": over, "exit": rc,
                                     "warned": warned, "ok": ok})
                if ok:
                    ck.nontrivial_case(f"cli-statements {name} {total}")
                    continue
                what = (f"shipped binary on {total} statements of `{stmt.strip()}` (limit {lim}): exit {rc}, last line "
                        f"{last[:60]!r} (expected {w!r}), resource-limit warning {'present' if warned else 'absent'} "
                        f"(expected {'present' if over else 'absent'}); stderr: {err.strip().splitlines()[0][:160] if err.strip() else ''}")
                ck.report_violation({"kind": "impl-vs-oracle", "family": "cli-statements", "what": what,
                                     "generator": {"filler": name, "n": n, "prologue": pro, "statement": stmt, "epilogue": epi},
                                     "requests": [f"cli-statements {name} {n}"], "signature": {"cli_statements": name}})
    finally:
        try:
            os.rmdir(tmp)
        except OSError:
            pass


# (blocks, makes per block, filler statements): one function whose liveness term (2*blocks + ops) * locals is far
# above the limit while every other cap is respected; the first sits just past 2^32 (seed C18-f1: the term computed
# in u32 - the debug build panics in the resolver, the release build wraps to 24 286, prints no warning and runs the
# full analyses on an over-limit program), the second well inside the next wrap
FAR = ((300, 200, 11275), (400, 200, 30000))


def far_program(blocks, makes, filler):
    out = ["make total get 0\n", "total get total add 1\n" * filler]
    k = 0
    for b in range(blocks):
        out.append("start\n")
        out.append("".join(f"make v{i} get {i}\n" for i in range(k, k + makes)))
        k += makes
        if b + 1 == blocks:
            out.append(f"total get total add v{k - 1}\n")
        out.append("end\n")
    out.append("shout(total)\n")
    return "".join(out), str(filler + k - 1)


def run_far(ck, cli, tmp, cov, cases=FAR, time_limit=300):
    for blocks, makes, filler in cases:
        text, want = far_program(blocks, makes, filler)
        path = os.path.join(tmp, f"far_{blocks}_{makes}_{filler}.ns")
        with open(path, "w") as f:
            f.write(text)
        try:
            p = subprocess.run([cli, path], capture_output=True, timeout=time_limit)
            rc, out, err = p.returncode, p.stdout.decode(errors="replace"), p.stderr.decode(errors="replace")
        except subprocess.TimeoutExpired:
            rc, out, err = "timeout", "", ""
        os.unlink(path)
        ck.evaluations += 1
        ck.count("cli_liveness_far_cases")
        lines = out.strip().splitlines()
        warned = "resource limit" in out
        ok = rc == 0 and lines[-1:] == [want] and warned
        cov["cases"].append({"filler": "liveness-far", "blocks": blocks, "makes": makes, "statements": filler, "exit": rc,
                             "warned": warned, "ok": ok})
        if ok:
            ck.nontrivial_case(f"cli-far {blocks} {makes} {filler}")
            continue
        what = (f"shipped binary on one function with {blocks * makes} variables in {blocks} blocks and {filler} further "
                f"statements (liveness term far above the limit, every other cap respected): exit {rc}, last line "
                f"{(lines[-1] if lines else '')[:60]!r} (expected {want!r}), resource-limit warning "
                f"{'present' if warned else 'absent'} (expected present); stderr: "
                f"{err.strip().splitlines()[0][:160] if err.strip() else ''}")
        ck.report_violation({"kind": "impl-vs-oracle", "family": "cli-statements", "what": what,
                             "generator": {"far": [blocks, makes, filler]},
                             "requests": [f"cli-far {blocks} {makes} {filler}"], "signature": {"cli_far": blocks}})


def replay(ck, data):
    g = data.get("generator") or {}
    if not g:
        return None
    if "far" in g:
        run(ck, names=(), far=(tuple(g["far"]),))
        return 1 if ck.violations else 0
    run(ck, far=(), names=(g["filler"],), deltas=(g["n"] - statement_limit(ck),))
    return 1 if ck.violations else 0
