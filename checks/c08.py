"""C08 — running out of depth is reported ('Stack overflow' or an ordinary diagnostic), never a native crash.

Proof part (level "proof"): guard coverage of the evaluator's call graph (Props/C08.lean), tied to the
source by Gen/Stack.lean (regenerated every run) and by the `depth` correspondence (an independent Rust
scan of the source vs the hand-annotated Lean graph).
Measured part (clearly labelled; not a proof): every recursion shape is run in the real `naija` binary
in its own child process with an 8 MiB stack; the stack the binary really needs is bisected with
`ulimit -s`; crash thresholds of the unguarded stages are searched in the thorough tier.
Both tiers run, in the debug AND the release binary: every nesting construct as a bare run at depths no
frame size survives unprobed (BARE_DEPTHS), and the composite shapes "recursion THEN tower"
(c08_shapes.composite): a recursion driven to a swept fraction of the depth at which it alone trips the
probe, at whose bottom a tower of nested statements / expressions as high as the front end accepts runs."""
import json
import os
import re
import resource
import signal
import subprocess
import tempfile
import time
from concurrent.futures import ThreadPoolExecutor

import c08_shapes as S
from common import Check, CACHE, DRIVER, TMP, MachineryError, sh

MAIN_STACK_KIB = 8192          # default main-thread stack (ulimit -s 8192)
# environment dimension: the kernel puts argv/envp at the top of the main-thread stack (at most a quarter
# of the stack limit), so a large environment shrinks what the interpreter has
ENV_VARS, ENV_VAR_BYTES = 12, 120000          # ~1.4 MiB (one string may not exceed 128 KiB)
ENV_SHAPES = ["direct", "deep_expr", "mutual2", "method_push_index"]
CRASH = "native-overflow"
SOE = "stack-overflow-error"
WORKERS = 8
# depths "well past" the measured crash thresholds (debug 1281..4500, release 10750..41000): >= 3x
DEEP = {"debug": 20000, "release": 150000}
# intermediate depths at which a later stage crashes although the parser survives
LADDER = {"debug": [2000, 3000], "release": [15000, 35000]}
SMALL_NEST = 200
HUGE_CHAIN = 1000000
# bare runs: depths that exceed what any per-frame size could survive on 8 MiB without a probe (5 bytes per level
# at the largest); the parser's probe answers all of them with `Program nest too deep` in a few 100 ms
BARE_DEPTHS = {"quick": [25000, 100000, 400000], "thorough": [25000, 100000, 400000, 1600000]}
# composite shapes: fractions of the recursion's own trip level at which the tower starts (all below it: the
# tower is reached), recursion shapes of the quick tier (through a non-literal condition, through an argument,
# through nested loop bodies and blocks, plain), cap on expression towers (the resolver is quadratic in the depth
# of an expression: 14000 levels pass the release front end but take seconds)
COMP_FRACTIONS = [0, .1, .2, .3, .4, .5, .6, .7, .8, .88, .94, .98]
COMP_RT_QUICK = ["cond_if", "arg_user", "blocks_loops", "direct"]
COMP_ENV_FRACTIONS = [.5, .7, .88, .98]
TOWER_CAP = {"stmt": 65536, "expr": 2048}
DATA_DEEP = {"debug": 40000, "release": 75000}
DATA_CHUNK_DEEP = {"debug": 200, "release": 1000}

# the enumerated (stage, construct) pairs in which the tree recurses without a guard: every crash the
# check may report as a *known* finding has one of these signatures (known_findings.jsonl, ids
# D-08-<stage>-<construct>); (runtime, block) was fixed by a3b6c8a and the lexer (D-07c) by 4a05053
PARSER_CONSTRUCTS = ["paren", "not", "neg", "array", "block", "if", "else", "loop", "fndef", "call_args", "index_nest"]
RESOLVER_CONSTRUCTS = ["not", "neg", "array", "block", "if", "else", "loop", "fndef", "call_args", "index_nest",
                       "binary", "method_chain", "index_chain", "call_chain", "member_chain", "assign_index_chain"]
DATA_CONSTRUCTS = ["data_copy", "data_display", "data_join"]
# witness shape of each construct (the shape whose nest/data program exhibits it)
WITNESS_SHAPE = {"binary": "binary_chain", "data_copy": "wrap_chunk", "data_display": "wrap_chunk_shout",
                 "data_join": "wrap_chunk_join"}
# construct of a nest shape as seen by a stage (parentheses are erased by the parser, …)
STAGE_CONSTRUCT = {
    ("paren_binary", "resolver"): "binary", ("paren_binary", "runtime"): "binary",
    ("binary_chain", "resolver"): "binary", ("binary_chain", "runtime"): "binary",
    ("and_chain", "resolver"): "binary", ("and_chain", "runtime"): "binary",
}


def naija_env(mode="default"):
    """default: the caller's environment; empty: `env -i`; large: ~1.4 MiB of padding variables."""
    if mode == "empty":
        return {}
    if mode == "large":
        e = {"RUST_BACKTRACE": "0", "NO_COLOR": "1"}
        for i in range(ENV_VARS):
            e[f"NV_PAD_{i:02d}"] = "x" * ENV_VAR_BYTES
        return e
    e = dict(os.environ)
    e["RUST_BACKTRACE"] = "0"
    e["NO_COLOR"] = "1"
    return e


def env_bytes(mode):
    return sum(len(k) + len(v) + 2 for k, v in naija_env(mode).items())


def strip_ansi(s):
    return re.sub(r"\x1b\[[0-9;]*m", "", s)


def classify(rc, out, err):
    """Outcome of one `naija` run as a small enum."""
    text = strip_ansi(out[:4000] + "\n" + out[-2000:] + "\n" + err[:3000] + err[-3000:])
    if rc is None:
        return "timeout"
    if rc == 0:
        return "ok"
    if "has overflowed its stack" in text or rc in (-signal.SIGSEGV, -signal.SIGBUS):
        return CRASH
    if rc == -signal.SIGABRT and "memory allocation" in text:
        return "oom"
    if "panicked at" in text:
        return "panic"
    if rc in (-signal.SIGXCPU, -signal.SIGKILL):
        return "timeout"
    if rc < 0:
        return f"signal{-rc}"
    m = re.search(r"error\[(\w+)\]: ([^\n]*)", text)
    if rc == 1 and m:
        if m.group(1) == "runtime" and m.group(2).strip() == "Stack overflow":
            return SOE
        return "diag:" + m.group(1)
    return f"rc{rc}"


_MEMO = {}


def run_src(binary, src, stack_kib=MAIN_STACK_KIB, cpu_s=120, fresh=False, env="default"):
    """Run the real CLI on `src` in its own process with the given stack limit and environment (memoised
    per binary, program, stack size and environment within one check run; `fresh` forces a new run)."""
    import hashlib
    key = (binary, hashlib.sha1(src.encode()).hexdigest(), stack_kib, env)
    if not fresh and key in _MEMO:
        return _MEMO[key]
    r = _run_src(binary, src, stack_kib, cpu_s, env)
    if r[0] != "timeout":
        _MEMO[key] = r
    return r


def _run_src(binary, src, stack_kib, cpu_s, env="default"):
    os.makedirs(TMP, exist_ok=True)
    fd, path = tempfile.mkstemp(suffix=".ns", prefix="c08_", dir=TMP)
    os.write(fd, src.encode())
    os.close(fd)

    def pre():
        resource.setrlimit(resource.RLIMIT_STACK, (stack_kib * 1024, stack_kib * 1024))
        resource.setrlimit(resource.RLIMIT_CORE, (0, 0))
        resource.setrlimit(resource.RLIMIT_CPU, (cpu_s, cpu_s + 5))

    t0 = time.time()
    try:
        p = subprocess.run([binary, path], stdin=subprocess.DEVNULL, stdout=subprocess.PIPE, stderr=subprocess.PIPE,
                           preexec_fn=pre, timeout=cpu_s * 3, env=naija_env(env))
        rc, out, err = p.returncode, p.stdout.decode(errors="replace"), p.stderr.decode(errors="replace")
    except subprocess.TimeoutExpired:
        rc, out, err = None, "", "timeout"
    except OSError as e:
        # E2BIG: argv+envp exceed a quarter of the stack limit -- the process cannot even start
        rc, out, err = 126, "", f"exec failed: {e}"
    finally:
        try:
            os.unlink(path)
        except OSError:
            pass
    return classify(rc, out, err), round(time.time() - t0, 3)


class phase:
    """Wall time of a phase of the check, for the evidence (coverage.phase_s)."""

    def __init__(self, ck, name):
        self.ck, self.name = ck, name

    def __enter__(self):
        self.t0 = time.time()

    def __exit__(self, *a):
        d = self.ck.extra_cov.setdefault("phase_s", {})
        d[self.name] = round(d.get(self.name, 0) + time.time() - self.t0, 1)


def pmap(fn, jobs):
    with ThreadPoolExecutor(WORKERS) as ex:
        return list(ex.map(fn, jobs))


# ------------------------------------------------------------------------------------------------
def run(ck: Check):
    ck.rule = ("one evaluation = one run of the real `naija` binary on a generated program in its own process with an "
               "8 MiB stack, or one request line of the `depth` correspondence; non-trivial = a run that goes past the "
               "4 MiB budget (ends in `Stack overflow` or in a native overflow) or a call path with at least one "
               "guarded frame; distinct by program text / request text")
    ck.assumptions += [
        "MEASURED, not proved: compiled frame sizes. The theorem bounds the native depth by STACK_BUDGET + G for symbolic "
        "frame costs; that STACK_BUDGET + G + headroom fits into the 8 MiB main-thread stack is checked arithmetically from "
        "`ulimit -s` bisections on the real debug/release binaries (coverage.measured_frame_costs)",
        "MODELLING STEP (trusted): the call graph is function-level; non-recursive callees count towards their caller's "
        "frame cost; a traversal of a nested value by the unguarded helpers (clone_into, promote, Display, join, drop glue) is "
        "folded into one frame whose cost carries the nesting bound (proviso d of runtime_depth_bound_proviso) -- nothing "
        "in the code enforces that bound (open findings D-08-runtime-data_*)",
        "ENVIRONMENT: argv/envp live at the top of the main-thread stack (kernel cap: a quarter of the stack limit = 2 MiB); "
        "the obligation budget_fits_main_stack reserves that much, and the recursion shapes are also run with `env -i` and "
        "with ~1.4 MiB of environment",
        "the 8 MiB stack is applied with RLIMIT_STACK to the child process (= `ulimit -s 8192`), main thread, as the CLI runs",
    ]
    with phase(ck, "build+lean"):
        ck.build_harness()
        ck.gen_tables()
        ck.lean_obligations(["NaijaVerif.Props.C08"])
        ck.build_driver(["Depth"])
        unprobed_descents(ck)
    # ---- structural correspondence (scan of the source vs the Lean graph)
    nwalks = 300 if ck.tier == "quick" else 20000
    with phase(ck, "correspondence"):
        reqs = corpus_requests() + ck.gen("depth", ["--n", nwalks])
        res = ck.corr("depth", reqs)
    for r, a in zip(reqs, res["impl_lines"]):
        if r.startswith("path ") and "guarded=0" not in a and a.startswith("ok"):
            ck.nontrivial_case(r)
            ck.count("walks_with_guarded_frame")
        if r.startswith("path "):
            ck.count("walks")
    # ---- behaviour on the real binary
    profiles = ["debug"] if ck.tier == "quick" else ["debug", "release"]
    both = ["debug", "release"]        # bare runs and composite shapes: both binaries in both tiers
    with phase(ck, "build_cli"):
        bins_all = {p: ck.build_cli(p) for p in both}
        bins = {p: bins_all[p] for p in profiles}
    measured, nest_out, data_out, comp_out, crashes = {}, {}, {}, {}, []
    for prof in profiles:
        with phase(ck, "runtime_shapes"):
            measured[prof] = runtime_shapes(ck, bins[prof], prof, crashes)
        with phase(ck, "nest_shapes"):
            nest_out[prof] = nest_shapes(ck, bins[prof], prof, crashes, extra=BARE_DEPTHS[ck.tier])
        with phase(ck, "data_shapes"):
            data_out[prof] = data_shapes(ck, bins[prof], prof, crashes)
        with phase(ck, "env_shapes"):
            measured[prof]["__environment__"] = env_shapes(ck, bins[prof], prof, crashes)
    for prof in both:
        if prof not in profiles:
            with phase(ck, "nest_shapes"):
                nest_out[prof] = nest_shapes(ck, bins_all[prof], prof, crashes, only=BARE_DEPTHS[ck.tier])
        with phase(ck, "composite_shapes"):
            comp_out[prof] = composite_shapes(ck, bins_all[prof], prof, crashes, measured.setdefault(prof, {}))
    ck.extra_cov["measured_frame_costs"] = measured
    ck.extra_cov["nest_outcomes"] = nest_out
    ck.extra_cov["data_outcomes"] = data_out
    ck.extra_cov["composite_outcomes"] = comp_out
    arithmetic(ck, {p: m for p, m in measured.items() if m})
    with phase(ck, "guard_thresholds"):
        gnames = list(S.NEST) if ck.tier == "thorough" else ["paren", "array", "block", "if", "fndef", "call_args",
                                                              "binary_chain", "method_chain", "index_chain"]
        ck.extra_cov["guard_thresholds"] = guard_thresholds(ck, bins, gnames)
    if ck.tier == "thorough":
        with phase(ck, "leanchecker"):
            ck.leanchecker(["NaijaVerif.Props.C08"])
        with phase(ck, "thresholds"):
            ck.extra_cov["crash_thresholds"] = thresholds(ck, bins)
        with phase(ck, "leaf_costs"):
            ck.extra_cov["leaf_costs_kib"] = {p: leaf_costs(ck, bins[p], p) for p in profiles}
    # ---- every listed open finding is re-run from its witness (quick tier too)
    replays = {}
    with phase(ck, "finding_replays"):
        ck.replay_known_findings(lambda k: reproduces(ck, bins, k, replays))
    ck.extra_cov["finding_replays"] = replays
    # ---- report
    seen = set()
    from common import match_known
    # of several crashes with one signature the shallowest is reported (signatures in order of first appearance)
    order = {}
    for c in crashes:
        order.setdefault(json.dumps(c["signature"], sort_keys=True), len(order))
    crashes.sort(key=lambda c: (order[json.dumps(c["signature"], sort_keys=True)], c["depth"]))
    for c in crashes:
        key = json.dumps(c["signature"], sort_keys=True)
        if key in seen:
            continue
        seen.add(key)
        if len(ck.violations) >= 6 and match_known(ck.pid, c) is None:
            continue        # further unlisted crashes are in coverage.crash_signatures; six replay files are enough
        extra = {k: c[k] for k in ("generator", "params", "program_head", "also_crashing") if k in c}
        ck.report_violation({"kind": "native-stack-overflow", "signature": c["signature"], "shape": c["shape"],
                             "depth": c["depth"], "profile": c["profile"], "cut": c.get("cut", "none"),
                             "env": c.get("env", "default"), **extra,
                             "also_broken": [b.get("what") or b.get("theorems") for b in ck.broken[:8]],
                             "env_spec": {"large": f"{ENV_VARS} variables NV_PAD_nn of {ENV_VAR_BYTES} bytes", "empty": "env -i"},
                             "outcomes": c["outcomes"], "what": c["what"],
                             "replay_cmd": "./check C08 --replay <this file>"})
    ck.extra_cov["crash_signatures"] = sorted(seen)
    if ck.is_broken():
        # the shapes above *are* the search for a failing input: a crash that is not a listed finding has
        # already been reported with its program; otherwise name what no longer checks
        if not ck.violations:
            ck.report_violation({"kind": "tie-broken", "family": "depth",
                                 "what": "a proof obligation, an extractor or the source/model correspondence of C08 no "
                                         "longer checks; every recursion shape still ends in `Stack overflow` or a listed finding",
                                 "broken": ck.broken[:10], "disagreements": ck.disagreements[:5],
                                 "requests": [d["request"] for d in ck.disagreements[:5]]},
                                no_input_found=True)
    return ck.finish()


def unprobed_descents(ck):
    """Names what `exec_stmt_descents_probed_on_every_path` (Props/C08.lean) and the `arm` requests of the depth
    correspondence decide: an arm of `exec_stmt` that can reach the body of a nested statement on a path without a
    probe, and the function on that path that branches before it probes."""
    import sys
    from common import REPO, VERIF
    sys.path.insert(0, os.path.join(VERIF, "extract"))
    try:
        import gen_depth
        bad = gen_depth.unprobed_descents(REPO)
    except Exception as e:     # the extractor's own failure is already an `extractor-broken` obligation
        ck.notes.append(f"unprobed_descents: {type(e).__name__}: {e}")
        return
    for arm, chain in bad:
        via = " -> ".join(chain)
        ck.broken.append({"kind": "unprobed-descent", "theorem": "exec_stmt_descents_probed_on_every_path",
                          "what": f"the `{arm.split('::')[-1]}` arm of exec_stmt can reach exec_block_with_flow on a path without a "
                                  f"stack probe: on the straight-line prefix of {via} no guard function (check_stack) is certain to be "
                                  f"called -- `{chain[-1]}` branches (or returns) before its first probe, so the cycle "
                                  "exec_block_with_flow -> exec_stmt -> exec_block_with_flow is probe-free for nested statements "
                                  "taking that path (cond_arm_probe_is_necessary: no depth bound then); the composite shapes "
                                  "(recursion THEN tower) search for the crashing program"})


def witness_of(sig):
    """(kind, shape, cut) of the witness program of a finding signature."""
    stage, con = sig.get("stage"), sig.get("construct")
    shape = WITNESS_SHAPE.get(con, con)
    if con in DATA_CONSTRUCTS:
        return "data", shape, "none"
    if shape not in S.NEST:
        raise MachineryError(f"finding signature {sig} names no shape of checks/c08_shapes.py")
    return "nest", shape, stage if stage in ("parser", "resolver") else "none"


def reproduces(ck, bins, k, replays):
    """Does the listed finding still fail?  Its witness (construct nested >= 3x past the measured crash
    threshold, CLI stopped after the finding's stage) is run once per built profile; it reproduces when
    the process dies of a native stack overflow.  For a resolver finding on a construct the parser
    recurses on as well, the parser overflows first at this depth (`masked_by`): the line is still a
    real native crash on that construct; the attribution to the later stage is what the ladder depths
    and the thorough threshold search establish."""
    sig = k.get("signature") or {}
    kind, shape, cut = witness_of(sig)
    rec, still = {}, False
    for prof, binary in bins.items():
        if kind == "data":
            src = S.DATA[shape]["src"](DATA_DEEP[prof], DATA_CHUNK_DEEP[prof])
            depth = DATA_DEEP[prof]
        else:
            depth = DEEP[prof]
            src = S.stage_cut(S.NEST[shape]["src"](depth), cut)
        out = run_src(binary, src, cpu_s=240)[0]
        ck.evaluations += 1
        rec[prof] = {"shape": shape, "depth": depth, "cut": cut, "outcome": out}
        if out == CRASH and cut == "resolver" and \
                run_src(binary, S.stage_cut(S.NEST[shape]["src"](depth), "parser"), cpu_s=240)[0] == CRASH:
            rec[prof]["masked_by"] = "parser"
        still = still or out == CRASH
    replays[k.get("id", "?")] = rec
    return still


def corpus_requests():
    d = os.path.join(os.path.dirname(os.path.dirname(os.path.abspath(__file__))), "corpus", "C08")
    out = []
    if os.path.isdir(d):
        for fn in sorted(os.listdir(d)):
            if fn.endswith(".req"):
                out += [l.strip() for l in open(os.path.join(d, fn)) if l.strip() and not l.startswith("#")]
    return out


def confirm(binary, src, first, cpu_s=120):
    """A crash is reported only if it reproduces on three consecutive runs."""
    outs = [first]
    if first == CRASH:
        outs += [run_src(binary, src, cpu_s=cpu_s, fresh=True)[0] for _ in range(2)]
    return outs


# ------------------------------------------------------------------------------------------------
def runtime_shapes(ck, binary, prof, crashes):
    """Every run-time recursion shape: terminates normally at a small limit, ends in `Stack overflow`
    without a limit; plus the stack the binary really needs for it (bisection over `ulimit -s`)."""
    budget_kib = budget_bytes() // 1024
    names = list(S.RT)

    def job(name):
        sh_ = S.RT[name]
        small = run_src(binary, sh_["src"](7))[0]
        inf_src = sh_["src"](S.INF)
        inf, t = run_src(binary, inf_src)
        rec = {"small": small, "unbounded": inf, "time_s": t}
        if small == "ok" and inf == SOE:
            rec["min_stack_kib"] = min_stack(binary, inf_src, budget_kib)
        return name, rec

    out = dict(pmap(job, names))
    invalid = [n for n, r in out.items() if r["small"] != "ok"]
    if len(invalid) * 4 > len(names):
        raise MachineryError(f"runtime recursion shapes no longer run at a small limit: {invalid[:8]} "
                             f"({[out[n]['small'] for n in invalid[:8]]})")
    for n in invalid:
        ck.notes.append(f"shape {n} skipped ({prof}): does not terminate normally at limit 7: {out[n]['small']}")
    for name, r in out.items():
        ck.evaluations += 2
        if r["small"] != "ok":
            continue
        src = S.RT[name]["src"](S.INF)
        ck.nontrivial_case(prof + src)
        ck.count(f"rt_{prof}_{r['unbounded']}")
        if r["unbounded"] == CRASH:
            outs = confirm(binary, src, CRASH)
            if outs.count(CRASH) == 3:
                crashes.append({"signature": {"defect": "D-08", "stage": "runtime", "construct": "rt:" + name},
                                "shape": name, "depth": S.INF, "profile": prof, "outcomes": outs,
                                "what": f"unbounded recursion shape `{name}` overflows the native stack ({prof})"})
        elif r["unbounded"] != SOE:
            ck.broken.append({"kind": "shape-outcome", "what": f"{name} ({prof}): expected Stack overflow, got {r['unbounded']}"})
    # per-level native cost for a few shapes: the recursion level at which the guard fires
    sample = names if ck.tier == "thorough" else ["direct", "mutual2", "arg_user", "cond_if", "array_literal", "method_push_index",
                                                  "blocks_loops"]
    for name, lv in pmap(lambda n: (n, trip_level(binary, S.RT[n]["src"])), [n for n in sample if out[n]["small"] == "ok"]):
        if lv:
            out[name]["levels_at_trip"] = lv
            out[name]["bytes_per_level"] = budget_bytes() // lv
    if len(ck.samples) < 3:
        ck.samples.append({"shape": "direct", "profile": prof, "program": S.RT["direct"]["src"](S.INF), "outcome": out["direct"]})
    return out


def min_stack(binary, src, budget_kib, env="default"):
    """Smallest `ulimit -s` (KiB, 4 KiB steps) with which the run still ends in the Stack overflow error.
    (The environment block may not exceed a quarter of the limit, or exec fails: such limits count as
    too small, which is what they are.)"""
    lo, hi = budget_kib, MAIN_STACK_KIB
    if run_src(binary, src, lo, env=env)[0] == SOE:
        return lo
    while hi - lo > 4:
        mid = (lo + hi) // 2 // 4 * 4
        if run_src(binary, src, mid, env=env)[0] == SOE:
            hi = mid
        else:
            lo = mid
    return hi


def trip_level(binary, srcfn):
    """Smallest recursion limit at which the guard fires (bisection; the shape returns normally below)."""
    lo, hi = 7, 1 << 22
    if run_src(binary, srcfn(hi))[0] != SOE:
        return None
    while hi - lo > max(1, lo // 200):
        mid = (lo + hi) // 2
        o = run_src(binary, srcfn(mid), cpu_s=20)[0]
        if o == SOE:
            hi = mid
        elif o == "ok":
            lo = mid
        else:
            return None     # a shape whose running time is not linear in the limit: no per-level figure
    return hi


def budget_bytes():
    p = sh([DRIVER, "depth"], inp=b"budget\n")
    return int(p.stdout.decode().strip() or 0)


def limits():
    """Constants of the Lean arithmetic obligation (Model/Depth.lean), in KiB."""
    p = sh([DRIVER, "depth"], inp=b"limits\n")
    kv = dict(x.split("=") for x in p.stdout.decode().split())
    return {k: int(v) // 1024 for k, v in kv.items()}


def env_shapes(ck, binary, prof, crashes):
    """Unbounded recursion on the 8 MiB stack with an empty environment (`env -i`) and with ~1.4 MiB of
    environment at the top of the stack: both must end in `Stack overflow`; the stack need is bisected
    for one shape in both, which shows how much of the stack the environment takes."""
    budget_kib = budget_bytes() // 1024
    out = {"large_env_bytes": env_bytes("large")}

    def job(a):
        name, mode = a
        src = S.RT[name]["src"](S.INF)
        return name, mode, run_src(binary, src, env=mode)[0], src

    for name, mode, o, src in pmap(job, [(n, m) for n in ENV_SHAPES for m in ("empty", "large")]):
        ck.evaluations += 1
        out.setdefault(name, {})[mode] = o
        ck.count(f"env_{prof}_{mode}_{o}")
        ck.nontrivial_case(f"{prof}:{mode}:{src}")
        if o == CRASH:
            outs = [o] + [run_src(binary, src, env=mode, fresh=True)[0] for _ in range(2)]
            if outs.count(CRASH) == 3:
                crashes.append({"signature": {"defect": "C08-env", "stage": "runtime", "construct": "rt:" + name, "env": mode},
                                "shape": name, "depth": S.INF, "profile": prof, "env": mode, "outcomes": outs,
                                "what": f"unbounded recursion `{name}` overflows the native stack with a {mode} environment "
                                        f"({env_bytes(mode)} bytes of envp at the top of the 8 MiB stack, {prof}): "
                                        "budget + overshoot + environment exceed the main-thread stack"})
        elif o != SOE:
            ck.broken.append({"kind": "shape-outcome", "what": f"{name} ({prof}, env {mode}): expected Stack overflow, got {o}"})
    src = S.RT["direct"]["src"](S.INF)
    if out.get("direct", {}).get("empty") == SOE:
        # with `env -i` the whole need is the interpreter's own; (no bisection with the large environment:
        # exec refuses an environment above a quarter of the limit, which would dominate the result)
        out["min_stack_kib"] = {"empty": min_stack(binary, src, budget_kib, "empty")}
    return out


def arithmetic(ck, measured):
    """The arithmetic obligation with the measured numbers (Lean proves it for the allowances:
    budget_fits_main_stack): measured overshoot <= overshoot allowance, and
    STACK_BUDGET + measured overshoot + ENV_ALLOWANCE + headroom <= 8 MiB, per profile."""
    budget_kib = budget_bytes() // 1024
    lim = limits()
    summary = {}
    for prof, shapes in measured.items():
        needs = [r["min_stack_kib"] for k, r in shapes.items() if k != "__environment__" and "min_stack_kib" in r]
        env = shapes.get("__environment__", {})
        if "min_stack_kib" in env:
            needs.append(env["min_stack_kib"]["empty"])
        if not needs:
            ck.broken.append({"kind": "measurement", "what": f"no stack need could be measured ({prof})"})
            continue
        need = max(needs)
        over = need - budget_kib
        # the shapes include values of nesting 500 copied / printed at every level, so the measured overshoot
        # contains the unprobed value helpers: it must fit the two allowances together
        allowed = lim["overshoot"] + lim.get("data", 0)
        total = budget_kib + over + lim["env"] + lim["headroom"]
        ok = over <= allowed and total <= lim["main"]
        summary[prof] = {"stack_budget_kib": budget_kib, "max_stack_needed_kib": need, "measured_overshoot_kib": over,
                         "overshoot_allowance_kib": lim["overshoot"], "data_allowance_kib": lim.get("data", 0),
                         "env_allowance_kib": lim["env"],
                         "required_headroom_kib": lim["headroom"], "main_stack_kib": lim["main"],
                         "budget+overshoot+env+headroom_kib": total, "slack_kib": lim["main"] - total,
                         "fits_8MiB": ok, "shapes_measured": len(needs),
                         "environment_measured": env.get("min_stack_kib")}
        if over > allowed:
            ck.broken.append({"kind": "arithmetic", "what": f"{prof}: measured overshoot past the budget line {over} KiB exceeds "
                              f"the allowances {allowed} KiB (overshoot + data) of budget_fits_main_stack"})
        elif not ok:
            ck.broken.append({"kind": "arithmetic", "what": f"{prof}: budget {budget_kib} + overshoot {over} + environment "
                              f"{lim['env']} + headroom {lim['headroom']} KiB exceed the {lim['main']} KiB main-thread stack"})
    ck.extra_cov["stack_arithmetic"] = summary


# ------------------------------------------------------------------------------------------------
def attribute_stage(binary, name, depth, cpu_s=120):
    """First stage that overflows the native stack on nest shape `name` at `depth`, or None.
    The CLI stops after the parser on a syntax error and after the resolver on a semantic error."""
    sh_ = S.NEST[name]
    src = sh_["src"](depth)
    full, _ = run_src(binary, src, cpu_s=cpu_s)
    if full != CRASH:
        return None, full, src
    if sh_["construct"] == "invalid_number":
        return "lexer", full, src
    if run_src(binary, S.stage_cut(src, "parser"), cpu_s=cpu_s)[0] == CRASH:
        return "parser", full, S.stage_cut(src, "parser")
    if run_src(binary, S.stage_cut(src, "resolver"), cpu_s=cpu_s)[0] == CRASH:
        return "resolver", full, S.stage_cut(src, "resolver")
    return "runtime", full, src


def nest_signature(name, stage):
    con = STAGE_CONSTRUCT.get((name, stage), S.NEST[name]["construct"])
    defect = "D-07c" if stage == "lexer" else "D-08"
    return {"defect": defect, "stage": stage, "construct": con}


def nest_shapes(ck, binary, prof, crashes, extra=(), only=None):
    """Every nest shape at the ladder depths of the profile plus `extra`; or at the depths `only`."""
    names = list(S.NEST)
    depths = sorted(set([SMALL_NEST] + LADDER[prof] + [DEEP[prof]] + list(extra))) if only is None else list(only)
    # chain constructs also at a million links (a few MB of source): small-frame helpers over loop-built chains
    huge = [(n, HUGE_CHAIN) for n in names if n in S.CHAINS and HUGE_CHAIN not in depths] if only is None else []

    def job(a):
        name, depth = a
        stage, full, src = attribute_stage(binary, name, depth)
        return name, depth, stage, full, src

    # the lexer is iterative and answers every `1.a` with a rendered diagnostic: seconds past 10^5 of them
    todo = [(n, d) for n in names for d in depths if not (S.NEST[n]["construct"] == "invalid_number" and d > 100000)] + huge
    todo.sort(key=lambda a: (-(a[1] * (30 if S.NEST[a[0]]["construct"] == "invalid_number" else 1)), a[0]))   # long runs first
    out = {}
    for name, depth, stage, full, src in pmap(job, todo):
        ck.evaluations += 1
        out.setdefault(name, {})[str(depth)] = full if stage is None else f"{CRASH}@{stage}"
        ck.count(f"nest_{prof}_{full if stage is None else 'crash_' + stage}")
        if depth == SMALL_NEST:
            if full == CRASH:
                ck.broken.append({"kind": "shape-outcome", "what": f"{name} crashes already at depth {SMALL_NEST} ({prof})"})
            continue
        ck.nontrivial_case(f"{prof}:{name}:{depth}")
        if stage is not None:
            outs = confirm(binary, src, CRASH)
            if outs.count(CRASH) == 3:
                sig = nest_signature(name, stage)
                crashes.append({"signature": sig, "shape": name, "depth": depth, "profile": prof, "cut": stage,
                                "outcomes": outs,
                                "what": f"{depth} nested `{name}` overflow the native stack in the {stage} ({prof})"})
        elif full in ("timeout",) or full.startswith("signal") or full.startswith("rc"):
            ck.notes.append(f"nest shape {name} depth {depth} ({prof}): inconclusive outcome {full}")
    return out


def data_shapes(ck, binary, prof, crashes):
    def job(name):
        sh_ = S.DATA[name]
        small = run_src(binary, sh_["src"](400, 100))[0]
        deep_src = sh_["src"](DATA_DEEP[prof], DATA_CHUNK_DEEP[prof])
        deep = run_src(binary, deep_src, cpu_s=240)[0]
        return name, small, deep, deep_src

    out = {}
    for name, small, deep, src in pmap(job, list(S.DATA)):
        ck.evaluations += 2
        out[name] = {"depth_400": small, f"depth_{DATA_DEEP[prof]}": deep}
        ck.count(f"data_{prof}_{deep}")
        if small != "ok":
            ck.notes.append(f"data shape {name} ({prof}) at depth 400: {small}")
        ck.nontrivial_case(f"{prof}:{name}")
        if deep == CRASH:
            outs = confirm(binary, src, CRASH, cpu_s=240)
            if outs.count(CRASH) == 3:
                crashes.append({"signature": {"defect": "D-08", "stage": "runtime",
                                              "construct": "data_" + S.DATA[name]["construct"]},
                                "shape": name, "depth": DATA_DEEP[prof], "profile": prof, "outcomes": outs,
                                "what": f"a value nested {DATA_DEEP[prof]} deep overflows the native stack in an unguarded "
                                        f"value helper ({S.DATA[name]['construct']}, {prof})"})
    return out


# ------------------------------------------------------------------------------------------------
def front_max(binary, kind, found):
    """Largest height of tower `kind` with which the program still reaches run time (no syntax / semantic
    error), bisected to 2 %: the front end's own probes (`Program nest too deep`) bound it, differently per
    profile.  A native crash on the way is collected in `found` (and counts as not accepted)."""
    cap = TOWER_CAP["expr" if S.TOWERS[kind]["expr"] else "stmt"]

    def accepted(n):
        o = run_src(binary, S.composite("direct", kind, 0, n))[0]
        if o == CRASH:
            found.append(("direct", kind, 0, n, "default"))
        return o != CRASH and o != "timeout" and not o.startswith("diag:syntax") and not o.startswith("diag:semantic")

    lo, hi = 8, cap
    if accepted(hi):
        return hi
    if not accepted(lo):
        return None
    while hi - lo > max(1, lo // 50):
        mid = (lo + hi) // 2
        if accepted(mid):
            lo = mid
        else:
            hi = mid
    return lo


_PAT = {"ok": ".", SOE: "S", CRASH: "X", "timeout": "T"}


def composite_shapes(ck, binary, prof, crashes, measured):
    """Recursion THEN tower (c08_shapes.composite): every recursion shape of the tier x every tower kind, the
    tower as high as the front end of this profile accepts (bisected once) and half of that, the recursion
    driven to COMP_FRACTIONS of the level at which it alone trips the probe; the highest towers also with
    ~1.4 MiB of environment.  Every run must end normally, in `Stack overflow` or in an ordinary diagnostic.
    For one recursion shape the stack the binary needs is bisected as well (half-height towers right below
    the budget line): an unprobed descent shows there as overshoot long before it overruns 8 MiB."""
    full = ck.tier == "thorough"
    rts = list(S.COMPOSITE_RT) if full else list(COMP_RT_QUICK)
    # quick tier: expression towers (probed in every eval_expr frame, and capped) only in the debug binary
    kinds = [k for k in S.TOWERS if full or prof == "debug" or not S.TOWERS[k]["expr"]]
    found = []
    fm = dict(zip(kinds, pmap(lambda k: front_max(binary, k, found), kinds)))
    # the recursion's own trip level (already bisected by runtime_shapes for most)
    missing = [r for r in rts if not measured.get(r, {}).get("levels_at_trip")]
    trip = {r: measured[r]["levels_at_trip"] for r in rts if r not in missing}
    trip.update(zip(missing, pmap(lambda r: trip_level(binary, S.RT[r]["src"]), missing)))
    skipped = [r for r in rts if not trip.get(r)]
    rts = [r for r in rts if trip.get(r)]
    if not rts or not any(fm.values()):
        raise MachineryError(f"composite shapes ({prof}): no recursion trip level / no tower height could be measured: "
                             f"{trip} {fm}")
    # thorough: the full sweep at full height for every recursion shape (42), half height in its upper half.  quick: the full sweep at full height for the first
    # recursion shape (debug: also half-height towers in the upper half of the sweep, and the large environment);
    # a few points at full height for the other shapes (what a recursion contributes is the stack it has used; the
    # others guard against an interaction with a particular construct); expression towers with the first shape only
    jobs = []
    for ri, r in enumerate(rts):
        for k in kinds:
            if not fm[k]:
                continue
            expr = S.TOWERS[k]["expr"]
            if not full and expr and ri > 0:
                continue
            if full:
                # (a half-height tower in the lower half of the sweep is the least demanding case: first shape only)
                fr_hi = COMP_FRACTIONS
                fr_half = COMP_FRACTIONS if ri == 0 else [f for f in COMP_FRACTIONS if f >= .5]
            elif ri == 0:
                fr_hi = COMP_FRACTIONS[1::2] if expr else COMP_FRACTIONS
                fr_half = [f for f in COMP_FRACTIONS if f >= .5] if prof == "debug" and not expr else []
            else:
                fr_hi, fr_half = (COMP_ENV_FRACTIONS if prof == "debug" else COMP_ENV_FRACTIONS[1::2]), []
            jobs += [(r, k, int(trip[r] * f), fm[k], "default") for f in fr_hi]
            jobs += [(r, k, int(trip[r] * f), fm[k] // 2, "default") for f in fr_half]
            if not expr and (full or (ri == 0 and prof == "debug")):
                jobs += [(r, k, int(trip[r] * f), fm[k], "large") for f in COMP_ENV_FRACTIONS]

    def job(a):
        r, k, d, n, env = a
        return run_src(binary, S.composite(r, k, d, n), env=env)[0]

    outs = pmap(job, jobs)
    pat, tally, bad = {}, {}, list(found)
    for a, o in zip(jobs, outs):
        r, k, d, n, env = a
        ck.evaluations += 1
        tally[o] = tally.get(o, 0) + 1
        key = f"{r}+{k}@{n}" + ("" if env == "default" else "+env")
        pat[key] = pat.get(key, "") + _PAT.get(o, "d" if o.startswith("diag:") else "?")
        if o in ("ok", SOE):
            ck.nontrivial_case(f"{prof}:comp:{a}")
        if o == CRASH:
            bad.append(a)
        elif o != "ok" and o != SOE and not o.startswith("diag:"):
            ck.notes.append(f"composite {a} ({prof}): inconclusive outcome {o}")
    for o, c in tally.items():
        ck.count(f"comp_{prof}_{o}", c)
    # one report per tower kind: the first crashing case (recursion of the tier's list order, lowest depth first)
    by_kind = {}
    for a in bad:
        by_kind.setdefault(a[1], []).append(a)
    for k, cases in by_kind.items():
        for a in cases[:3]:
            r, _k, d, n, env = a
            src = S.composite(r, k, d, n)
            outs3 = [CRASH] + [run_src(binary, src, env=env, fresh=True)[0] for _ in range(2)]
            if outs3.count(CRASH) < 3:
                continue
            stage = "runtime"
            for cut in ("parser", "resolver"):
                if run_src(binary, S.stage_cut(src, cut), env=env)[0] == CRASH:
                    stage = cut
                    break
            alone_rec = run_src(binary, S.composite(r, k, d, 0), env=env)[0]
            alone_tower = run_src(binary, S.composite(r, k, 0, n), env=env)[0]
            crashes.append({
                "signature": {"defect": "C08-composite", "stage": stage, "construct": "tower:" + k},
                "shape": f"composite:{r}+{k}", "depth": d, "profile": prof, "env": env, "outcomes": outs3,
                "generator": "c08_shapes.composite", "params": {"rt_name": r, "kind": k, "d": d, "n": n},
                "program_head": src[:700] + f" ... ({len(src)} bytes)",
                "also_crashing": [list(x) for x in cases if x != a][:12],
                "what": f"recursion `{r}` driven to level {d} (it trips the probe alone at {trip.get(r)}), then a {n}-level tower "
                        f"of `{S.TOWERS[k]['open'].strip()}` (front end accepts {fm.get(k)}): native stack overflow in the {stage} "
                        f"({prof}, {env} environment); the recursion alone at that level: {alone_rec}; the tower alone: {alone_tower}; "
                        f"{len(cases)} of the swept cases of this tower kind crash"})
            break
    # stack need of half-height statement towers entered right below the budget line
    budget_kib = budget_bytes() // 1024
    r0 = rts[0]
    need_jobs = [(r0, k, int(trip[r0] * COMP_FRACTIONS[-1]), fm[k] // 2) for k in kinds if fm[k] and not S.TOWERS[k]["expr"]
                 and (full or prof == "debug")]

    def need(a):
        src = S.composite(*a)
        return a, (min_stack(binary, src, budget_kib) if run_src(binary, src)[0] == SOE else None)

    for a, kib in pmap(need, need_jobs):
        ck.evaluations += 10
        if kib:
            measured[f"comp:{a[0]}+{a[1]}@{a[3]}"] = {"min_stack_kib": kib, "unbounded": SOE, "small": "ok"}
    if skipped:
        ck.notes.append(f"composite shapes ({prof}): no trip level for {skipped} (running time not linear in the limit)")
    return {"tower_height_accepted": fm, "recursion_trip_level": trip, "runs": len(jobs), "outcomes": tally,
            "patterns": pat if ck.tier == "quick" or bad else {k: v for k, v in pat.items() if k.split("+")[0] in COMP_RT_QUICK},
            "legend": "per case `recursion+tower@height`: one character per swept recursion depth (COMP_FRACTIONS of the trip "
                      "level): . normal end, S Stack overflow error, d diagnostic, X native overflow, T timeout"}


# ------------------------------------------------------------------------------------------------
def thresholds(ck, bins):
    """Thorough tier: smallest crashing depth per shape, stage cut and profile (bisection to 4 %).
    Kept inside the time budget: the resolver is quadratic in the depth of an expression (infer_expr_type
    is re-run at every level), so a *passing* probe near a release threshold takes 10 s and more --
    refinement stops once a passing probe needed more than 15 s (the bracket is then wider); shapes the
    parser handles iteratively get one parser-only probe at the deep depth instead of a search; the full
    pipeline is searched only when it crashes where the resolver-cut run still passes (a run-time crash)."""
    recursive_in_parser = {n for n, sh_ in S.NEST.items()
                           if STAGE_CONSTRUCT.get((n, "parser"), sh_["construct"]) in PARSER_CONSTRUCTS}

    def probe(binary, name, cut, d):
        return run_src(binary, S.stage_cut(S.NEST[name]["src"](d), cut), cpu_s=120)

    def search(a):
        name, prof, cut = a
        binary = bins[prof]
        lo, lo_out, hi, d, slow = 0, None, None, 250, False
        while d <= 262144 and not slow:
            o, t = probe(binary, name, cut, d)
            if o == CRASH:
                hi = d
                break
            if o == "timeout":
                break
            lo, lo_out = d, o
            slow = t > 15
            d *= 2
        while hi is not None and hi / max(lo, 1) > 1.04 and not slow:
            mid = (lo + hi) // 2
            o, t = probe(binary, name, cut, mid)
            if o == CRASH:
                hi = mid
            elif o == "timeout":
                break
            else:
                lo, lo_out = mid, o
                slow = t > 15
        row = {"shape": name, "profile": prof, "cut": cut, "max_pass": lo, "pass_outcome": lo_out, "min_crash": hi}
        if slow:
            row["stopped_by"] = "slow passing probe (> 15 s)"
        return row

    jobs = [(n, p, c) for n in S.NEST for p in bins for c in ("parser", "resolver")
            if c == "resolver" or n in recursive_in_parser]
    rows = pmap(search, jobs)
    for n in S.NEST:
        if n not in recursive_in_parser:
            for p in bins:
                o, _t = probe(bins[p], n, "parser", DEEP[p])
                rows.append({"shape": n, "profile": p, "cut": "parser", "max_pass": DEEP[p] if o != CRASH else 0,
                             "pass_outcome": o, "min_crash": DEEP[p] if o == CRASH else None, "single_probe": True})
    # full pipeline: a crash at a depth the resolver-cut run survives is a run-time crash
    full_jobs = []
    for r in [r for r in rows if r["cut"] == "resolver"]:
        d = r["max_pass"]
        o = probe(bins[r["profile"]], r["shape"], "none", d)[0] if d else None
        if o == CRASH:
            full_jobs.append((r["shape"], r["profile"], "none"))
        else:
            rows.append({"shape": r["shape"], "profile": r["profile"], "cut": "none", "max_pass": d, "pass_outcome": o,
                         "min_crash": r["min_crash"], "same_as": "resolver"})
    rows += pmap(search, full_jobs)
    ck.evaluations += len(rows) * 10

    def dsearch(a):
        name, prof = a
        lo, hi, d = 0, None, 1000
        while d <= 256000:
            o = run_src(bins[prof], S.DATA[name]["src"](d, S.CHUNK[prof]), cpu_s=120)[0]
            if o == CRASH:
                hi = d
                break
            if o in ("timeout", "oom"):
                return {"shape": name, "profile": prof, "max_pass": lo, "min_crash": None, "stopped_by": o, "at": d}
            lo = d
            d *= 2
        while hi is not None and hi / max(lo, 1) > 1.1:
            mid = (lo + hi) // 2
            o = run_src(bins[prof], S.DATA[name]["src"](mid, S.CHUNK[prof]), cpu_s=120)[0]
            if o == CRASH:
                hi = mid
            elif o in ("timeout", "oom"):
                break
            else:
                lo = mid
        return {"shape": name, "profile": prof, "max_pass": lo, "min_crash": hi}

    drows = pmap(dsearch, [(n, p) for n in ("wrap", "wrap_chunk", "wrap_chunk_shout", "wrap_chunk_join") for p in bins])
    return {"nest": rows, "data": drows}


MIN_GUARD_DEPTH = 250   # other properties' generators nest at most ~200 deep: the probes must not be felt there


def guard_thresholds(ck, bins, names):
    """Smallest nesting depth at which one of the depth diagnostics of the front end appears (`Program nest
    too deep` from parser or resolver, or the `Analysis skipped …` warning of the resolver's stack rule),
    per construct and profile.  Required to stay above MIN_GUARD_DEPTH, so that ordinary programs (and the
    generators of the other properties) never meet them."""
    def felt(binary, name, d):
        os.makedirs(TMP, exist_ok=True)
        fd, path = tempfile.mkstemp(suffix=".ns", prefix="c08g_", dir=TMP)
        os.write(fd, S.NEST[name]["src"](d).encode())
        os.close(fd)
        try:
            p = subprocess.run([binary, path], stdin=subprocess.DEVNULL, capture_output=True, timeout=300, env=naija_env(),
                               preexec_fn=lambda: resource.setrlimit(resource.RLIMIT_STACK, (MAIN_STACK_KIB * 1024,) * 2))
            text = strip_ansi(p.stdout.decode(errors="replace")[:20000])
        except subprocess.TimeoutExpired:
            return None
        finally:
            os.unlink(path)
        for key, tag in (("]: Program nest too deep", "nest-too-deep"), ("]: Analysis skipped", "analysis-skipped")):
            if key in text:
                m = re.search(r"(error|warning)\[(\w+)\]: " + re.escape(key[3:]), text)
                return f"{tag}:{m.group(2)}" if m else tag
        return ""

    def job(a):
        name, prof = a
        lo, hi = 50, 300000
        top = felt(bins[prof], name, hi)
        if not top or felt(bins[prof], name, lo):
            return name, prof, None, top
        while hi - lo > max(1, lo // 50):
            mid = (lo + hi) // 2
            if felt(bins[prof], name, mid):
                hi = mid
            else:
                lo = mid
        return name, prof, hi, felt(bins[prof], name, hi)

    out = {}
    for name, prof, depth, what in pmap(job, [(n, p) for n in names for p in bins]):
        ck.evaluations += 15
        out.setdefault(prof, {})[name] = {"first_depth": depth, "diagnostic": what}
        if depth is not None and depth < MIN_GUARD_DEPTH:
            ck.broken.append({"kind": "guard-threshold", "what": f"{name} ({prof}): `{what}` already at nesting {depth} "
                              f"(< {MIN_GUARD_DEPTH}): the stack probes are felt by ordinary programs"})
    return out


LEAVES = {
    "shout_string": 'shout("x")', "shout_number": "shout(1.5)", "shout_array": "shout([1, [2, [3, \"a\"]]])",
    "interpolation": 'make q get "v{n}"', "to_string": "make q get to_string(n)",
    "replace": 'make q get "abcabcabcabcabcabcabcabc".replace("bca", "x")', "split_join": 'make q get "a,b,c".split(",").join("-")',
    "find": 'make q get "abcabcabcabcabcabcabc".find("cab")', "upper_trim": 'make q get " ab ".trim().to_uppercase()',
    "slice": 'make q get "abcdef".slice(1, 3)', "to_number": 'make q get "12.5".to_number()',
    "array_ops": "make q get [3, 1, 2]\n        q.push(4)\n        q.reverse()", "read_line": 'make q get read_line("")',
    "command_build": 'make q get command("true")\n        q.arg("a")\n        q.env("K", "v")',
}


def leaf_costs(ck, binary, prof):
    """Stack needed when a (non-recursive) builtin runs right below the budget line: the deepest level
    at which the guard still passes executes the leaf."""
    budget_kib = budget_bytes() // 1024

    def shape(leaf, k):
        return ("do f(n) start\n    if to say (n na " + str(k) + ") start\n        " + leaf + "\n    end\n"
                "    return f(n add 1)\nend\nshout(f(0))\n")

    base = trip_level(binary, lambda lim: ("do f(n) start\n    if to say (n na (0 minus 1)) start\n        shout(0)\n    end\n"
                                           "    if to say (n pass " + str(lim) + ") start\n        return 0\n    end\n"
                                           "    return f(n add 1)\nend\nshout(f(0))\n"))
    if not base:
        return {}

    def job(item):
        name, leaf = item
        worst = 0
        for k in (base - 3, base - 2, base - 1):
            src = shape(leaf, k)
            if run_src(binary, src)[0] == SOE:
                worst = max(worst, min_stack(binary, src, budget_kib))
        return name, worst - budget_kib if worst else None

    out = dict(pmap(job, list(LEAVES.items())))
    ck.evaluations += len(out) * 30
    worst = max((v for v in out.values() if v), default=0)
    if worst > limits()["overshoot"] + limits().get("data", 0):
        ck.broken.append({"kind": "arithmetic", "what": f"{prof}: a builtin below the budget line needs {worst} KiB, "
                          "more than the overshoot allowance of budget_fits_main_stack"})
    return out


# ------------------------------------------------------------------------------------------------
def replay(ck, data):
    """Re-run the recorded program three times on the real binary (and the recorded request lines, if
    any, through harness and model)."""
    rc = 0
    if data.get("generator") == "c08_shapes.composite":
        prof = data.get("profile", "debug")
        binary = ck.build_cli(prof)
        pr = data["params"]
        env = data.get("env", "default")
        src = S.composite(pr["rt_name"], pr["kind"], pr["d"], pr["n"])
        outs = [run_src(binary, src, cpu_s=240, fresh=True, env=env)[0] for _ in range(3)]
        print(f"program: c08_shapes.composite(rt_name={pr['rt_name']!r}, kind={pr['kind']!r}, d={pr['d']}, n={pr['n']})  "
              f"[{len(src)} bytes; python3 -c \"import sys; sys.path.insert(0, 'checks'); import c08_shapes as S; "
              f"print(S.composite({pr['rt_name']!r}, {pr['kind']!r}, {pr['d']}, {pr['n']}))\" > crash.ns]")
        print(f"profile={prof} env={env} implementation outcomes (8 MiB stack): {outs}")
        print(f"  the recursion alone (tower of height 0): {run_src(binary, S.composite(pr['rt_name'], pr['kind'], pr['d'], 0), env=env)[0]}"
              f"; the tower alone (recursion depth 0): {run_src(binary, S.composite(pr['rt_name'], pr['kind'], 0, pr['n']), env=env)[0]}")
        print("model: runtime_depth_bound -- every cycle of the evaluator passes a probe (exec_stmt descends into a nested "
              "block only after a probe on every path: exec_stmt_descents_probed_on_every_path)")
        print("oracle: outcome must be `ok`, a diagnostic or `stack-overflow-error`; never native-overflow")
        if CRASH in outs:
            rc = 1
    elif data.get("shape") in S.ALL:
        prof = data.get("profile", "debug")
        binary = ck.build_cli(prof)
        sh_ = S.ALL[data["shape"]]
        depth = data.get("depth", S.INF)
        if sh_["kind"] == "data":
            src = sh_["src"](depth, DATA_CHUNK_DEEP[prof])
        else:
            src = sh_["src"](depth)
        if sh_["kind"] == "nest" and data.get("cut") in ("parser", "resolver"):
            src = S.stage_cut(src, data["cut"])
        outs = [run_src(binary, src, cpu_s=240, fresh=True, env=data.get("env", "default"))[0] for _ in range(3)]
        print(f"shape={data['shape']} depth={depth} profile={prof} cut={data.get('cut', 'none')} env={data.get('env', 'default')} "
              f"implementation outcomes (8 MiB stack): {outs}")
        sig = data.get("signature") or {}
        if sig.get("defect") == "C08-env":
            print("model: obligation budget_fits_main_stack (STACK_BUDGET + overshoot + environment allowance + headroom "
                  f"<= 8 MiB); environment of this run: {env_bytes(data.get('env', 'default'))} bytes "
                  f"({ENV_VARS} variables x {ENV_VAR_BYTES} bytes when `large`; none when `empty`)")
        elif sig:
            print("model: the stage is on an unguarded cycle (Props/C08.lean, negative theorems)")
        else:
            print("model: n/a")
        print("oracle: outcome must be `ok`, a diagnostic or `stack-overflow-error`; never native-overflow")
        if CRASH in outs:
            rc = 1
    reqs = data.get("requests") or []
    if reqs:
        inp = ("\n".join(reqs) + "\n").encode()
        impl = sh([ck.nvh(), "depth", "run"], inp=inp).stdout.decode().splitlines()
        mod = sh([DRIVER, "depth"], inp=inp).stdout.decode().splitlines()
        print("request | implementation (source scan) | model")
        for i, r in enumerate(reqs):
            a = impl[i] if i < len(impl) else "?"
            b = mod[i] if i < len(mod) else "?"
            print(f"{r} | {a} | {b}")
            if a != b:
                rc = 1
    if data.get("kind") == "tie-broken":
        print(json.dumps(data.get("broken", []), indent=1))
        rc = 1
    return rc
