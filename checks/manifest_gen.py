"""Regenerates MANIFEST.json from the table below (run: python3 checks/manifest_gen.py)."""
import json
import os

VERIF = os.path.dirname(os.path.dirname(os.path.abspath(__file__)))

# id -> (technique, level text, level note, design ref). A property is emitted under `checks` only
# when it is listed in ACTIVE (its check exists and passes on the unchanged tree); the others go under
# `not_applicable` with the reason "not built yet".
T_PROOF = "Lean 4 machine-checked proof about an executable model"
CLAIMED = {
    "C01": (T_PROOF + ": Pratt print/parse round trip over the extracted binding-power table, evaluator laws and fuel monotonicity over the evaluator model; correspondence of lexer, parser, resolver and evaluator models with the real pipeline on generated programs and on a boundary corpus (one count at 255/256/257, 65 535…65 537)",
            "Theorems (no sorry/axioms): for every text the front-end model accepts iff there is no lexical / syntax diagnostic and the parsed tree satisfies the documented well-formedness judgement (c01_accepted_iff_clean_and_valid), a valid canonical program is never rejected in any layout and runs like its tree (c01_valid_never_rejected, c01_accepted_runs_like_the_tree, and their _anyflag versions over parse_ignores_str_flag, which cover plain string literals whatever escape flag the lexer sets); what a valid text does is what the documented semantics of its tree says, whatever the layout, the caps and the optimisation plan (c01_text_means_tree, composing C09, C10, C03 and C06); theorems pin precedence/associativity for all expressions, short-circuit and left-to-right evaluation, truthiness, loop unrolling, call/return and concatenation/interpolation laws for all terms, states and fuel; the models are tied to the code by regenerated tables (keywords, binding powers, builtins, type rules) and differential runs of the Lean pipeline against the real interpreter.",
            "Trusted: Lean kernel, extractors, harness/driver; numbers are an abstract NumOps structure in theorems (the driver instantiates IEEE doubles, validated against Rust each run); std string functions assumed.",
            "DESIGN.md §5 C01"),
    "C02": (T_PROOF + ": safety invariant of an abstract-interpretation memory evaluator (handles/regions, oracle-resolved control flow) for every program, oracle and fuel; tie by frame/no-frame differential and hook event traces",
            "Proof that the (repaired) reclamation discipline never reads a recycled region and that runs with and without reclamation observe the same contents, for all programs and all control-flow oracles; tied to runtime.rs by differential execution with and without a frame arena in the poisoning debug build and by comparing hook-reported memory event traces with the model's.",
            "Trusted: Lean kernel, harness, hooks; allocation freshness is the C11/C12 models' guarantee; Vec growth and std copying assumed.",
            "DESIGN.md §5 C02"),
    "C03": (T_PROOF + ": soundness of the analysis model (reachability, effect classes, summaries, liveness) w.r.t. the evaluator model for any plan contained in the model's plan; correspondence on facts/plan/warnings + plan/no-plan differential",
            "Theorems that pruned statements never change the run (simulation on live variables), unreachable statements never execute, PureNoTrap expressions neither trap nor have effects — proved on an evaluator with abstract lawful primitives, instantiated with the shared evaluator's own primitives (c03_concrete) and proved equivalent up to fuel to the shared evaluator model in both directions (c03_bridge, c03_bridge_converse), hence c03_eval for Eval.run itself and c03_pipeline for the composed pipeline model; the real plan is checked to be contained in the model's plan on generated programs, the real runtime is run with and without the plan, and the concrete instance is run against the real runtime (arun).",
            "Trusted: Lean kernel, harness; runs ending in fuel/stack exhaustion excluded as the property says; the bridge side conditions and most conjuncts of structOkB are proved for every accepted output of the resolver model (resolve_okBlock, resolve_structProved, sumOkB, …); the remainder structRest2B (variable part of efitList, own-store table, loop fixpoints, pure bodies) is a decidable, plan-free hypothesis evaluated by the driver on every tested program (it is false exactly for stores whose initialiser mutates another variable — never pruned — 38 of 646 generated programs).",
            "DESIGN.md §5 C03"),
    "C04": (T_PROOF + ": resolver model binds to the nearest enclosing declaration; most-recent-instance invariant makes dynamic id lookup equal lexical lookup on every reachable evaluator state",
            "Static theorem (binding = nearest enclosing declaration; functions visible throughout their block) and dynamic theorem (the runtime's whole-stack search by id finds the lexically visible instance) over the resolver and evaluator models; both models are tied to the code by differential runs (bindings and outputs).",
            "Trusted: Lean kernel, harness; pointer-keyed tables abstracted as annotations. The bridge theorem (Props/C04Bridge: every program the resolver model accepts is WellScoped) removes the hypothesis of the dynamic theorem; the pre-fix whole-stack lookup (D-04, fixed e5abdc8) is kept as a refuted variant.",
            "DESIGN.md §5 C04"),
    "C05": (T_PROOF + ": frame theorems for index assignment, push/pop/reverse and reads over the evaluator model; correspondence on generated array programs",
            "For all states, paths and values a mutation through one variable changes exactly that cell; reads change nothing; copies are independent — proved on the evaluator model, which is tied to runtime.rs by differential runs biased to copy → nested write → read-both sequences.",
            "Trusted: Lean kernel, harness; sharing in the Rust Vec representation is excluded by the tie and by C02, not by the pure model.",
            "DESIGN.md §5 C05"),
    "C06": (T_PROOF + ": progress theorem over the evaluator model with explicit panic outcomes; generated panic-site list must be covered; exhaustive sink × type × route product in the tie",
            "Accepted programs never reach a panic outcome of the evaluator model (Props/C06Accepted: all nine residual sites discharged from the lexer, parser and resolver models, for source text through the pipeline model; c06_pipeline_unconditional: the shipped pipeline model — lex, parse, resolve, analyses, run with the analyses' own plan — never reaches a panic outcome, for every source text; the plan condition is call-graph reachability (PlanReach), proved for the analysis model's plan on every output of the resolver model, and evaluated by the driver on the REAL plan and annotations of every accepted program; remaining explicit hypothesis: the number type parses digit lexemes); the model's panic sites are checked against a list regenerated from runtime.rs/builtins; the finite product of operator/condition/index/method sinks × runtime types × dynamic routes is executed completely on the real runtime each run.",
            "Trusted: Lean kernel, extractor of panic sites, harness worker isolation; NumLitsParse (str::parse::<f64> accepts digits and digits.digits) is an assumption on the number type.",
            "DESIGN.md §5 C06"),
    "C07": (T_PROOF + ": lexer/parser totality (fuel adequacy) and span theorems (ordered, in range, on character boundaries) over the front-end models; pipeline-wide span safety and renderability (analysis warnings, limit warning, the runtime error a run ends with); correspondence on arbitrary UTF-8, truncations and token mutations",
            "For every UTF-8 text the lexer and parser models terminate, all token/AST/diagnostic/label spans are ordered, in range and on character boundaries; models tied to scanner.rs/parser.rs/resolver.rs by differential runs incl. renderer survival, with worker isolation for aborts.",
            "Trusted: Lean kernel, extractor of lexical tables, harness; nesting depth within the native stack is C08's subject.",
            "DESIGN.md §5 C07"),
    "C08": (T_PROOF + ": guard-coverage theorem over the evaluator's recursion graph (every cycle passes a guarded frame; depth ≤ budget + max guard-free path); measured frame costs and crash-threshold sweep in 8 MiB children",
            "Partial: the theorem bounds native depth by STACK_BUDGET plus the largest guard-free chain for evaluator, parser and checker (guards added by fix 4fc914f; the pre-fix unguarded recursion is kept as refuted variants); frame sizes are measured, and every recursion shape is run past the budget in debug and release under an 8 MiB stack.",
            "Trusted: Lean kernel, extractor of guard sites; compiled frame sizes are measured, not proved (labelled partial).",
            "DESIGN.md §5 C08"),
    "C09": (T_PROOF + ": checker model vs declarative well-formedness judgement: scoping diagnostics equal the declarative violations for every program (rule, span, order); typing rules proved in step with the specification for every program, unconditionally (c09_full_holds, after the repairs D-09b fc05160 and D-09f edc06b4); probed operator/builtin/return-type tables compared with the model's and the documented ones by decide; correspondence on diagnostics for well-formed programs and injected single-rule violations",
            "Theorems relate the resolver model's diagnostics to a declarative WF judgement rule by rule — c09_full_holds: for every program, the resolver model reports no diagnostic iff the program has no scoping and no typing violation of the declarative judgement, whatever its functions return and whether or not return-type rounds settle; the type tables and return-type-inference probes are taken from the real checker each run and the model's diagnostics are compared with the real ones on generated programs with single-rule violations in every context, incl. the composed source-text stream.",
            "Trusted: Lean kernel, probe/extractors, harness; the pre-fix checkers D-09b (fixed fc05160) and D-09f (fixed edc06b4: recovery type became a result type when return-type rounds did not settle) are kept as pinned variants with decided falsity witnesses; no open finding.",
            "DESIGN.md §5 C09"),
    "C10": (T_PROOF + ": lexer round trip render/lex for all token sequences and all valid separator assignments; parser depends on token kinds only; redundant parentheses erased (Pratt round trip); every later stage commutes with span erasure (end-to-end c10_pipeline)",
            "Any two valid layouts of one token sequence lex alike (proved for all sequences and layouts), parsing depends only on token kinds, full parenthesisation parses to the same tree, and resolver, limit preflight, analyses and evaluator commute with span erasure — c10_pipeline: the two texts have the same pipeline observation (stage, diagnostic kinds, printed values, ending, runtime-error kind) for every caps, configuration and fuel; c10_redundant_parentheses_run; the parser ignores the escape flag of brace-free string tokens (parse_ignores_str_flag), so the printer-based theorems cover every plain string literal; tied to the code by differential runs and by re-layout differentials on the real interpreter.",
            "Trusted: Lean kernel, extractor of lexical tables, harness.",
            "DESIGN.md §5 C10"),
    "C11": (T_PROOF + ": invariant and frame theorems over all arena operation histories (alloc/grow/shrink/reset/decommit/scratch); correspondence with the real Arena through the Allocator API and hooks",
            "For every history: blocks in bounds, aligned (absolute address), pairwise disjoint since the last reset below them; grow preserves contents; clean failure exactly when the request does not fit; reset reuse — proved on the model, tied to bump.rs by differential histories with shadow ranges and byte patterns.",
            "Trusted: Lean kernel, harness, hooks; mmap/mprotect/madvise assumed; sizes ≤ isize::MAX and capacity < 2^48 are explicit guards.",
            "DESIGN.md §5 C11"),
    "C12": ("Lean 4 invariant proof over pool histories + generated size-class tables (decide) + correspondence of the model with the real Pool/PoolSet through hooks (size-class probes around every multiple of a power of two up to u32::MAX; histories with large fallback requests)",
            "Machine-checked proof (Lean 4, no sorry/axioms) that every legal alloc/release history of the pool model keeps exclusive ownership and conservation, that size classes fit and are minimal, that the wrapping ownership test is exact, that release finds the slot and class it came from, that fallback buffers are never recycled and that buffers of different classes never overlap; the model is tied to pool.rs by tables regenerated from the compiled crate and by differential runs of model and real Pool/PoolSet on generated histories, with an implementation-level shadow oracle for the search.",
            "Trusted: Lean kernel, extractor, harness/driver, hooks; releases are of live buffers with the requested size (the code's Safety contract; discharged for the interpreter by C02).",
            "DESIGN.md §5 C12"),
    "C13": (T_PROOF + ": find = first occurrence through all search tiers incl. the two-way matcher (termination, in-range indexing), replace/split/join/slice/len specifications, UTF-8 self-synchronisation; correspondence incl. enumeration over small alphabets and lengths / offsets / occurrence counts at 254…258 and 511…513",
            "For all byte strings the search model returns the first occurrence and terminates, replace/split/join/slice/len meet their specifications and outputs are valid UTF-8; tied to tw.rs/replace.rs/string.rs by differential runs across all tiers.",
            "Trusted: Lean kernel, harness; memchr modelled by its specification; trim/case mapping/float parsing are Rust std (validated only by the tie).",
            "DESIGN.md §5 C13"),
    "C14": (T_PROOF + ": scratch-arena protocol safety for the CLI/playground wiring extracted from the source (decide on the extracted protocol + generic lemma), exit-code decision; CLI vs library vs in-process run sequences",
            "Partial: the borrow/reset protocol extracted from cmd.rs and wasm/src/lib.rs keeps the arena roles disjoint and restores both arenas, so consecutive runs start from the same state; the real binary is compared with the library pipeline and sequences of runs with single runs.",
            "Trusted: Lean kernel, extractor of the protocol and of process-global items, harness; that the interpreter reads no addresses is by construction in the model (labelled partial).",
            "DESIGN.md §5 C14"),
    "C15": (T_PROOF + ": builder state machine, validate exactness at every cap boundary, last-write-wins env, gate before spawn; correspondence with the real ProcessCommand/validate and an echoing child",
            "For every builder history the spec holds exactly the configured argv/env/cwd/stdin; validate accepts iff every cap is respected (each boundary exact); denied or invalid commands spawn nothing — proved on the model and compared with the real code incl. real child processes.",
            "Trusted: Lean kernel, harness; std::process::Command (no shell interpretation) trusted and observed.",
            "DESIGN.md §5 C15"),
    "C16": (T_PROOF + ": inductive invariant over all interleavings of a transition-system model of child, pipes, reader threads (incl. failing reads), stdin writer thread, overflow flag and polling waiter; real runs under varied timing must land in the allowed outcome set; the real capture loop on scripted readers with injected read errors",
            "Partial: in every terminal state of the model the result is the complete output or the corresponding error and killed children are reaped; a failing read of a captured stream always ends in an error; the timeout/kill logic is independent of the stdin writer and a child that outlives the deadline is reported as a timeout whatever the stdin size; OS scheduling and pipe semantics are modelled assumptions; the real runner is exercised under varied timing incl. CPU-starved schedules and stdin texts larger than the pipe buffer against non-reading children.",
            "Trusted: Lean kernel, harness; pipe/kill/wait semantics assumed (labelled partial).",
            "DESIGN.md §5 C16"),
    "C17": (T_PROOF + ": for every chunking of every text k calls return the first k lines (induction over the chunk list with the leftover buffer as invariant); real read_line fed through a pipe with controlled chunks",
            "Theorem over all texts, all chunkings and all call counts for the model of read_line; the real function is driven through a real pipe with controlled chunk boundaries and compared with the model.",
            "Trusted: Lean kernel, harness; read(2) returns a non-empty prefix of the available bytes (assumed).",
            "DESIGN.md §5 C17"),
    "C18": (T_PROOF + ": staged limit check exact at every boundary, first-exceeded-in-stage-order, limit ⇒ no plan and one warning, empty plan ⇒ same run; c18_pipeline: for any two caps the composed pipeline has the same observation up to fuel and warnings differ only by the limit warning; summary-event budget proved sufficient below the preflight limits for every call graph, component list and fuel (potential-function argument), equal-share design refuted; generated caps table + programs sized around each default cap; the real summary fixpoint against its model with budgets from the bound down to 0; programs at the statement limit and far above the liveness limit (term past 2^32) through the shipped binary",
            "Theorems about the limits model (exactness, stage order, pipeline decision) and run equivalence under an absent plan; counts and decisions compared with the real analysis on random programs with small caps and on generated programs just below/at/above every default cap; the summary fixpoint (events, single global budget, Kosaraju scheduling) modelled and compared with the real one per function; large call-graph components below the limits against ring-of-3 twins; statement-heavy and binding-sensitive programs around the statement limit through the shipped binary.",
            "Trusted: Lean kernel, extractor of DEFAULT_CAPS, harness; the scheduling order of components is checked by correspondence, not proved (the budget theorems hold for every order); memory is finite: about 1 M statements exhaust the shipped binary's scratch arenas (D-20).",
            "DESIGN.md §5 C18"),
}

# Properties whose check is built, passes on the unchanged tree and is claimed.
ACTIVE = [l.strip() for l in open(os.path.join(VERIF, "active_properties.txt")) if l.strip() and not l.startswith("#")]

NOT_YET = {}

ALL = [f"C{n:02d}" for n in range(1, 19)]


def main():
    checks = []
    for pid in ALL:
        if pid not in CLAIMED or pid not in ACTIVE:
            continue
        tech, text, note, ref = CLAIMED[pid]
        checks.append({
            "property_id": pid,
            "quick_cmd": f"./check {pid} --tier quick",
            "thorough_cmd": f"./check {pid} --tier thorough",
            "evidence_file": f"/verif/evidence/{pid}.json",
            "replay_cmd_template": f"./check {pid} --replay {{path}}",
            "engine": "lean4-proof+correspondence",
            "level_claimed": {"category": "proof", "text": text, "design_ref": ref},
            "level_note": note,
            "technique": tech,
        })
    na = [{"property_id": pid, "reason": NOT_YET.get(pid, "check not built yet in this round (planned: Lean 4 model + theorems + correspondence, see DESIGN.md §5); not claimed until it exists")}
          for pid in ALL if pid not in ACTIVE]
    hooks_commits = [l.strip() for l in open(os.path.join(VERIF, "hooks_commits.txt")) if l.strip()]
    man = {
        "version": 1,
        "setup_cmd": "./check setup",
        "hooks": {
            "guard": "cargo features verif-hooks and verif-hooks-capture (both off by default)",
            "enable": "harness/Cargo.toml depends on /repo by path with features = [\"verif-hooks\"]; cargo build in harness/. The capture-loop hook has its own feature verif-hooks-capture, used only by the small binary harness-caprd that checks/c16.py builds. Later hook commits (650b11d, ef7ff1e) only touch lines that earlier hook commits added.",
            "baseline_off_cmd": "cd /repo && cargo test --workspace --no-fail-fast --offline",
            "source_commits": hooks_commits,
            "add_only": True,
        },
        "engines": [
            {"name": "lean4-proof+correspondence", "path": "lean/ harness/ checks/ extract/",
             "serves_properties": [c["property_id"] for c in checks],
             "kind_free_text": "Lean 4 theorems about executable models (lake build, #print axioms audit, leanchecker in thorough); models tied to /repo by regenerated tables and by differential runs of the compiled Lean driver against the real crate in-process"},
        ],
        "checks": checks,
        "notes": "All checks: `./check <ID> --tier quick|thorough`; evidence in evidence/<ID>.json; replays in evidence/replays/. Known findings in known_findings.jsonl.",
        "not_applicable": na,
    }
    with open(os.path.join(VERIF, "MANIFEST.json"), "w") as f:
        json.dump(man, f, indent=1)
        f.write("\n")


if __name__ == "__main__":
    main()
