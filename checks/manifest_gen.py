"""Regenerates MANIFEST.json from the table below (run: python3 checks/manifest_gen.py)."""
import json
import os

VERIF = os.path.dirname(os.path.dirname(os.path.abspath(__file__)))

# id -> (technique, level text, level note, design ref)
CLAIMED = {
    "C12": ("Lean 4 invariant proof over pool histories + generated size-class tables (decide) + correspondence of the model with the real Pool/PoolSet through hooks",
            "Machine-checked proof (Lean 4, no sorry/axioms) that every legal alloc/release history of the pool model keeps exclusive ownership and conservation, that size classes fit and are minimal, that the wrapping ownership test is exact and that release finds the slot it came from; the model is tied to pool.rs by tables regenerated from the compiled crate and by differential runs of model and real Pool/PoolSet on generated histories, with an implementation-level shadow oracle for the search.",
            "Trusted: Lean kernel, extractor, harness/driver, hooks; releases are of live buffers with the requested size (the code's Safety contract; discharged for the interpreter by C02).",
            "DESIGN.md §5 C12"),
}

NOT_YET = {}

ALL = [f"C{n:02d}" for n in range(1, 19)]


def main():
    checks = []
    for pid in ALL:
        if pid not in CLAIMED:
            continue
        tech, text, note, ref = CLAIMED[pid]
        checks.append({
            "property_id": pid,
            "quick_cmd": f"./check {pid} --tier quick",
            "thorough_cmd": f"./check {pid} --tier thorough",
            "evidence_file": f"/verif/evidence/{pid}.json",
            "replay_cmd_template": f"./check {pid} --replay {{path}}",
            "engine": "lean4-proof+correspondence",
            "level_claimed": {"category": "proof", "text": text, "design_ref": ref},
            "level_note": note,
            "technique": tech,
        })
    na = [{"property_id": pid, "reason": NOT_YET.get(pid, "check not built yet in this round (planned: Lean 4 model + theorems + correspondence, see DESIGN.md §5); not claimed until it exists")}
          for pid in ALL if pid not in CLAIMED]
    hooks_commits = [l.strip() for l in open(os.path.join(VERIF, "hooks_commits.txt")) if l.strip()]
    man = {
        "version": 1,
        "setup_cmd": "./check setup",
        "hooks": {
            "guard": "cargo feature verif-hooks",
            "enable": "harness/Cargo.toml depends on /repo by path with features = [\"verif-hooks\"]; cargo build in harness/",
            "baseline_off_cmd": "cd /repo && cargo test --workspace --no-fail-fast --offline",
            "source_commits": hooks_commits,
            "add_only": True,
        },
        "engines": [
            {"name": "lean4-proof+correspondence", "path": "lean/ harness/ checks/ extract/",
             "serves_properties": [c["property_id"] for c in checks],
             "kind_free_text": "Lean 4 theorems about executable models (lake build, #print axioms audit, leanchecker in thorough); models tied to /repo by regenerated tables and by differential runs of the compiled Lean driver against the real crate in-process"},
        ],
        "checks": checks,
        "notes": "All checks: `./check <ID> --tier quick|thorough`; evidence in evidence/<ID>.json; replays in evidence/replays/. Known findings in known_findings.jsonl.",
        "not_applicable": na,
    }
    with open(os.path.join(VERIF, "MANIFEST.json"), "w") as f:
        json.dump(man, f, indent=1)
        f.write("\n")


if __name__ == "__main__":
    main()
