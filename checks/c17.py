"""C17 — read_line delivers successive input lines, whatever the chunking.

Proof: Props/C17.lean (`c17`: for every text, every chunking and every k the k calls of the fixed
`read_line` return the first k lines; `c17_old_is_false`: the pinned algorithm does not).
Tie: the real `read_line` is fed through a real pipe, one chunk per write, the next chunk only when
the pipe is drained (harness/src/readline.rs), in-process (one process per case) and through the
`naija` binary (pipe and file); the answers are diffed against the Lean driver.
Oracle (no model): the concatenated text cut at '\\n' by hand."""
import os
import re

from common import Check, sh, DRIVER, TMP, LEAN, VERIF

FAMILY = "readline"


# ------------------------------------------------------------------ requests
def unhex(h):
    """A chunk: `+`-joined parts, each plain hex (`-` = empty) or a run `HH*N` (N copies of the byte HH)."""
    out = b""
    for part in h.split("+"):
        if "*" in part:
            b, n = part.split("*")
            out += bytes.fromhex(b) * int(n)
        elif part != "-":
            out += bytes.fromhex(part)
    return out


LONG_LINE = 256 * 1024


def fnv64(b):
    h = 0xcbf29ce484222325
    for x in b:
        h = ((h ^ x) * 0x100000001b3) & 0xFFFFFFFFFFFFFFFF
    return h


def show_line(x):
    if len(x) > LONG_LINE:
        return "L%d:%016x" % (len(x), fnv64(x))
    return x.hex() if x else "-"


def rle(x):
    """Hex of a chunk, with runs of >= 64 equal bytes written `HH*N` (requests with lines of several MiB)."""
    if len(x) < 4096:
        return x.hex() if x else "-"
    parts, i, lit = [], 0, bytearray()
    while i < len(x):
        j = i
        while j < len(x) and x[j] == x[i]:
            j += 1
        if j - i >= 64:
            if lit:
                parts.append(lit.hex())
                lit = bytearray()
            parts.append("%02x*%d" % (x[i], j - i))
        else:
            lit += x[i:j]
        i = j
    if lit:
        parts.append(lit.hex())
    return "+".join(parts)


def parse(req):
    w = req.split()
    chunks = [unhex(x) for x in w[1].split("|")]
    calls = int(w[2].split("=")[1])
    delay = 0
    for x in w[3:]:
        if x.startswith("delay="):
            delay = int(x[6:])
    return chunks, calls, delay


def mk(chunks, calls, delay=0):
    c = "|".join(rle(x) for x in chunks) or "-"
    return f"chunks {c} calls={calls}" + (f" delay={delay}" if delay else "")


def flatten(req):
    """The same input delivered from a file: one chunk (a read is only bounded by the buffer)."""
    chunks, calls, _ = parse(req)
    return mk([b"".join(chunks)], calls)


def py_oracle(req):
    """Third, independent statement of the property: cut the text at '\\n' by hand."""
    chunks, calls, _ = parse(req)
    text = b"".join(chunks)
    out, pos = [], 0
    for _ in range(calls):
        end = text.find(b"\n", pos)
        if end < 0:
            out.append(text[pos:])
            pos = len(text)
        else:
            out.append(text[pos:end])
            pos = end + 1
    if not out:
        return "lines=none utf8=none"

    def ok(b):
        try:
            b.decode("utf-8")
            return "1"
        except UnicodeDecodeError:
            return "0"

    return "lines=" + ",".join(show_line(x) for x in out) + " utf8=" + "".join(ok(x) for x in out)


def initial_cap():
    """The initial buffer capacity the extractor found in /repo (Gen/ReadLine.lean)."""
    try:
        src = open(os.path.join(LEAN, "NaijaVerif", "Gen", "ReadLine.lean")).read()
        return int(re.search(r"def initialCap : Nat := (\d+)", src).group(1))
    except Exception:  # noqa: BLE001
        return 8192


def corpus_requests():
    d = os.path.join(VERIF, "corpus", "C17")
    out = []
    for fn in sorted(os.listdir(d)) if os.path.isdir(d) else []:
        for line in open(os.path.join(d, fn)):
            line = line.strip()
            if line and not line.startswith("#"):
                out.append(line)
    return out


def boundary_requests(cap):
    """Line lengths just below, at and above the buffer's initial capacity and its doublings, all at
    once, cut at the capacity, cut inside a multi-byte character at the capacity, and followed by a
    second line in the same chunk."""
    out = []
    euro = "€".encode()
    for n in (cap - 1, cap, cap + 1, 2 * cap - 1, 2 * cap, 2 * cap + 1, 3 * cap, 4 * cap + 1):
        a = b"x" * n
        # 'p' + 3-byte characters: the buffer edge falls inside a character
        m = b"p" + euro * ((n - 1) // 3)
        m = m + b"y" * (n - len(m))
        for line in (a, m):
            text = line + b"\nnext\nlast"
            out.append(mk([text], 4))
            out.append(mk([text[:cap], text[cap:]], 4))
            out.append(mk([text[:cap - 1], text[cap - 1:cap + 1], text[cap + 1:]], 4))
            out.append(mk([line, b"\n", b"next\nlast"], 4))
            out.append(mk([line], 2))
    return out


# ---------------------------------------------------------------- classification
def classify(ck, reqs, cap):
    for r in reqs:
        try:
            chunks, calls, delay = parse(r)
        except Exception:  # noqa: BLE001
            ck.count("malformed_requests")
            continue
        text = b"".join(chunks)
        lines = text.split(b"\n")
        nonempty = [c for c in chunks if c]
        ck.count("cases")
        ck.count(f"chunks_{min(len(nonempty), 8)}{'+' if len(nonempty) >= 8 else ''}")
        # a read that delivers bytes behind a newline, with enough calls to need them
        seen_nl, leftover = 0, False
        for c in nonempty:
            i = c.find(b"\n")
            if 0 <= i < len(c) - 1 and calls >= seen_nl + 2:
                leftover = True
            seen_nl += c.count(b"\n")
        long_line = any(len(l) > cap for l in lines)
        feats = {
            "bytes_behind_newline_in_a_chunk": leftover,
            "line_longer_than_buffer": long_line,
            "line_exactly_buffer": any(len(l) == cap for l in lines),
            "multibyte": any(b >= 0x80 for b in text),
            "cut_inside_character": any(c and (c[0] & 0xC0) == 0x80 for c in nonempty[1:]),
            "crlf": b"\r\n" in text,
            "no_final_newline": bool(text) and not text.endswith(b"\n"),
            "empty_line": b"\n\n" in text or text.startswith(b"\n"),
            "empty_input": not text,
            "empty_chunk": any(not c for c in chunks) and bool(text),
            "one_byte_chunks": len(nonempty) > 1 and all(len(c) == 1 for c in nonempty),
            "calls_past_end": calls > len(lines) - (1 if text.endswith(b"\n") or not text else 0),
            "calls_fewer_than_lines": calls < text.count(b"\n"),
            "delayed": delay > 0,
            "invalid_utf8": _invalid(text),
        }
        for k, v in feats.items():
            if v:
                ck.count(k)
        if leftover or long_line:
            ck.nontrivial_case(r)
            if len(ck.samples) < 4 and len(r) < 200:
                ck.samples.append({"request": r, "expected": py_oracle(r)})


def _invalid(b):
    try:
        b.decode("utf-8")
        return False
    except UnicodeDecodeError:
        return True


# ------------------------------------------------------------------------ streams
ALL_FAILS = []   # (request, implementation answer) of every oracle failure of every stream


def _collect(reqs, res):
    """Remember every oracle failure of the stream, then drop the bulky answer lists (the streams
    are long and mostly hex)."""
    for l in res["stderr"]:
        m = re.match(r"ORACLE-FAIL (\d+) ", l)
        if m:
            i = int(m.group(1)) - 1
            if i < len(reqs):
                ALL_FAILS.append((reqs[i], res["impl_lines"][i] if i < len(res["impl_lines"]) else "died"))
    for k in ("impl_lines", "model_lines", "stderr"):
        res.pop(k, None)
    return res


def stream_inproc(ck, reqs, label):
    return _collect(reqs, ck.corr(FAMILY, reqs, label=label))


def stream_cli(ck, naija, reqs, label, from_file=False):
    args = ["cli", "--naija", naija, "--tmp", TMP] + (["--file"] if from_file else [])
    return _collect(reqs, ck.corr(FAMILY, reqs, nvh_args=tuple(args), label=label))


def run(ck: Check):
    ck.rule = ("texts of 0-6 lines (lengths 0-40 and around the buffer capacity and its doublings, multi-byte, CRLF, "
               "missing final newline) under 10 kinds of chunking, fed through a real pipe one write per chunk; "
               "non-trivial = some read delivers bytes behind a newline that a later call has to return, or a line "
               "is longer than the initial buffer; distinct by request text")
    ck.assumptions.append("read(2) on a pipe returns min(available, count) bytes of the oldest unread write, a write "
                          "that fits the empty pipe becomes visible atomically, and 0 only after the writer closed "
                          "(the chunk-stream model); Vec growth and memchr are modelled, not verified")
    ck.build_harness()
    ck.gen_tables()
    ck.lean_obligations(["NaijaVerif.Props.C17"])
    ck.build_driver(families=["ReadLine"])
    naija = ck.build_cli()
    cap = initial_cap()
    quick = ck.tier == "quick"

    fixed = corpus_requests() + boundary_requests(cap)
    classify(ck, fixed, cap)
    stream_inproc(ck, fixed, "readline-corpus")
    valid = [r for r in fixed if not _invalid(b"".join(parse(r)[0]))]
    stream_cli(ck, naija, valid, "readline-corpus-cli-pipe")
    stream_cli(ck, naija, [flatten(r) for r in valid], "readline-corpus-cli-file", from_file=True)

    # generated cases, in batches (a batch of 10 000 requests is ~100 MB of hex)
    batches = [(1500, 400)] if quick else [(10000, 1500)] * 10
    first = []
    for b, (n, ncli) in enumerate(batches):
        shift = 1000003 * b
        ck.seed += shift
        reqs = ck.gen(FAMILY, ["--n", n, "--cap", cap])
        ck.seed += 7919
        creqs = ck.gen(FAMILY, ["--n", ncli, "--valid-utf8", "--cap", cap])
        ck.seed -= 7919 + shift
        tag = f"-{b}" if b else ""
        classify(ck, reqs, cap)
        stream_inproc(ck, reqs, "readline-inprocess" + tag)
        classify(ck, creqs, cap)
        stream_cli(ck, naija, creqs, "readline-cli-pipe" + tag)
        stream_cli(ck, naija, [flatten(r) for r in creqs], "readline-cli-file" + tag, from_file=True)
        if b == 0:
            first = reqs[:1500]
        if len(ALL_FAILS) > 2000:
            break   # plenty to minimise from

    if not quick:
        ck.leanchecker(["NaijaVerif.Props.C17"])
        exhaustive(ck, cap)
        timing_sweep(ck, first)
    if ck.is_broken():
        search(ck, cap)
    return ck.finish()


def exhaustive(ck, cap):
    """Every text over {a, é-lead, é-cont, \\n} up to 5 bytes under every chunking (2^(n-1) ways to cut),
    with one call more than there are lines: validates the tie on the whole small space (not the
    proof)."""
    import itertools
    alphabet = [b"a", b"\n", b"\xc3", b"\xa9"]
    reqs = []
    for n in range(0, 6):
        for t in itertools.product(alphabet, repeat=n):
            text = b"".join(t)
            k = text.count(b"\n") + 2
            for mask in range(1 << max(n - 1, 0)):
                chunks, cur = [], b""
                for i in range(n):
                    cur += text[i:i + 1]
                    if i < n - 1 and (mask >> i) & 1:
                        chunks.append(cur)
                        cur = b""
                chunks.append(cur)
                reqs.append(mk(chunks, k))
    classify(ck, reqs, cap)
    stream_inproc(ck, reqs, "readline-exhaustive-len5")
    ck.extra_cov["exhaustive_texts_len5_all_chunkings"] = len(reqs)


def timing_sweep(ck, reqs):
    """The same requests with different pauses between drain and next write: the answers must not
    depend on time (they are compared with the time-free model)."""
    for d in (100, 2000):
        out = []
        for r in reqs:
            chunks, calls, _ = parse(r)
            if len(chunks) <= 6:
                out.append(mk(chunks, calls, d))
        stream_inproc(ck, out, f"readline-delay-{d}us")


# ------------------------------------------------------------------------- search
def impl_answer(ck, req):
    p = sh([ck.nvh(), FAMILY, "run"], inp=(req + "\n").encode(), timeout=600)
    lines = p.stdout.decode(errors="replace").splitlines()
    return (lines[0] if lines else "died"), (b"ORACLE-FAIL" in p.stderr)


def fails(ck, req, times=1):
    return all(impl_answer(ck, req)[1] for _ in range(times))


def failure_class(answer):
    return "crash" if ("died" in answer or "!" in answer or not answer.startswith("lines=")) else "lines"


def failure_class_of_stream(answer_or_what):
    a = answer_or_what
    return "crash" if ("died" in a or "!" in a or "malformed" in a) else "lines"


def shape_of(req, answer, cap):
    chunks, calls, _ = parse(req)
    text = b"".join(chunks)
    if failure_class(answer) == "crash":
        what = "died" if "died" in answer else ("error" if "!err" in answer else "panic")
        return {"oracle": "lines", "outcome": what,
                "shape": "line-longer-than-buffer" if any(len(l) > cap for l in text.split(b"\n")) else "other"}
    behind = any(0 <= c.find(b"\n") < len(c) - 1 for c in chunks)
    return {"oracle": "lines", "outcome": "wrong-lines",
            "shape": "bytes-behind-newline-in-one-read" if behind else "other"}


def shrink(ck, req, cls, budget=400):
    """Greedy minimisation keeping the failure (and its class): simpler bytes, fewer calls, fewer
    chunks, shorter chunks. Each candidate is one real run through the pipe; at most `budget` runs."""
    runs = 0

    def still(r):
        nonlocal runs
        runs += 1
        a, bad = impl_answer(ck, r)
        return bad and failure_class(a) == cls

    chunks, calls, _ = parse(req)
    best = (chunks, calls)

    def attempt(c, k):
        nonlocal best
        c = [x for x in c if x] or [b""]
        if runs < budget and (c, k) != best and still(mk(c, k)):
            best = (c, k)
            return True
        return False

    for _round in range(6):
        before = best
        # simpler bytes: everything but the newline becomes 'a'
        attempt([bytes(b if b == 10 else 97 for b in x) for x in best[0]], best[1])
        # fewer calls
        for k in range(0, best[1]):
            if attempt(best[0], k):
                break
        # drop or merge chunks
        i = 0
        while i < len(best[0]):
            c = best[0]
            if len(c) > 1 and attempt(c[:i] + c[i + 1:], best[1]):
                continue
            if i + 1 < len(c) and attempt(c[:i] + [c[i] + c[i + 1]] + c[i + 2:], best[1]):
                continue
            i += 1
        # shorten chunks: long ones from either end in halving steps, short ones byte by byte
        i = 0
        while i < len(best[0]):
            x = best[0][i]
            if len(x) > 48:
                step = len(x) // 2
                while step >= 1:
                    x = best[0][i]
                    c = best[0]
                    if step < len(x) and (attempt(c[:i] + [x[:len(x) - step]] + c[i + 1:], best[1])
                                          or attempt(c[:i] + [x[step:]] + c[i + 1:], best[1])):
                        continue
                    step //= 2
            else:
                j = 0
                while j < len(best[0][i]) and len(best[0][i]) > 1:
                    x = best[0][i]
                    c = best[0]
                    if not attempt(c[:i] + [x[:j] + x[j + 1:]] + c[i + 1:], best[1]):
                        j += 1
            i += 1
        if best == before or runs >= budget:
            break
    return mk(best[0], best[1])


def search(ck, cap):
    """Something no longer checks. Look for a concrete chunking on which the property itself fails on
    the implementation (oracle: the text cut at '\\n' by hand), minimise it and report it; one report
    per kind of failure (wrong lines / crash or error)."""
    found = list(ck.oracle_fails)
    if not found:
        budget = 6000 if ck.tier == "quick" else 120000
        for shift in (104729, 1299709):
            ck.seed += shift
            reqs = ck.gen(FAMILY, ["--n", budget, "--cap", cap])
            ck.seed -= shift
            stream_inproc(ck, reqs, f"readline-search-{shift}")
            if ck.oracle_fails:
                found = list(ck.oracle_fails)
                break
    if not found:
        ck.report_violation({"kind": "tie-broken", "family": FAMILY,
                             "what": "a proof obligation or the model/implementation correspondence no longer "
                                     "checks; no chunking violating the property was found",
                             "broken": ck.broken[:10], "disagreements": ck.disagreements[:5],
                             "requests": [d["request"] for d in ck.disagreements[:3]]},
                            no_input_found=True)
        return
    # candidates: the shortest failing requests of each kind, from any stream (the cli streams use
    # the same request format); they are re-run in-process so that the report is reproducible with
    # `nvh readline run`
    pool = ALL_FAILS or [(f["request"], f["what"]) for f in found]
    per_class = {}
    for cls in ("lines", "crash"):
        cands = sorted({r for (r, a) in pool if r.startswith("chunks ") and failure_class_of_stream(a) == cls}, key=len)
        for req in cands[:12]:
            a, bad = impl_answer(ck, req)
            if bad:
                per_class.setdefault(failure_class(a), req)
            if cls in per_class:
                break
    if not per_class:
        # failed in a stream but not when run alone: the cli streams or a timing dependence
        f = found[0]
        ck.report_violation({"kind": "impl-vs-oracle", "family": FAMILY, "what": f["what"], "requests": [f["request"]],
                             "note": "did not reproduce in-process (nvh readline run); failing stream: see broken/streams",
                             "reproduced": "0/3", "broken": ck.broken[:5]})
        return
    for cls, req in sorted(per_class.items()):
        small = shrink(ck, req, cls)
        # timing discipline: the minimised case must fail on three consecutive runs
        reproduced = sum(1 for _ in range(3) if fails(ck, small))
        if reproduced < 3:
            small = req
            reproduced = sum(1 for _ in range(3) if fails(ck, small))
        answer, _ = impl_answer(ck, small)
        chunks, calls, _ = parse(small)
        ck.report_violation({
            "kind": "impl-vs-oracle", "family": FAMILY,
            "what": f"read_line returned {answer} but the text cut at newlines is {py_oracle(small)}",
            "signature": shape_of(small, answer, cap),
            "requests": [small],
            "chunks_as_text": [c.decode("utf-8", errors="backslashreplace") if len(c) < 200 else f"<{len(c)} bytes>"
                               for c in chunks],
            "calls": calls,
            "implementation": answer, "expected": py_oracle(small),
            "reproduced": f"{reproduced}/3",
            "replay_cmd": "./check C17 --replay <this file>",
            "broken": ck.broken[:5], "disagreements": len(ck.disagreements)})


# ------------------------------------------------------------------------- replay
def replay(ck, data):
    reqs = data.get("requests", [])
    naija = ck.build_cli()
    rc = 0
    for r in reqs:
        inp = (r + "\n").encode()
        impl = sh([ck.nvh(), FAMILY, "run"], inp=inp).stdout.decode().strip()
        chunks, calls, _ = parse(r)
        cli = "(skipped: input is not UTF-8)"
        if not _invalid(b"".join(chunks)):
            cli = sh([ck.nvh(), FAMILY, "cli", "--naija", naija, "--tmp", TMP], inp=inp).stdout.decode().strip()
        model = sh([DRIVER, FAMILY], inp=inp).stdout.decode().strip()
        old = sh([DRIVER, FAMILY], inp=("old " + r + "\n").encode()).stdout.decode().strip()
        want = py_oracle(r)
        print(f"request          : {r if len(r) < 300 else r[:300] + '…'}")
        print(f"chunks           : {[c if len(c) < 80 else f'<{len(c)} bytes>' for c in chunks]} calls={calls}")
        def cut(x):
            return x if len(x) < 300 else f"{x[:140]}…{x[-60:]} ({len(x)} chars)"

        print(f"implementation   : {cut(impl)}")
        print(f"naija (pipe)     : {cut(cli)}")
        print(f"model (fixed)    : {cut(model)}")
        print(f"model (pinned)   : {cut(old)}")
        print(f"oracle           : {cut(want)}")
        if impl != want or (not cli.startswith("(") and cli != want):
            rc = 1
    return rc
