"""C16 — captured child output is complete or an error, never silently truncated; the child is not
left running.  (partial: OS scheduling / pipes / kill / wait are assumed as the model states them.)

Proof: `Props/C16.lean` (inductive invariant over all interleavings of the capture transition
system, terminal-state theorems). Tie: the real `sys::process::run` against a helper child that is
told what to emit; the observed outcome of every repetition must be in the SET the model allows
for that configuration and child (`Capture.allowed`, the function the theorems are about), the
result bytes must be exactly the planned ones, and the child's pid must be gone afterwards.
Timing-dependent failures are reported only if they reproduce on three consecutive replays."""
import os
import re

from common import CACHE, DRIVER, Check, MachineryError, sh

D16_SIG = {"finding": "D-16", "outcome": "badutf8:out", "shape": "both-streams-over-cap,stdout-plan-valid-utf8"}
CORPUS = os.path.join(os.path.dirname(os.path.dirname(os.path.abspath(__file__))), "corpus", "C16")
PAT_LEN = {"a": 1, "m": 3, "g": 4, "x": 1}


# ------------------------------------------------------------------------------------ running both sides
def run_impl(ck, reqs, jobs=8, timeout=3600):
    env = dict(os.environ)
    env["NV_TMP"] = os.path.join(CACHE, "tmp")
    p = sh([ck.nvh(), "capture", "run", "--jobs", str(jobs)], inp=("\n".join(reqs) + "\n").encode(),
           timeout=timeout, env=env)
    lines = p.stdout.decode(errors="replace").splitlines()
    errs = p.stderr.decode(errors="replace").splitlines()
    if p.returncode != 0 or len(lines) != len(reqs):
        ck.broken.append({"kind": "impl-run-died", "family": "capture", "rc": p.returncode,
                          "answered": len(lines), "of": len(reqs), "stderr": errs[-5:]})
        lines += ["died"] * (len(reqs) - len(lines))
    fails = {}
    for l in errs:
        m = re.match(r"ORACLE-FAIL (\d+) (.*)", l)
        if m:
            fails.setdefault(int(m.group(1)) - 1, []).append(m.group(2))
    return lines, fails


def run_model(reqs):
    if not os.path.exists(DRIVER):
        raise MachineryError("nvdriver not built")
    p = sh([DRIVER, "capture"], inp=("\n".join(reqs) + "\n").encode(), timeout=3600)
    lines = p.stdout.decode(errors="replace").splitlines()
    if p.returncode != 0 or len(lines) != len(reqs):
        raise MachineryError(f"driver failed on family capture: rc={p.returncode} {len(lines)}/{len(reqs)} "
                             f"{p.stderr.decode(errors='replace')[-300:]}")
    return lines


def parse_obs(line):
    """'obs a*2 b*1 | pid gone*3' -> ({a: 2, b: 1}, {gone: 3})"""
    if not line.startswith("obs "):
        return {line: 1}, {}
    left, _, right = line[4:].partition("|")
    outs = {k: int(v) for k, v in (w.rsplit("*", 1) for w in left.split())}
    pids = {k: int(v) for k, v in (w.rsplit("*", 1) for w in right.split()[1:])}
    return outs, pids


def judge(req, impl_line, model_line, oracle):
    """Compare one scenario. Returns (bad outcomes not allowed, d16-shaped outcomes, oracle failures)."""
    outs, pids = parse_obs(impl_line)
    allowed = model_line.split()[1:] if model_line.startswith("allowed") else []
    plain = {a for a in allowed if not a.endswith("!")}
    flagged = {a[:-1] for a in allowed if a.endswith("!")}
    bad = sorted(o for o in outs if o not in plain and o not in flagged)
    d16 = sorted(o for o in outs if o in flagged)
    orc = list(oracle)
    for st in pids:
        if st not in ("gone", "unknown") and not any("child still present" in o for o in orc):
            orc.append(f"child still present after the run ({st})")
    return bad, d16, orc


def with_reps(req, reps, hogs=None):
    req = re.sub(r"reps=\d+", f"reps={reps}", req)
    if hogs is not None:
        req = re.sub(r"hogs=\d+", f"hogs={hogs}", req)
    return req


def confirm(ck, req):
    """Three consecutive replays (more repetitions, with and without scheduling pressure) must each
    show a failure again; returns the failing (impl_line, model_line, what) of the last replay or None."""
    hogs0 = int(re.search(r"hogs=(\d+)", req).group(1))
    last = None
    for k in range(3):
        reps = 2 if " h" in req.partition("|")[2] else 40   # hang scenarios cost their whole timeout per repetition
        variants = [with_reps(req, reps, hogs0), with_reps(req, reps, max(hogs0, 2))]
        impl, fails = run_impl(ck, variants, jobs=2)
        model = run_model(variants)
        hit = None
        for i, v in enumerate(variants):
            bad, d16, orc = judge(v, impl[i], model[i], fails.get(i, []))
            if bad or d16 or orc:
                hit = (v, impl[i], model[i], bad, d16, orc)
                break
        if hit is None:
            return None
        last = hit
    return last


def is_d16(req):
    """Does the model of the *pinned* join_capture flag InvalidUtf8(stdout) for this scenario as D-16?"""
    q = req.replace(" | ", " fixed=0 | ", 1)
    return "badutf8:out!" in run_model([q])[0].split()


# ------------------------------------------------------------------------------------ classification
def describe_scenario(req):
    head, _, child = req.partition("|")
    kv = dict(w.split("=") for w in head.split()[1:])
    cap = int(kv["cap"])
    size = {"o": 0, "e": 0}
    kinds = {"o": set(), "e": set()}
    for t in child.split():
        if t[0] in "oe" and t[-1] in PAT_LEN and t[1:-1].isdigit():
            size[t[0]] += int(t[1:-1])
            kinds[t[0]].add(t[-1])
    toks = child.split()
    tags = [f"pol={kv['out']}{kv['err']}"]
    for s, name, pol in (("o", "out", kv["out"]), ("e", "err", kv["err"])):
        if pol == "c":
            if size[s] > cap:
                tags.append(f"over-{name}")
            elif size[s] >= max(cap, 1) - 1 and cap > 0:
                tags.append(f"at-cap-{name}")
            if "x" in kinds[s] or (kinds[s] & {"m", "g"} and len(kinds[s]) > 1):
                tags.append(f"maybe-invalid-{name}")
    if "h" in toks:
        tags.append("hang")
    if "k" in toks:
        tags.append("signal-exit")
    if "p" in toks:
        tags.append("sigpipe-default")
    if any(t.startswith("x") and t != "x0" for t in toks):
        tags.append("nonzero-exit")
    if any(t.startswith("s") for t in toks):
        tags.append("sleeps")
    if max(size.values()) > 65536:
        tags.append("bigger-than-pipe")
    if int(kv.get("hogs", "0")) > 0:
        tags.append("hogs")
    return tags


def tie(ck, reqs, label, jobs=8):
    """Run scenarios through the implementation and the model, record the stream, return the list of
    *confirmed* failures."""
    impl, fails = run_impl(ck, reqs, jobs=jobs)
    model = run_model(reqs)
    cand = []
    nrep = 0
    for i, req in enumerate(reqs):
        outs, pids = parse_obs(impl[i])
        nrep += sum(outs.values())
        for o, n in outs.items():
            ck.count("outcome:" + (o.split(":")[0] if o.startswith("ok") else o), n)
        for st, n in pids.items():
            ck.count("pid:" + st, n)
        tags = describe_scenario(req)
        for t in tags:
            ck.count("scenario:" + t)
        if len(tags) > 1 or len(outs) > 1:
            ck.nontrivial_case(req.split("reps=")[0] + req.partition("|")[2])
        if len(outs) > 1:
            ck.count("scenarios_with_more_than_one_observed_outcome")
        bad, d16, orc = judge(req, impl[i], model[i], fails.get(i, []))
        if bad or d16 or orc:
            cand.append((i, bad, d16, orc))
        elif len(ck.samples) < 6 and (len(outs) > 1 or "hang" in tags or "over-out" in tags):
            ck.samples.append({"request": req, "impl": impl[i], "model": model[i]})
    res = {"family": label, "requests": len(reqs), "repetitions": nrep, "impl_answers": len(impl),
           "model_answers": len(model), "disagreements": 0, "oracle_fails": 0, "unconfirmed": 0, "profile": "debug"}
    ck.streams.append(res)
    ck.evaluations += nrep
    confirmed = []
    for (i, bad, d16, orc) in cand[:4]:
        hit = confirm(ck, reqs[i])
        if hit is None:
            res["unconfirmed"] += 1
            ck.notes.append({"unconfirmed-timing-dependent": reqs[i], "impl": impl[i], "model": model[i],
                             "oracle": orc, "note": "did not reproduce on three consecutive replays; not reported"})
            continue
        v, il, ml, bad2, d162, orc2 = hit
        item = {"family": "capture", "line": i + 1, "request": v, "impl": il, "model": ml,
                "bad": bad2, "d16": d162, "oracle": orc2, "history": [v]}
        confirmed.append(item)
        if orc2:
            res["oracle_fails"] += 1
            ck.oracle_fails.append({"family": "capture", "line": i + 1, "request": v, "what": "; ".join(orc2),
                                    "history": [v]})
        if bad2 or d162:
            res["disagreements"] += 1
            ck.disagreements.append({"family": "capture", "line": i + 1, "request": v, "impl": il, "model": ml,
                                     "history": [v]})
    return confirmed


# ------------------------------------------------------------------------------------ streams
def corpus_lines():
    out = []
    if os.path.isdir(CORPUS):
        for fn in sorted(os.listdir(CORPUS)):
            for l in open(os.path.join(CORPUS, fn)):
                l = l.strip()
                if l and not l.startswith("#"):
                    out.append(l)
    return out


def sweep():
    """Timing sweep (thorough): exit / hang at every offset of the poll interval after crossing the cap."""
    reqs = []
    for poll in (1, 2, 5, 10):
        for delay in (0, 1, 2, 3, 5, 8, 12):
            for hogs in (0, 2):
                d = f"s{delay} " if delay else ""
                for child in (f"o17a {d}x0", f"e17a {d}x0", f"o16m {d}e17m o2m x0", f"o17a {d}e17a x3",
                              f"o8a {d}o8a {d}o1a x0", f"o16a {d}x0", f"p o17a {d}o9a x0"):
                    reqs.append(f"sc cap=16 poll={poll} timeout=20000 out=c err=c reps=4 hogs={hogs} | {child}")
            reqs.append(f"sc cap=16 poll={poll} timeout={200 + 10 * delay} out=c err=c reps=1 hogs=0 | o16a s{delay} h")
            reqs.append(f"sc cap=16 poll={poll} timeout={200 + 10 * delay} out=c err=n reps=1 hogs=0 | o17a s{delay} h")
    return reqs


def run(ck: Check):
    ck.rule = ("scenarios = (cap, poll, timeout, stdout/stderr policy, child script: writes around the cap on either "
               "or both streams, valid / multi-byte / invalid UTF-8, sleeps, exit codes, self-signal, hang); each "
               "repeated under varied sub-millisecond delays; non-trivial = a scenario at/over a cap, with invalid "
               "UTF-8, a hang, a non-zero exit, sleeps, or one whose repetitions showed more than one outcome; "
               "distinct by request text")
    ck.assumptions = [
        "C16 is partial: the model ASSUMES the OS — a pipe delivers bytes in order and read() returns 0 only when "
        "it is empty and the child (sole holder of the write end: no grandchild) is gone; SIGKILL turns a live "
        "child into a zombie; wait/try_wait reap it; read, try_wait and thread join do not fail (SpawnFailed is "
        "not modelled); thread scheduling is arbitrary (every interleaving is covered by the proof)",
        "stdin (join_writer) is outside this model (C15)",
        "tie: non-hanging scenarios carry a 20 s timeout, far above their own duration, so `timeout` is in the "
        "allowed set only for scenarios whose child hangs",
        "a timing-dependent failure is reported only after three consecutive replays reproduce it",
    ]
    ck.build_harness()
    ck.gen_tables()
    ck.lean_obligations(["NaijaVerif.Props.C16"])
    ck.build_driver(["Capture"])
    quick = ck.tier == "quick"
    # UTF-8 validator of the model against std (plain line equality)
    ck.corr("capture", ck.gen("capture", ["--n", 1500 if quick else 60000, "--mode", "utf8"]), label="capture-utf8")
    confirmed = []
    corpus = corpus_lines()
    if quick:
        corpus = [with_reps(l, min(int(re.search(r"reps=(\d+)", l).group(1)), 50)) for l in corpus]
    confirmed += tie(ck, corpus, "capture-corpus", jobs=6)
    n = 150 if quick else 2500
    confirmed += tie(ck, ck.gen("capture", ["--n", n, "--reps", 3 if quick else 5]), "capture-mix")
    # the schedules that matter most need scheduling pressure (runner threads pinned to one busy core)
    confirmed += tie(ck, ck.gen("capture", ["--n", 16 if quick else 150, "--mode", "race", "--reps", 25 if quick else 60]),
                     "capture-race-hogs", jobs=6)
    confirmed += tie(ck, ck.gen("capture", ["--n", 10 if quick else 120, "--mode", "d16", "--reps", 25 if quick else 60,
                                             "--hogs", 2]), "capture-both-over-hogs", jobs=6)
    if not quick:
        confirmed += tie(ck, sweep(), "capture-timing-sweep", jobs=6)
        ck.leanchecker(["NaijaVerif.Props.C16"])
    if ck.is_broken():
        search(ck, confirmed)
    return ck.finish()


# ------------------------------------------------------------------------------------ search
def search(ck, confirmed):
    """Something no longer checks (a proof obligation, a Gen tie, the outcome-set correspondence or the
    oracle). Look for a concrete scenario on which the property itself fails on the implementation."""
    found = list(confirmed)
    if not found:
        budget = 60 if ck.tier == "quick" else 600
        ck.seed += 101
        try:
            for mode, extra in (("d16", ["--hogs", 2]), ("race", []), ("mix", ["--hogs", 2]), ("mix", [])):
                reqs = ck.gen("capture", ["--n", budget, "--mode", mode, "--reps", 30] + extra)
                found = tie(ck, reqs, f"capture-search-{mode}", jobs=6)
                if found:
                    break
        finally:
            ck.seed -= 101
    if not found:
        ck.report_violation({"kind": "tie-broken", "family": "capture",
                             "what": "a proof obligation, a generated-table tie or the outcome-set correspondence no "
                                     "longer checks; no scenario violating the property was found",
                             "broken": ck.broken[:10], "disagreements": ck.disagreements[:5], "requests": []},
                            no_input_found=True)
        return
    # prefer an implementation-level oracle failure, then the shortest scenario
    f = min(found, key=lambda x: (0 if x["oracle"] else 1, len(x["request"])))
    req = shrink(ck, f["request"])
    what = "; ".join(f["oracle"]) or ("outcome not allowed by the model: " + ", ".join(f["bad"] + f["d16"]))
    replay = {"kind": "impl-vs-oracle" if f["oracle"] else "model-vs-impl", "family": "capture", "what": what,
              "requests": [req], "impl": f["impl"], "model": f["model"],
              "replay_cmd": "./check C16 --replay <this file>", "broken": ck.broken[:5]}
    if not f["oracle"] and not f["bad"] and f["d16"] and is_d16(req):
        replay["signature"] = D16_SIG
    ck.report_violation(replay)


def shrink(ck, req):
    """Drop child tokens (never the ending) while the failure still reproduces on one 60-repetition replay."""
    head, _, child = req.partition("|")
    toks = child.split()

    def fails(ts):
        r = with_reps(head, 60) + "| " + " ".join(ts)
        impl, fl = run_impl(ck, [r], jobs=1)
        model = run_model([r])
        bad, d16, orc = judge(r, impl[0], model[0], fl.get(0, []))
        return bool(bad or d16 or orc)

    i = 0
    while i < len(toks) - 1 and len(toks) > 2:
        cand = toks[:i] + toks[i + 1:]
        if fails(cand) and fails(cand):
            toks = cand
        else:
            i += 1
    return head + "| " + " ".join(toks)


def replay(ck, data):
    reqs = data.get("requests", [])
    if not reqs:
        print("no scenario recorded (tie broken without a failing input); broken:", data.get("broken"))
        return 1
    rc = 0
    print("request | implementation | model | oracle")
    for k in range(3):
        impl, fails = run_impl(ck, reqs, jobs=2)
        model = run_model(reqs)
        for i, r in enumerate(reqs):
            bad, d16, orc = judge(r, impl[i], model[i], fails.get(i, []))
            print(f"[replay {k + 1}] {r} | {impl[i]} | {model[i]} | {'; '.join(orc) or '-'}"
                  + (f" | NOT ALLOWED: {bad + d16}" if bad or d16 else ""))
            if bad or d16 or orc:
                rc = 1
    return rc
