"""C09 — static rules enforced exactly: ill-formed programs rejected, well-formed ones accepted, the
diagnostic naming the broken rule's category.

Proof: Props/C09.lean (the probed operator / builtin tables and return-type probes of the real checker =
the model's = the documented ones; for every program the diagnostics of the scoping rules are exactly the
violations of the declarative specification; for every program whose `return` expressions are well typed
where the result types are determined (Spec.ReturnsTyped) the checker rejects iff a documented rule is
broken — typing included; without that hypothesis the equivalence is false of the current code, D-09f;
D-09b is fixed and stays documented as a theorem about the pinned inference).
Tie: family `resolve` (diagnostics, bindings and facts of the real resolver vs Model/Resolve.lean) on the
real parser's AST, and — composed — family `pipe`, `front` requests: the verdict and the diagnostics of the
WHOLE real front end on a source text vs the Lean front end (own lexer, own parser, own template scanner,
resolver model), so that a change in how the parser hands a construct to the checker (a placeholder that is
no longer a placeholder, a statement parsed as another) cannot hide behind a shared AST.
Oracles without the model: the real resolver's scoping diagnostics vs Spec/WF.lean; acceptance vs the
documented judgement Spec.WF; binding annotations name the occurrence; generator expectations."""
from common import Check
import pipelib
import resolvelib as rl

C09_CATEGORIES = ("Undeclared_identifier", "Assignment_to_undeclared_variable", "Invalid_parameter_count",
                  "Unreachable_code", "Duplicate_identifier", "Use_of_reserved_keyword", "Type_mismatch")


def run(ck: Check):
    ck.rule = ("programs from a typed generator: well-formed (name reuse, shadowing, re-declaration, nested / recursive / "
               "forward-referenced functions, captures, interpolation), one injected violation of one static rule at a "
               "random position and nesting context, unconstrained programs, corpus; composed stream over source "
               "TEXTS (whole real front end vs the Lean front end): the same generators plus a product of string "
               "templates (placeholder next to `{{` / `}}`, doubled braces, malformed groups) x status of the named "
               "variable (declared, undeclared, out of scope, declared later, parameter, shadowed, function / builtin "
               "name) x syntactic position x nesting context; non-trivial = a violation program or a "
               "program with a function and a nested scope; distinct by program text")
    ck.build_harness()
    ck.gen_tables()
    rl.resolve_obligations(ck, props=("C09",))
    ck.build_driver(["Resolve", "Pipe"])
    out = rl.resolve_streams(ck, ck.tier)
    rl.resolve_findings(ck, n=60 if ck.tier == "quick" else 600)
    comp = composed_stream(ck, 6000 if ck.tier == "quick" else 200000)
    if ck.tier == "thorough":
        ck.leanchecker(["NaijaVerif.Props.C09"])
    if comp["failures"]:
        report_composed(ck, comp)
    # the resolver unit's own search must not see the entries of the composed stream (other request format)
    pipe_dis = [d for d in ck.disagreements if d.get("family") == pipelib.FAMILY]
    pipe_orc = [f for f in ck.oracle_fails if f.get("family") == pipelib.FAMILY]
    ck.disagreements[:] = [d for d in ck.disagreements if d.get("family") != pipelib.FAMILY]
    ck.oracle_fails[:] = [f for f in ck.oracle_fails if f.get("family") != pipelib.FAMILY]
    try:
        if ck.is_broken() or out["failures"]:
            rl.resolve_search(ck, out)
    finally:
        ck.disagreements.extend(pipe_dis)
        ck.oracle_fails.extend(pipe_orc)
    if (pipe_dis or pipe_orc) and not comp["failures"] and not ck.violations:
        # the two front ends differ only in spans / order / warnings: the tie is broken, no verdict differs
        rep = pipelib.report(ck, "composed front-end model and real front end answer differently (same verdict and "
                                 "error categories); no text on which acceptance or the category differs was found")
        ck.report_violation(rep or {"kind": "tie-broken", "family": "pipe", "requests": []},
                            no_input_found=(rep is None or rep["kind"] != "impl-vs-oracle"))
    return ck.finish()


def composed_stream(ck, n):
    """`front` requests: corpus/C09/front.src, then `nvh pipe gen --kind static`. A text on which the
    implementation accepts while the Lean front end rejects with an error of a C09 category (or the
    other way round, or the error categories differ, or the implementation does not return) is a
    concrete failing input of C09."""
    corpus = pipelib.corpus_requests("C09")
    ck.count("composed_corpus_requests", len(corpus))
    reqs, res = pipelib.pipe_stream(ck, "static", n, label="pipe-static(front end vs Lean front end)", extra=corpus)
    failures, cats = [], {}
    for r, a, b in zip(reqs, res["impl_lines"], res["model_lines"]):
        va, vb = pipelib.verdict(a), pipelib.verdict(b)
        if vb[0] == "semantic":
            for c in vb[1]:
                cats[c] = cats.get(c, 0) + 1
            ck.nontrivial_case(r)
        if a == "unrun" or va == vb:
            continue
        failures.append({"request": r, "impl": a, "model": b, "what": describe(va, vb)})
    ck.extra_cov["composed_rejections_by_category"] = cats
    ck.count("composed_verdict_failures", len(failures))
    return {"requests": reqs, "res": res, "failures": failures}


def describe(va, vb):
    def say(v):
        if v[0] == "semantic":
            return "rejects with " + (" + ".join(v[1]) or "an error")
        return {"accepted": "accepts", "syntax": "rejects with a syntax error", "noreturn": f"does not return ({v[-1]})"}.get(v[0], str(v))
    return f"the implementation {say(va)}; the front-end model (lexer, parser and static rules in Lean) {say(vb)}"


def report_composed(ck, comp):
    """One report per kind of verdict difference, each on its shortest text, shrunk."""
    by_kind = {}
    for f in comp["failures"]:
        key = (pipelib.verdict(f["impl"])[0], pipelib.verdict(f["model"])[0])
        by_kind.setdefault(key, []).append(f)
    for key, fs in list(by_kind.items())[:3]:
        f = min(fs, key=lambda x: len(x["request"]))
        want = (pipelib.verdict(f["impl"]), pipelib.verdict(f["model"]))

        def still(r, want=want):
            a, b, _ = pipelib.one(ck, r)
            return (pipelib.verdict(a), pipelib.verdict(b)) == want
        req = pipelib.shrink_text(ck, f["request"], still, budget=120, budget_s=150)
        a, b, _ = pipelib.one(ck, req)
        va, vb = pipelib.verdict(a), pipelib.verdict(b)
        ck.report_violation({"kind": "impl-vs-front-end-model", "family": pipelib.FAMILY, "what": describe(va, vb),
                             "c09_categories": [c for v in (va, vb) if v[0] == "semantic" for c in v[1] if c in C09_CATEGORIES],
                             "program": pipelib.text_of(req), "requests": [req], "impl": a, "model": b,
                             "failing_cases": len(fs), "replay_cmd": f"./check {ck.pid} --replay <this file>"})


def replay(ck, data):
    if data.get("family") == pipelib.FAMILY:
        return pipelib.replay(ck, data)
    return rl.resolve_replay(ck, data)
