"""C09 — static rules enforced exactly: ill-formed programs rejected, well-formed ones accepted, the
diagnostic naming the broken rule's category.

Proof: Props/C09.lean (the probed operator / builtin tables of the real checker = the model's = the
documented ones up to the listed D-09d entries; for every program the diagnostics of the scoping rules
are exactly the violations of the declarative specification; the full equivalence is false of the
current code — D-09b/c/d — and holds under an explicit typing hypothesis).
Tie: family `resolve` (diagnostics, bindings and facts of the real resolver vs Model/Resolve.lean).
Oracles without the model: the real resolver's scoping diagnostics vs Spec/WF.lean; acceptance vs the
documented judgement Spec.WF; binding annotations name the occurrence; generator expectations."""
from common import Check
import resolvelib as rl


def run(ck: Check):
    ck.rule = ("programs from a typed generator: well-formed (name reuse, shadowing, re-declaration, nested / recursive / "
               "forward-referenced functions, captures, interpolation), one injected violation of one static rule at a "
               "random position and nesting context, unconstrained programs, corpus; non-trivial = a violation program or a "
               "program with a function and a nested scope; distinct by program text")
    ck.build_harness()
    ck.gen_tables()
    rl.resolve_obligations(ck, props=("C09",))
    ck.build_driver(["Resolve"])
    out = rl.resolve_streams(ck, ck.tier)
    rl.resolve_findings(ck, n=60 if ck.tier == "quick" else 600)
    if ck.tier == "thorough":
        ck.leanchecker(["NaijaVerif.Props.C09"])
    if ck.is_broken() or out["failures"]:
        rl.resolve_search(ck, out)
    return ck.finish()


def replay(ck, data):
    return rl.resolve_replay(ck, data)
