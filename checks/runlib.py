"""Family `run` — shared by the checks of C01, C02, C03, C04, C05, C06 (and the stand-alone CRUN).

    run_obligations(ck, modules=None)      build + audit the evaluator theorems
    float_selftest(ck, n)                  validate the driver's float routines against Rust
                                           (a mismatch is a MACHINERY fault, exit 2, never a VIOLATION)
    run_streams(ck, tier, kinds=..., bias=None, scale=1.0)
                                           correspondence real Runtime <-> Lean evaluator model on
                                           the corpus, the generated main stream and the complete
                                           C06 product; returns a dict per stream (see below)
    shrink_program(ck, src, still_fails)   statement-deletion shrinking of a program text
    one_case(ck, src, allow_process=False) run one program text through implementation and model

Answer format (both sides): `out=<hex,...|none> end=<ok | rt:<Kind>@<lo>:<hi> | panic@<file>:<line> |
abort | timeout | fuel>`; `rejected` for programs the real front end does not accept.
ORACLE-FAIL lines of `nvh run run` (stderr) carry the property tag: `[C01] run twice`, `[C02]
frame=Some vs frame=None`, `[C03] plan vs no plan`; `oracle_fails_for(ck, "C02")` filters them."""
import binascii
import os
import re
import subprocess
import tempfile

from common import DRIVER, HARNESS, LEAN, MachineryError, VERIF, sh

FAMILY = "run"
DRIVER_FAMILIES = ["Run"]
MODULES = ["NaijaVerif.Props.C01Eval", "NaijaVerif.Props.C05", "NaijaVerif.Props.C06Eval"]
CORPUS = os.path.join(VERIF, "corpus", "run")


def unhex(h):
    return b"" if h in ("-", "none") else binascii.unhexlify(h)


def src_of(request):
    w = request.split(" ", 2)
    return unhex(w[1]).decode("utf8", "replace") if len(w) > 1 and w[0] in ("run", "rej") else ""


def tag_of(request):
    m = re.search(r" tag=(\S+) ast=", request)
    return m.group(1) if m else ""


def ending_of(answer):
    if answer == "rejected":
        return "rejected"
    m = re.search(r"end=(\S+)", answer)
    if not m:
        return answer
    e = m.group(1)
    return e.split("@")[0]


def outputs_of(answer):
    m = re.match(r"out=(\S+) ", answer)
    if not m or m.group(1) == "none":
        return []
    return [unhex(x).decode("utf8", "replace") for x in m.group(1).split(",")]


def run_obligations(ck, modules=None):
    return ck.lean_obligations(modules or [m for m in MODULES
                                           if os.path.exists(os.path.join(LEAN, m.replace(".", "/") + ".lean"))])


def float_selftest(ck, n=3000):
    """fmt / parse / fmod / cast / unary float requests: the driver's Nat-arithmetic routines against
    Rust's. Any disagreement here would make every later number comparison meaningless, so it is a
    machinery fault."""
    reqs = ck.gen(FAMILY, ["--kind", "float", "--n", n])
    before = len(ck.disagreements)
    res = ck.corr(FAMILY, reqs, label="run-float-selftest")
    if res["disagreements"] or res["impl_answers"] != len(reqs) or res["model_answers"] != len(reqs):
        bad = ck.disagreements[before:]
        del ck.disagreements[before:]
        ck.broken[:] = [b for b in ck.broken if b.get("family") != FAMILY]
        raise MachineryError("float self-test of the Lean driver failed (driver routine vs Rust): "
                             + "; ".join(f"{d['request']} impl={d['impl']} model={d['model']}" for d in bad[:5]))
    ck.count("float_selftest_requests", len(reqs))
    return res


FEATURES = [
    ("loop", r"\bjasi\b"), ("comot", r"\bcomot\b"), ("next", r"\bnext\b"), ("function", r"\bdo \w+\("),
    ("return", r"\breturn\b"), ("if_else", r"if not so"), ("block", r"(?m)^\s*start\b"),
    ("index_assign", r"\]\s*get\b"), ("nested_index", r"\]\["), ("push", r"\.push\("), ("pop", r"\.pop\("),
    ("reverse", r"\.reverse\("), ("join", r"\.join\("), ("split", r"\.split\("), ("slice", r"\.slice\("),
    ("find", r"\.find\("), ("replace", r"\.replace\("), ("trim", r"\.trim\("), ("upper", r"\.to_uppercase\("),
    ("lower", r"\.to_lowercase\("), ("to_number", r"\.to_number\("), ("len", r"\.len\("),
    ("num_method", r"\.(abs|sqrt|floor|ceil|round)\("), ("typeof", r"\btypeof\("), ("to_string", r"\bto_string\("),
    ("read_line", r"\bread_line\("), ("command", r"\bcommand\("), ("interpolation", r"\{\s*[A-Za-z_]\w*\s*\}"),
    ("multibyte", r"[^\x00-\x7f]"), ("and", r"\band\b"), ("or", r"\bor\b"), ("not", r"\bnot\b"), ("mod", r"\bmod\b"),
    ("divide", r"\bdivide\b"), ("null", r"\bnull\b"), ("escape", r"\\[nt\\\"']"),
    # the two scoping idioms of the generator: a captured array mutated through index chains while a function on
    # the call chain holds a same-named local / parameter; a same-named function in a more recent, lexically
    # unrelated scope
    ("shadowed_capture", r"do whole\(\)"), ("fn_name_shadow", r"do host\(\)"),
    # definitions in dead code reached through hoisting: the hand-written idiom (a jump, then `do late(q)` ..) and
    # the generator's own functions defined after the final jump of their block (marker comment)
    ("dead_def_idiom", r"do (?:late|inner|tail|after)\(q\) start"),
    ("dead_def_hoisted", r"# hoisted-after-jump"),
    # one string literal with the same placeholder at least twice; the C04 idiom around it
    ("placeholder_twice", r"\{\s*(\w+)\s*\}[^\"'\n]*\{\s*\1\s*\}"), ("placeholder_twice_idiom", r"do show\(v\)"),
    # effect order (progen.rs `impure_chain`, `operand_order`): a mutating method / index assignment whose receiver chain
    # holds an impure index expression; a later operand that changes the variable an earlier operand has read;
    # `retype_program`: one name re-declared in the same block at another literal type, capturing functions in between
    ("impure_index_chain", r"make idx get \["), ("impure_index_receiver", r"\[[^\]\n]*(?:\.pop\(\)|take\(\)|slot\(\)|step\(\)|say\(\d\))[^\]\n]*\]\S*(?:\.(?:push|pop|reverse)\(| get )"),
    ("operand_order", r"make kept get \[0\]"), ("redeclare_other_type", r"do (?:rd|ph|pp|ty|wr|nr)\d+\("),
]
FEATURES = [(n, re.compile(r)) for n, r in FEATURES]


def classify(ck, label, reqs, res):
    """Distribution counters; a case is NON-TRIVIAL when the program was accepted, printed at least
    one value and contains a call, loop or index write (distinct by program text)."""
    impl = res["impl_lines"]
    info = {"accepted": 0, "rejected": 0, "endings": {}, "panics": [], "cases": 0}
    for i, r in enumerate(reqs):
        a = impl[i] if i < len(impl) else "?"
        if not r.startswith(("run ", "rej ")):
            continue
        info["cases"] += 1
        e = ending_of(a)
        info["endings"][e] = info["endings"].get(e, 0) + 1
        ck.count(f"{label}_end_{e}")
        if r.startswith("rej "):
            info["rejected"] += 1
            continue
        info["accepted"] += 1
        src = src_of(r)
        if e == "panic" or e in ("abort", "timeout"):
            # C06: an ACCEPTED program crashed the real interpreter (since the D-06/D-04 fix none is
            # expected in any stream, the complete product included): an implementation-level failure
            info["panics"].append({"line": i + 1, "tag": tag_of(r), "src": src, "impl": a})
            ck.oracle_fails.append({"family": FAMILY, "line": i + 1, "request": r,
                                    "what": f"[C06] accepted program ends with {a.split('end=')[-1]} "
                                            f"({tag_of(r) or label})", "history": [r]})
        if label == "main":
            for name, rx in FEATURES:
                if rx.search(src):
                    ck.count("feature_" + name)
        outs = a.startswith("out=") and not a.startswith("out=none")
        if outs and re.search(r"\bjasi\b|\bdo \w+\(|\]\s*get\b|\.\w+\(", src):
            ck.nontrivial_case(src)
            if label == "main" and len(ck.samples) < 3 and len(src) < 900:
                ck.samples.append({"program": src, "impl": a})
    ck.count(f"{label}_accepted", info["accepted"])
    ck.count(f"{label}_rejected", info["rejected"])
    return info


def corpus_requests(ck, extra_dirs=()):
    """Requests of every `*.ns` program (and recorded `*.req` line) of corpus/run and of the property
    corpora named in `extra_dirs` (e.g. ("C06",) -> corpus/C06)."""
    reqs = []
    for d in [CORPUS] + [os.path.join(VERIF, "corpus", x) for x in extra_dirs]:
        if not os.path.isdir(d):
            continue
        p = sh([ck.nvh(), FAMILY, "gen", "--kind", "files", "--dir", d], timeout=600)
        if p.returncode != 0:
            raise MachineryError("corpus request generation failed: " + p.stderr.decode(errors="replace")[-500:])
        reqs += p.stdout.decode().splitlines()
        # plus recorded request lines (minimised past failures)
        for fn in sorted(os.listdir(d)):
            if fn.endswith(".req"):
                reqs += [l for l in open(os.path.join(d, fn)).read().splitlines() if l.strip()]
    return reqs


def run_streams(ck, tier, kinds=("corpus", "main", "product"), bias=None, scale=1.0, n_main=None, corpus_dirs=()):
    """Returns {kind: {"requests", "res" (ck.corr result), "info" (classify result)}}."""
    out = {}
    for kind in kinds:
        if kind == "corpus":
            reqs = corpus_requests(ck, corpus_dirs)
        elif kind == "main":
            n = n_main if n_main is not None else int((1500 if tier == "quick" else 60000) * scale)
            args = ["--kind", "main", "--n", n]
            if bias:
                args += ["--bias", bias]
            reqs = ck.gen(FAMILY, args)
        elif kind == "product":
            reqs = ck.gen(FAMILY, ["--kind", "product"])
        else:
            raise MachineryError(f"unknown run stream {kind}")
        if not reqs:
            continue
        res = ck.corr(FAMILY, reqs, label=f"run-{kind}" + (f"-{bias}" if bias and kind == "main" else ""),
                      timeout=7200)
        info = classify(ck, kind, reqs, res)
        if kind == "main" and info["cases"]:
            rate = info["accepted"] / info["cases"]
            ck.extra_cov["main_acceptance_rate"] = round(rate, 3)
            if rate < 0.85:
                ck.notes.append(f"generator acceptance rate {rate:.2f} below 0.85")
        if kind == "product":
            fam = {"numeric_boundary": " tag=sink=num.", "self_mutation": " tag=sink=selfmut."}
            ck.extra_cov["product_families"] = {k: sum(1 for r in reqs if v in r) for k, v in fam.items()}
            ck.extra_cov["product_exhaustive"] = True
            ck.extra_cov["product_cases"] = info["cases"]
            ck.extra_cov["product_accepted"] = info["accepted"]
            ck.extra_cov["product_panics_on_impl"] = len(info["panics"])
        fuel = sum(1 for l in res["model_lines"] if l.endswith("end=fuel"))
        if fuel:
            # generated programs are bounded: running out of fuel is a machinery problem, not a finding
            raise MachineryError(f"{fuel} model run(s) of stream {kind} ran out of fuel")
        out[kind] = {"requests": reqs, "res": res, "info": info}
    return out


def oracle_fails_for(ck, prop):
    return [f for f in ck.oracle_fails if f.get("family") == FAMILY and f.get("what", "").startswith(f"[{prop}]")]


UNBOUNDED = "out=none end=unbounded"


def one_case(ck, src, allow_process=False, guard=False):
    """(request, impl answer, model answer, oracle-fail lines) for one program text.
    `guard` (for shrinking predicates): the MODEL runs first, with a short time limit; when it does not finish
    (fuel, time) the candidate does not terminate — a deletion removed the step statement of a loop — and it
    is not run on the implementation at all (that would cost the case timeout, a minute, per candidate): both
    answers are then `UNBOUNDED`, i.e. equal and not a crash."""
    with tempfile.TemporaryDirectory(dir=os.path.join(VERIF, ".cache", "tmp")) as d:
        with open(os.path.join(d, "case.ns"), "w") as f:
            f.write(src)
        args = [ck.nvh(), FAMILY, "gen", "--kind", "files", "--dir", d]
        if allow_process:
            args.append("--allow-process")
        p = sh(args, timeout=120)
        req = p.stdout.decode().splitlines()[0]
    inp = (req + "\n").encode()
    if guard and req.startswith("run "):
        try:
            mod = sh([DRIVER, FAMILY], inp=inp, timeout=10)
        except subprocess.TimeoutExpired:
            return req, UNBOUNDED, UNBOUNDED, []
        ml = mod.stdout.decode(errors="replace").splitlines()
        if not ml or ml[0].endswith("end=fuel"):
            return req, UNBOUNDED, UNBOUNDED, []
        impl = sh([ck.nvh(), FAMILY, "run"], inp=inp, timeout=300)
    else:
        impl = sh([ck.nvh(), FAMILY, "run"], inp=inp, timeout=300)
        mod = sh([DRIVER, FAMILY], inp=inp, timeout=300)
        ml = mod.stdout.decode(errors="replace").splitlines()
    il = impl.stdout.decode(errors="replace").splitlines()
    fails = [l for l in impl.stderr.decode(errors="replace").splitlines() if l.startswith("ORACLE-FAIL")]
    return req, (il[0] if il else "?"), (ml[0] if ml else "?"), fails


def shrink_program(ck, src, still_fails, budget=200):
    """Greedy line/statement deletion (programs are printed one statement per line; a deletion that
    unbalances start/end is rejected by the front end and therefore not kept)."""
    lines = src.split("\n")
    tries = 0
    chunk = max(1, len(lines) // 2)
    while chunk >= 1 and tries < budget:
        i, changed = 0, False
        while i < len(lines) and tries < budget:
            cand = lines[:i] + lines[i + chunk:]
            tries += 1
            if cand and still_fails("\n".join(cand)):
                lines, changed = cand, True
            else:
                i += chunk
        if not changed or chunk == 1:
            chunk //= 2
    return "\n".join(lines)


def report_disagreements(ck, prop_note, streams):
    """Default handling when the tie is broken: shrink the first disagreeing accepted program and
    report it (model-vs-impl, no failing input for the property itself unless an oracle failed)."""
    first = next((d for d in ck.disagreements if d["family"] == FAMILY and d["request"].startswith("run ")), None)
    if first is None:
        return None
    src = src_of(first["request"])
    allow = " pol=a " in first["request"]

    def still(s):
        _r, a, b, _f = one_case(ck, s, allow, guard=True)
        return a != b and a != "rejected"

    small = shrink_program(ck, src, still) if len(src) < 6000 else src
    req, a, b, fails = one_case(ck, small, allow)
    return {"kind": "model-vs-impl", "family": FAMILY, "what": prop_note, "program": small,
            "requests": [req], "impl": a, "model": b, "oracle_fails": fails}


def replay_requests(ck, data):
    reqs = data.get("requests", [])
    inp = ("\n".join(reqs) + "\n").encode()
    impl = sh([ck.nvh(), FAMILY, "run"], inp=inp, timeout=600)
    mod = sh([DRIVER, FAMILY], inp=inp, timeout=600)
    il, ml = impl.stdout.decode(errors="replace").splitlines(), mod.stdout.decode(errors="replace").splitlines()
    bad = 0
    for i, r in enumerate(reqs):
        a = il[i] if i < len(il) else "?"
        b = ml[i] if i < len(ml) else "?"
        print("program:\n" + src_of(r))
        print("implementation:", outputs_of(a), ending_of(a), "|", a[-60:])
        print("model         :", outputs_of(b), ending_of(b), "|", b[-60:])
        if a != b:
            bad += 1
    err = impl.stderr.decode(errors="replace")
    print(err)
    return 1 if bad or "ORACLE-FAIL" in err else 0
