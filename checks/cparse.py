"""CPARSE — the parser unit on its own: `Model/Parse.lean` against the real `Parser` (family `parse`),
the parser theorems of C01 / C07 / C10, and the implementation-level oracles (span sanity, no panic,
layout and redundant-parenthesis independence)."""
from common import Check

import parselib


def run(ck: Check):
    ck.rule = ("hand-written recovery seeds + shipped programs + every string literal of the Rust test suites, all "
               "single-token mutations of the short ones, grammar-generated programs (half of them mutated, some "
               "deeply nested) and pairs (same tokens re-laid-out, redundant parentheses added to valid programs); "
               "non-trivial = the implementation reports at least one syntax diagnostic or builds an AST of at "
               "least 10 nodes; distinct by request text")
    ck.build_harness()
    ck.gen_tables()
    parselib.parse_obligations(ck)
    ck.build_driver(["Parse"])
    parselib.parse_streams(ck, ck.tier)
    if ck.tier == "thorough":
        mods = parselib.existing_props()
        if mods:
            ck.leanchecker(mods)
    if ck.is_broken():
        parselib.parse_search(ck)
    return ck.finish()


def replay(ck, data):
    return parselib.replay(ck, data)
