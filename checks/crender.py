"""CRENDER — test entry point of the renderer unit alone (not a property): the renderer part of C07 (rendering
never fails on safe spans, line:col is correct, output is valid UTF-8), the `render` correspondence streams and
their oracles."""
import renderlib
from common import Check


def run(ck: Check):
    ck.rule = renderlib.RULE
    ck.build_harness()
    ck.gen_tables()
    renderlib.render_obligations(ck)
    ck.build_driver(["Render"])
    renderlib.render_streams(ck, ck.tier)
    if renderlib.mem_finding_listed():
        renderlib.render_mem_oracle(ck)
    else:
        r = renderlib.memprobe(ck, 1000)
        ck.extra_cov["render_mem_probe"] = r
        ck.notes.append("memory oracle (finding D-07r: arena use of render_ansi grows with diagnostics x text length) is "
                        "not armed: no entry with signature " + str(renderlib.MEM_SIGNATURE) + " in known_findings.jsonl; "
                        "probe: " + str(r))
    if ck.tier == "thorough":
        ck.leanchecker([renderlib.MODULE])
    broken_other = [f for f in ck.oracle_fails if renderlib.fail_class(f["what"]) != "arena-quadratic"]
    if ck.broken or ck.disagreements or broken_other:
        renderlib.render_search(ck)
    return ck.finish()


def replay(ck, data):
    return renderlib.render_replay(ck, data)
