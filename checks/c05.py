"""C05 — arrays are values: no mutation is ever visible through another name.

Proof: lean/NaijaVerif/Props/C05.lean over the evaluator model (Model/Eval.lean): frame theorems for
`assign_index` and the mutating methods (exactly one cell of one slot changes), reads do not disturb,
copies are independent at any nesting depth.  Tie: correspondence stream `run` (real Runtime in-process
vs `nvdriver run` on the real front end's annotated AST) on the corpus, a generated stream biased to
arrays (copy -> nested write -> read both, push/pop/reverse through index chains, arrays passed to and
returned from functions, mutation of parameters) and the mixed stream.  Implementation-level oracles
(no model): template programs whose expected output the harness computes with plain Rust value
semantics (`--kind c05`, ORACLE-FAIL [C05]) — copy / nested write / push / pop / reverse sequences over
three variables, and (tag `c05scoped`) functions that mutate and read a CAPTURED array through index
chains while functions on the call chain hold and mutate an unrelated local or parameter of the same
name, and (tag `c05long`) array elements that are LONG strings — around and above the largest pool slot: 255,
256, 257, 300, 1000 bytes — built at run time inside functions (loop concatenation, doubling + slice, join,
replace, upper-casing, interpolation), returned, stored by push / index assignment / array literal / nested push
/ through variables and parameters, copied with their array, followed by allocations through other names, then
compared (`na`) with an independently obtained copy, measured and printed; run twice, frame vs no frame, plan vs
no plan must print the same values. The typed generator carries the same shape (`do line(i, n)` idiom).
Tags `c05impure` and `c05order` (harness/src/progen.rs, also idioms of the typed generator): a mutating method
(`push` / `pop` / `reverse`), an index ASSIGNMENT or a read whose receiver / target chain `rows[e]`, `grid[e1][e2]`
holds index expressions that are not pure (`queue.pop()`, functions popping a captured queue, advancing a cursor kept
in a captured array, counting, printing; under arithmetic, as index of a table) — each index is evaluated exactly once,
left to right; and every multi-operand construct (arguments of a user call, elements of an array literal, operands of
a binary operator, receiver and arguments of a method, an interpolated string next to another operand) in which a
LATER operand changes — push / pop / reverse / index write / nested push / reassignment through a capturing function
— the array, nested array, string or number variable an EARLIER operand has read: the earlier operand keeps its value."""
import runlib
from common import Check

# corpus/run plus the hand-written C05 programs (long strings returned from functions and kept as elements)
CORPUS_DIRS = ("C05",)


def run(ck: Check):
    ck.rule = ("programs from the typed generator (arrays bias + mixed) and the hand-written corpus; non-trivial = "
               "accepted, prints at least one value and contains a call, loop, method call or index write; "
               "distinct by program text")
    ck.build_harness()
    ck.gen_tables()
    runlib.run_obligations(ck, ["NaijaVerif.Props.C05"])
    ck.build_driver(runlib.DRIVER_FAMILIES)
    runlib.float_selftest(ck, 1500 if ck.tier == "quick" else 20000)
    streams = runlib.run_streams(ck, ck.tier, kinds=("corpus",), corpus_dirs=CORPUS_DIRS)
    n = 3000 if ck.tier == "quick" else 40000
    streams.update(runlib.run_streams(ck, ck.tier, kinds=("main",), bias="arrays", n_main=n))
    ck.seed += 7
    mixed = runlib.run_streams(ck, ck.tier, kinds=("main",), n_main=n // 2)
    ck.seed -= 7
    streams["mixed"] = mixed.get("main")
    streams["templates"] = templates(ck, 3000 if ck.tier == "quick" else 45000)
    # the enumerated self-mutation and data-shape families of the C06 product: an index / argument / operand that
    # mutates the very array being indexed or used, nested empty arrays through every recursive walker
    reqs = ck.gen(runlib.FAMILY, ["--kind", "product", "--only", "sink=selfmut,sink=data"])
    res = ck.corr(runlib.FAMILY, reqs, label="run-selfmut-data", timeout=7200)
    runlib.classify(ck, "main", reqs, res)
    streams["selfmut"] = {"requests": reqs, "res": res}
    ck.count("selfmut_and_data_shape_programs", len(reqs))
    if ck.tier == "thorough":
        ck.leanchecker(["NaijaVerif.Props.C05"])
    if ck.is_broken():
        search(ck, streams)
    return ck.finish()


def templates(ck, n):
    """Copy / nested write / push / pop / reverse / mutating-callee sequences over three array
    variables whose expected output is computed in the harness with plain Rust value semantics
    (`nvh run gen --kind c05`): an implementation-level oracle that does not use the Lean model
    (`ORACLE-FAIL … [C05]`), and one more correspondence stream for the model."""
    reqs = ck.gen(runlib.FAMILY, ["--kind", "c05", "--n", n])
    res = ck.corr(runlib.FAMILY, reqs, label="run-c05-templates", timeout=7200)
    info = runlib.classify(ck, "c05tmpl", reqs, res)
    ck.extra_cov["c05_template_programs"] = info["cases"]
    ck.extra_cov["c05_scoped_template_programs"] = sum(1 for r in reqs if " tag=c05scoped " in r)
    ck.extra_cov["c05_long_string_template_programs"] = sum(1 for r in reqs if " tag=c05long " in r)
    ck.extra_cov["c05_impure_index_chain_template_programs"] = sum(1 for r in reqs if " tag=c05impure " in r)
    ck.extra_cov["c05_operand_order_template_programs"] = sum(1 for r in reqs if " tag=c05order " in r)
    return {"requests": reqs, "res": res, "info": info}


def search(ck, streams):
    """Look for a concrete program on which the implementation itself violates value semantics: an
    implementation-level oracle failure, or a program whose output differs from the reference
    interpreter (the Lean evaluator, values pure by construction) on an array-mutating program."""
    if not ck.oracle_fails:
        # no implementation-level failure yet: widen the template and the generated streams
        ck.seed += 101
        templates(ck, 5000 if ck.tier == "quick" else 100000)
        if not ck.oracle_fails and not ck.disagreements:
            runlib.run_streams(ck, ck.tier, kinds=("main",), bias="arrays", n_main=6000 if ck.tier == "quick" else 100000)
        ck.seed -= 101
    fails = [f for f in ck.oracle_fails if f.get("family") == runlib.FAMILY]
    fails.sort(key=lambda f: (not f.get("what", "").startswith("[C05]"), len(f.get("request", ""))))
    if fails:
        f = fails[0]
        src = runlib.src_of(f["request"])

        if f["what"].startswith("[C05]"):
            # the expected output travels in the request (exp=…): shrinking the text would lose it, so the
            # template case is reported as generated; next to it a reduced program on which the real runtime
            # still prints something else than the value-semantics reference interpreter (values pure by
            # construction), when the reduction keeps failing
            rep = {"kind": "impl-vs-oracle", "family": "run", "what": f["what"][:600], "program": src,
                   "requests": [f["request"]], "replay_cmd": "./check C05 --replay <this file>"}

            def differs(s):
                _r, a, b, _fl = runlib.one_case(ck, s, guard=True)
                return a != "rejected" and a != b

            if len(src) < 20000 and differs(src):
                small = runlib.shrink_program(ck, src, differs, budget=250)
                req, a, b, fl = runlib.one_case(ck, small)
                if a != b and a != "rejected":
                    rep.update({"program": small, "generated_program": src, "requests": [req, f["request"]],
                                "impl": a, "model": b, "oracle_fails": fl})
            ck.report_violation(rep)
            return

        def still(s):
            _r, a, _b, fl = runlib.one_case(ck, s, guard=True)
            return bool(fl) or any(k in a for k in ("end=panic", "end=abort", "end=timeout"))

        small = runlib.shrink_program(ck, src, still)
        req, a, b, fl = runlib.one_case(ck, small)
        ck.report_violation({"kind": "impl-vs-oracle", "family": "run", "what": f["what"][:600], "program": small,
                             "requests": [req], "impl": a, "model": b, "oracle_fails": fl,
                             "replay_cmd": "./check C05 --replay <this file>"})
        return
    rep = runlib.report_disagreements(ck, "output of the real runtime differs from the value-semantics reference "
                                          "interpreter", streams)
    if rep is not None:
        rep["broken"] = ck.broken[:5]
        rep["replay_cmd"] = "./check C05 --replay <this file>"
        # the reference interpreter IS the property's oracle here: a program on which the real
        # runtime prints something else is a failing input
        ck.report_violation(rep)
        return
    ck.report_violation({"kind": "tie-broken", "family": "run",
                         "what": "a proof obligation of C05 or the run correspondence no longer checks; no program "
                                 "violating value semantics was found",
                         "broken": ck.broken[:10], "requests": []}, no_input_found=True)


def replay(ck, data):
    return runlib.replay_requests(ck, data)
