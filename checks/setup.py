"""Cold builds after a fresh restore: harness (debug), Gen tables, the whole lake project, driver."""
import os
import sys

import common


def main():
    ck = common.Check("SETUP", "quick", 1)
    ck.build_harness()
    problems = ck.gen_tables()
    if problems:
        print("setup: extractor problems:", problems, file=sys.stderr)
    ok, log = ck.lake_build([])
    if not ok:
        print(log[-4000:], file=sys.stderr)
        print("setup: lake build reported failures (individual checks will report them)", file=sys.stderr)
    print("setup done")
    return 0
