"""CLEX — test entry point of the lexer unit alone (not a property): the lexer parts of C07 (totality,
span safety) and C10 (layout insensitivity), the `lex` correspondence streams and their oracle."""
import lexlib
from common import Check


def run(ck: Check):
    ck.rule = lexlib.RULE
    ck.build_harness()
    ck.gen_tables()
    lexlib.lex_obligations(ck)
    ck.build_driver(["Lex"])
    lexlib.lex_streams(ck, ck.tier)
    if ck.tier == "thorough":
        ck.leanchecker(list(lexlib.MODULES.values()))
    if ck.is_broken():
        lexlib.lex_search(ck)
    return ck.finish()


def replay(ck, data):
    return lexlib.lex_replay(ck, data)
