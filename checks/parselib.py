"""Family `parse` (the real `Parser` against `Model/Parse.lean`): obligations, corpus, token-level
mutations, generated streams, the layout / redundant-parentheses oracle, coverage counters, search and
shrinking. Shared by the properties that rest on the parser (C01 precedence, C07 / C10 parser part);
`checks/cparse.py` is the check that runs all of it.

Request line  `parse <hex src> <tokens>`   (tokens = `kind[:payload…]@lo:hi` joined by `,`)
Answer line   `diags=<D> labels=<L> ast=<A> end=<ok|panic>`
"""
import glob
import os
import random
import re
import subprocess
import time

import common
from common import sh

PROPS = ["NaijaVerif.Props.C01Parse", "NaijaVerif.Props.C07Parse", "NaijaVerif.Props.C10Parse"]

# DiagKind.msg of the 13 `SyntaxError` variants (lean/NaijaVerif/Model/Diag.lean, code "syntax")
SYNTAX_MSGS = [
    "Missing_statement",
    "Missing_identifier",
    "Missing_`get`_after_identifier",
    "Missing_left_parenthesis",
    "Missing_right_parenthesis",
    "Missing_right_bracket",
    "Missing_start_block",
    "Missing_end_block",
    "Missing_comparison_operator",
    "Missing_number__variable__or_left_parenthesis",
    "Unexpected_token",
    "Use_of_reserved_keyword",
    "Invalid_assignment_target",
]
# declared in `enum SyntaxError` but never passed to `emit_error` anywhere in parser.rs
NEVER_EMITTED = ["Missing_comparison_operator", "Missing_`get`_after_identifier"]

MUT_VOCAB = [")", "(", "end", "start", "get", ",", "]", "x", "make", "if to say", ".", "return"]
MUT_MAX_TOKENS = 60

ANSWER = re.compile(r"diags=(\S+) labels=(\S+) ast=(.*) end=(\S+)$")
SPAN = re.compile(r"\d+:\d+")
PARAM = re.compile(r"([0-9a-f]+|-):\d+:\d+:(\S+)")
NODE = re.compile(r"\( (\w+)")
PAIR_WHAT = "layout/paren oracle: "


# ------------------------------------------------------------------------------------ obligations
def existing_props():
    return [m for m in PROPS if os.path.exists(os.path.join(common.LEAN, m.replace(".", "/") + ".lean"))]


def parse_obligations(ck):
    mods = existing_props()
    missing = [m for m in PROPS if m not in mods]
    if missing:
        ck.notes.append("property modules not present yet, skipped: " + ", ".join(missing))
    if not mods:
        return True
    return ck.lean_obligations(mods)


# ----------------------------------------------------------------------------------- request text
def req_source(request):
    """The source bytes of a request line."""
    w = request.split(" ")
    return b"" if len(w) < 2 or w[1] == "-" else bytes.fromhex(w[1])


def req_text(request):
    return req_source(request).decode("utf-8", errors="replace")


def req_spans(request):
    """[(lo, hi)] of the tokens of a request, without the final `eof`."""
    w = request.split(" ")
    if len(w) < 3 or w[2] == "-":
        return []
    out = []
    for t in w[2].split(","):
        pay, _, sp = t.rpartition("@")
        lo, _, hi = sp.partition(":")
        out.append((pay, int(lo), int(hi)))
    if out and out[-1][0] == "eof":
        out.pop()
    return [(lo, hi) for (_, lo, hi) in out]


def lexemes(request):
    """The token texts of a request, sliced out of its source by the token spans; None when the spans
    do not tile the source in order (the lexer's `1.a` quirk gives such spans)."""
    src = req_source(request)
    out, prev = [], 0
    for lo, hi in req_spans(request):
        if not (prev <= lo < hi <= len(src)):
            return None
        out.append(src[lo:hi])
        prev = hi
    return out


def pieces(request):
    """(gaps, lexemes): gaps[i] is the text before lexeme i, gaps[-1] the text after the last one."""
    src = req_source(request)
    lx = lexemes(request)
    if lx is None:
        return None
    gaps, prev = [], 0
    for lo, hi in req_spans(request):
        gaps.append(src[prev:lo])
        prev = hi
    gaps.append(src[prev:])
    return gaps, lx


def lexer_hazard(src):
    """Inputs on which the LEXER (not this family's subject) leaves the text: a number directly
    followed by `.` and a non-digit / the end (`scan_number` then skips one byte blindly), and, inside a
    string literal, a backslash directly followed by a non-ASCII character. Found by walking the bytes
    the way scanner.rs does (whitespace, `#` comments, strings, numbers, words, anything else)."""
    n, i = len(src), 0
    while i < n:
        b = src[i]
        if b in b" \t\n\r\x0c":
            i += 1
        elif b == 0x23:  # '#': comment up to \n or \r
            while i < n and src[i] not in b"\n\r":
                i += 1
        elif b in b"\"'":
            j = i + 1
            while True:
                if j >= n:  # no closing quote before the end: the content is lexed again as tokens
                    i += 1
                    break
                c = src[j]
                if c in b"\n\r":
                    i = j
                    break
                if c == b:
                    i = j + 1
                    break
                if c == 0x5C:
                    if j + 1 >= n:
                        i += 1
                        break
                    if src[j + 1] >= 0x80:
                        return True
                    j += 2
                else:
                    j += 1
        elif 0x30 <= b <= 0x39:
            while i < n and 0x30 <= src[i] <= 0x39:
                i += 1
            if i < n and src[i] == 0x2E:
                if not (i + 1 < n and 0x30 <= src[i + 1] <= 0x39):
                    return True
                i += 1
                while i < n and 0x30 <= src[i] <= 0x39:
                    i += 1
            while i < n and _word_byte(src[i]):
                i += 1
        elif _word_byte(b):
            while i < n and _word_byte(src[i]):
                i += 1
        else:
            i += 1
    return False


def _word_byte(b):
    return 0x30 <= b <= 0x39 or 0x41 <= b <= 0x5A or 0x61 <= b <= 0x7A or b == 0x5F


def mkreq(ck, sources):
    """Sources (bytes) -> request lines through `nvh parse mkreq` (tokens from the real lexer)."""
    srcs = []
    for s in sources:
        try:
            s.decode("utf-8")
        except UnicodeDecodeError:
            continue
        if lexer_hazard(s) or b"\x00" in s:
            ck.count("sources_skipped_lexer_hazard")
            continue
        srcs.append(s)
    if not srcs:
        return []
    inp = "".join((s.hex() or "-") + "\n" for s in srcs).encode()
    p = sh([ck.nvh(), "parse", "mkreq"], inp=inp, timeout=1800)
    lines = p.stdout.decode().splitlines()
    if p.returncode != 0 or len(lines) != len(srcs):
        raise common.MachineryError(f"nvh parse mkreq answered {len(lines)} of {len(srcs)} sources (rc={p.returncode}): "
                                    f"{p.stderr.decode(errors='replace')[-500:]}")
    return lines


# ----------------------------------------------------------------------------------------- corpus
def decode_seed_line(line):
    """seeds.txt escapes: `\\n` newline, `\\t` tab, `\\r` carriage return, `\\\\` one backslash; a
    backslash before anything else stays."""
    out, i = [], 0
    table = {"n": "\n", "t": "\t", "r": "\r", "\\": "\\"}
    while i < len(line):
        c = line[i]
        if c == "\\" and i + 1 < len(line) and line[i + 1] in table:
            out.append(table[line[i + 1]])
            i += 2
        else:
            out.append(c)
            i += 1
    return "".join(out)


def seed_sources():
    path = os.path.join(common.VERIF, "corpus", "parse", "seeds.txt")
    out = []
    if os.path.exists(path):
        for line in open(path, encoding="utf-8").read().split("\n"):
            if line.startswith("##"):
                continue
            out.append(decode_seed_line(line))
    return out


_ESC = {"n": "\n", "t": "\t", "r": "\r", "0": "\0", '"': '"', "'": "'", "\\": "\\"}


def rust_string_literals(text):
    """Every string literal of a Rust source text: normal ones with their escapes decoded, raw ones
    verbatim. A small scanner (comments, char literals and lifetimes are stepped over)."""
    out, i, n = [], 0, len(text)
    while i < n:
        c = text[i]
        if text.startswith("//", i):
            j = text.find("\n", i)
            i = n if j < 0 else j
        elif text.startswith("/*", i):
            j = text.find("*/", i + 2)
            i = n if j < 0 else j + 2
        elif c == "r" and (i == 0 or not (text[i - 1].isalnum() or text[i - 1] == "_")) and re.match(r'r#*"', text[i:i + 12]):
            m = re.match(r'r(#*)"', text[i:i + 12])
            close = '"' + m.group(1)
            beg = i + len(m.group(0))
            j = text.find(close, beg)
            if j < 0:
                break
            out.append(text[beg:j])
            i = j + len(close)
        elif c == "'":
            m = re.match(r"'(\\.[^']*|[^\\'])'", text[i:i + 12])
            i += len(m.group(0)) if m else 1
        elif c == '"':
            buf, j = [], i + 1
            while j < n and text[j] != '"':
                if text[j] == "\\" and j + 1 < n:
                    e = text[j + 1]
                    if e in _ESC:
                        buf.append(_ESC[e])
                        j += 2
                    elif e == "\n":  # line continuation: skip the line end and leading whitespace
                        j += 2
                        while j < n and text[j] in " \t\r\n":
                            j += 1
                    elif e == "u" and (m := re.match(r"u\{([0-9a-fA-F_]{1,8})\}", text[j + 1:j + 14])):
                        try:
                            buf.append(chr(int(m.group(1).replace("_", ""), 16)))
                        except (ValueError, OverflowError):
                            pass
                        j += 1 + len(m.group(0))
                    elif e == "x" and (m := re.match(r"x([0-7][0-9a-fA-F])", text[j + 1:j + 4])):
                        buf.append(chr(int(m.group(1), 16)))
                        j += 4
                    else:
                        buf.append(text[j:j + 2])
                        j += 2
                else:
                    buf.append(text[j])
                    j += 1
            out.append("".join(buf))
            i = j + 1
        else:
            i += 1
    return out


def corpus_sources():
    srcs = list(seed_sources())
    for pat in ("examples/*.ns", "tests/stress/*.ns"):
        for f in sorted(glob.glob(os.path.join(common.REPO, pat))):
            try:
                srcs.append(open(f, encoding="utf-8").read())
            except (OSError, UnicodeDecodeError):
                pass
    for name in ("parser.rs", "resolver.rs", "runtime.rs", "analysis.rs"):
        f = os.path.join(common.REPO, "tests", name)
        if os.path.exists(f):
            for s in rust_string_literals(open(f, encoding="utf-8").read()):
                if len(s) >= 2:
                    srcs.append(s)
    seen, out = set(), []
    for s in srcs:
        try:
            s.encode("utf-8")
        except UnicodeEncodeError:
            continue
        if s not in seen:
            seen.add(s)
            out.append(s)
    return out


def corpus_requests(ck):
    srcs = corpus_sources()
    reqs = mkreq(ck, [s.encode("utf-8") for s in srcs])
    ck.extra_cov["parse_corpus_sources"] = len(reqs)
    return reqs


# -------------------------------------------------------------------------------------- mutations
def mutation_requests(ck, requests, limit):
    """Token-level single mutations (delete / duplicate / swap neighbours / replace by a small
    vocabulary) of the corpus programs with at most MUT_MAX_TOKENS tokens; lexemes joined by single
    spaces. At most `limit`, sampled deterministically from ck.seed."""
    out, seen = [], set()

    def emit(toks):
        s = b" ".join(toks)
        if s not in seen:
            seen.add(s)
            out.append(s)

    for r in requests:
        lx = lexemes(r)
        if not lx or len(lx) > MUT_MAX_TOKENS:
            continue
        n = len(lx)
        for i in range(n):
            emit(lx[:i] + lx[i + 1:])
            emit(lx[:i] + [lx[i]] + lx[i:])
            if i + 1 < n:
                emit(lx[:i] + [lx[i + 1], lx[i]] + lx[i + 2:])
            for v in MUT_VOCAB:
                vb = v.encode()
                if vb != lx[i]:
                    emit(lx[:i] + [vb] + lx[i + 1:])
    ck.extra_cov["parse_mutants_available"] = len(out)
    if len(out) > limit:
        rnd = random.Random(ck.seed)
        out = [out[i] for i in sorted(rnd.sample(range(len(out)), limit))]
    return mkreq(ck, out)


# ---------------------------------------------------------------------------- answers and counters
def split_answer(a):
    """(diags, labels, ast, end) or None."""
    m = ANSWER.match(a)
    return m.groups() if m else None


def diag_names(d):
    if d in ("-", "?"):
        return []
    return [(e.split(":") + ["?", "?", "?"])[2] for e in d.split(",")]


def erase_spans(ast):
    out = []
    for t in ast.split(" "):
        if SPAN.fullmatch(t):
            out.append(".")
        else:
            m = PARAM.fullmatch(t)
            out.append(f"{m.group(1)}:.:{m.group(2)}" if m else t)
    return " ".join(out)


def classify(ck, reqs, res, label):
    """Coverage counters from the IMPLEMENTATION's answers of one stream."""
    impl = res["impl_lines"]
    sampled = 0
    for i, r in enumerate(reqs):
        if i >= len(impl):
            break
        parts = split_answer(impl[i])
        if parts is None:
            ck.count("answers_unreadable")
            continue
        d, _l, ast, end = parts
        if end == "panic":
            ck.count("end_panic")
            continue
        names = diag_names(d)
        nodes = NODE.findall(ast)
        for nm in names:
            ck.count("diag:" + nm)
        for k in nodes:
            ck.count("node:" + k)
        ck.count("cases_with_diags" if names else "cases_clean")
        if names or len(nodes) >= 10:
            ck.nontrivial_case(r)
            if sampled < 1 and len(ck.samples) < 4 and names and len(nodes) >= 4 and len(req_source(r)) <= 70:
                sampled += 1
                ck.samples.append({"stream": label, "source": req_text(r), "impl_answer": impl[i][:300]})


def pair_verdict(a1, a2):
    """None if two answers agree modulo spans, else a description."""
    p1, p2 = split_answer(a1), split_answer(a2)
    if p1 is None or p2 is None:
        return None if a1 == a2 else "unreadable answers differ"
    if p1[3] != "ok" or p2[3] != "ok":
        return None  # a panic is already an ORACLE-FAIL of the run itself
    n1, n2 = diag_names(p1[0]), diag_names(p2[0])
    if n1 != n2:
        return f"syntax diagnostics differ: {n1} vs {n2}"
    e1, e2 = erase_spans(p1[2]), erase_spans(p2[2])
    if e1 != e2:
        w1, w2 = e1.split(" "), e2.split(" ")
        k = next((j for j, (x, y) in enumerate(zip(w1, w2)) if x != y), min(len(w1), len(w2)))
        return ("span-erased ASTs differ at word " + str(k) + ": ‹" + " ".join(w1[max(0, k - 3):k + 4]) + "› vs ‹"
                + " ".join(w2[max(0, k - 3):k + 4]) + "›")
    return None


def pair_oracle(ck, reqs, impl):
    """Implementation-level oracle that needs no model: the two members of a pair (same tokens in
    another layout, redundant parentheses added when the program is valid) must give the same tree
    and the same diagnostic names once spans are erased."""
    fails = 0
    for i in range(0, min(len(reqs), len(impl)) - 1, 2):
        n1, n2 = len(req_spans(reqs[i])), len(req_spans(reqs[i + 1]))
        ck.count("pairs")
        ck.count("pairs_with_redundant_parens" if n2 > n1 else "pairs_relayout_only")
        why = pair_verdict(impl[i], impl[i + 1])
        if why is not None:
            fails += 1
            if fails <= 20:
                ck.oracle_fails.append({"family": "parse", "line": i + 2, "request": reqs[i + 1],
                                        "what": PAIR_WHAT + why, "history": [reqs[i], reqs[i + 1]]})
    return fails



# ------------------------------------------------------------------- totality (hang / death) guard
TOTAL_WHAT = "totality oracle: "
PREC_WHAT = "precedence oracle: "
PROBE_TIMEOUT = 20      # seconds for one probe of `nvh parse run` while isolating a hang


def _impl_probe(ck, requests, timeout=PROBE_TIMEOUT):
    """'ok' | 'timeout' | 'died' | 'oracle' for running the implementation on `requests`."""
    try:
        p = sh([ck.nvh(), "parse", "run"], inp=("\n".join(requests) + "\n").encode(), timeout=timeout)
    except subprocess.TimeoutExpired:
        return "timeout"
    if p.returncode != 0 or len(p.stdout.decode(errors="replace").splitlines()) != len(requests):
        return "died"
    return "oracle" if b"ORACLE-FAIL" in p.stderr else "ok"


def isolate_nonterminating(ck, requests):
    """The first request on which the implementation does not answer (hang or process death): bisect
    on prefixes (the behaviour of a request does not depend on the ones before it)."""
    lo, hi = 0, len(requests)          # invariant: requests[:lo] is fine, requests[:hi] is not
    if _impl_probe(ck, requests[:hi], PROBE_TIMEOUT * 3) in ("ok", "oracle"):
        return None
    while hi - lo > 1:
        mid = (lo + hi) // 2
        if _impl_probe(ck, requests[:mid]) in ("ok", "oracle"):
            lo = mid
        else:
            hi = mid
    return requests[hi - 1]


def corr(ck, reqs, label):
    """ck.corr with a wall-clock limit; a hang or a death of the implementation process is turned into
    a totality failure attributed to one request. Returns the result dict or None."""
    limit = 240 + len(reqs) // 20
    try:
        res = ck.corr("parse", reqs, label=label, timeout=limit)
    except subprocess.TimeoutExpired:
        ck.broken.append({"kind": "impl-timeout", "family": "parse", "stream": label, "limit_s": limit})
        bad = isolate_nonterminating(ck, reqs)
        if bad is not None:
            ck.oracle_fails.append({"family": "parse", "line": reqs.index(bad) + 1, "request": bad,
                                    "what": TOTAL_WHAT + "the parser did not return on this input (hang)",
                                    "history": [bad]})
        return None
    n = len(res["impl_lines"])
    if n < len(reqs):
        bad = reqs[n]
        kind = _impl_probe(ck, [bad])
        if kind in ("timeout", "died"):
            ck.oracle_fails.append({"family": "parse", "line": n + 1, "request": bad,
                                    "what": TOTAL_WHAT + ("the parser did not return on this input (hang)" if kind == "timeout"
                                                          else "the process died while parsing this input (abort / stack "
                                                               "overflow / arena exhausted)"),
                                    "history": [bad]})
    return res


# ----------------------------------------------------------- precedence oracle (needs no model)
# The documented operator order (docs/*.md; the same statement as lean/NaijaVerif/Spec/DocGrammar.lean),
# loosest first; every binary operator associates to the left; prefix `not` / `minus` bind tighter than
# every binary operator; postfix forms bind tighter still.
DOC_LEVELS = [["or"], ["and"], ["na", "pass", "small pass"], ["add", "minus"], ["times", "divide", "mod"]]
OP_AST = {"or": "or", "and": "and", "na": "eq", "pass": "gt", "small pass": "lt", "add": "add", "minus": "minus",
          "times": "times", "divide": "divide", "mod": "mod"}


def _lvl(op):
    return next(i for i, l in enumerate(DOC_LEVELS) if op in l)


def _n(k):
    return f"( num {ord(str(k)):02x} . )"


def precedence_cases():
    """(source, expected span-erased AST of the whole program)."""
    def prog(e):
        return f"( block 1 ( let 72 . {e} _ _ . ) . )"
    ops = [o for l in DOC_LEVELS for o in l]
    out = []
    for o1 in ops:
        for o2 in ops:
            left = f"( bin {OP_AST[o2]} ( bin {OP_AST[o1]} {_n(1)} {_n(2)} . ) {_n(3)} . )"
            right = f"( bin {OP_AST[o1]} {_n(1)} ( bin {OP_AST[o2]} {_n(2)} {_n(3)} . ) . )"
            out.append((f"make r get 1 {o1} 2 {o2} 3", prog(left if _lvl(o1) >= _lvl(o2) else right)))
    for o in ops:
        for (u, ua) in (("not", "not"), ("minus", "neg")):
            out.append((f"make r get {u} 1 {o} 2", prog(f"( bin {OP_AST[o]} ( un {ua} {_n(1)} . ) {_n(2)} . )")))
            out.append((f"make r get 1 {o} {u} 2", prog(f"( bin {OP_AST[o]} {_n(1)} ( un {ua} {_n(2)} . ) . )")))
    x, f = "( var 78 _ . )", "( var 66 _ . )"
    out += [
        ("make r get minus x . f", prog(f"( un neg ( mem {x} 66 . . ) . )")),
        ("make r get not f ( 1 )", prog(f"( un not ( call {f} 1 {_n(1)} _ . ) . )")),
        ("make r get minus x [ 1 ]", prog(f"( un neg ( idx {x} {_n(1)} . . ) . )")),
        ("make r get ( minus x ) . f", prog(f"( mem ( un neg {x} . ) 66 . . )")),
        ("make r get 1 times x . f ( 2 )", prog(f"( bin times {_n(1)} ( call ( mem {x} 66 . . ) 1 {_n(2)} _ . ) . )")),
        ("make r get not not 1", prog(f"( un not ( un not {_n(1)} . ) . )")),
        ("make r get ( 1 add 2 ) times 3", prog(f"( bin times ( bin add {_n(1)} {_n(2)} . ) {_n(3)} . )")),
        ("make r get 1 minus ( 2 minus 3 )", prog(f"( bin minus {_n(1)} ( bin minus {_n(2)} {_n(3)} . ) . )")),
    ]
    return out


def precedence_oracle(ck):
    """The implementation's tree for every pair of binary operators, every prefix/binary combination and
    a few postfix forms must be the grouping the documentation prescribes. Independent of the Lean model
    and of the extracted table."""
    cases = precedence_cases()
    reqs = mkreq(ck, [c[0].encode() for c in cases])
    if len(reqs) != len(cases):
        raise common.MachineryError("precedence oracle: mkreq dropped a case")
    res = corr(ck, reqs, "parse-precedence-cases")
    if res is None:
        return
    impl = res["impl_lines"]
    bad = 0
    for (src, want), r, a in zip(cases, reqs, impl):
        ck.count("precedence_cases")
        parts = split_answer(a)
        got = erase_spans(parts[2]) if parts else a
        if parts is None or parts[0] != "-" or got != want:
            bad += 1
            if bad <= 20:
                ck.oracle_fails.append({"family": "parse", "line": reqs.index(r) + 1, "request": r,
                                        "what": PREC_WHAT + f"`{src}` parses as ‹{got}› (diags {parts[0] if parts else '?'}), "
                                                            f"documented grouping is ‹{want}›",
                                        "history": [r]})
    res["precedence_oracle_fails"] = bad


# ------------------------------------------------- model self-check: the round-trip theorem on real ASTs
def roundtrip_selfcheck(ck, requests, limit=4000):
    """`nvdriver parse` request `rt`: every expression of the (clean) programs is span-erased, checked
    against the well-formedness predicate of the round-trip theorem, printed with 0/1/2 redundant pairs
    of parentheses, re-parsed by the model and compared. A *test* of printer and predicate (model only)."""
    if not os.path.exists(common.DRIVER):
        return
    lines = ["rt " + r.split(" ", 1)[1] for r in requests[:limit] if r.startswith("parse ")]
    if not lines:
        return
    p = sh([common.DRIVER, "parse"], inp=("\n".join(lines) + "\n").encode(), timeout=1800)
    tot = {"exprs": 0, "ok": 0, "notwf": 0, "bad": 0}
    for a in p.stdout.decode(errors="replace").splitlines():
        for kv in a.split(" ")[1:]:
            k, _, v = kv.partition("=")
            if k in tot and v.isdigit():
                tot[k] += int(v)
    for k, v in tot.items():
        ck.count("roundtrip_selfcheck_" + k, v)
    if tot["bad"]:
        ck.broken.append({"kind": "model-selfcheck", "what": f"print/parse round trip of the model failed on {tot['bad']} "
                                                              f"real expressions (printer or WF predicate wrong)"})
    # statement level: `prt` = erase, check `CanonBlock`, print with `programToks`, parse, compare
    lines = ["prt " + r.split(" ", 1)[1] for r in requests[:limit] if r.startswith("parse ")]
    p = sh([common.DRIVER, "parse"], inp=("\n".join(lines) + "\n").encode(), timeout=1800)
    for a in p.stdout.decode(errors="replace").splitlines():
        w = a.split(" ")
        if len(w) == 2 and w[0] == "prt":
            ck.count("program_roundtrip_selfcheck_" + w[1])
    if ck.counters.get("program_roundtrip_selfcheck_bad"):
        ck.broken.append({"kind": "model-selfcheck", "what": "statement-level print/parse round trip of the model failed "
                                                              "on a real program (printer or CanonBlock predicate wrong)"})


# ---------------------------------------------------------------------------------------- streams
def gen_chunks(ck, kind, n, chunk, shift0=0):
    """`n` cases of a generator kind in chunks of at most `chunk` cases, each chunk with its own seed
    (ck.seed is shifted for the call and restored)."""
    k = 0
    while n > 0:
        m = min(n, chunk)
        shift = shift0 + 7919 * k
        ck.seed += shift
        try:
            reqs = ck.gen("parse", ["--n", m, "--kind", kind])
        finally:
            ck.seed -= shift
        yield k, reqs
        n -= m
        k += 1


def run_mix(ck, n, shift0=0, tag="parse-gen-mix"):
    for k, reqs in gen_chunks(ck, "mix", n, 20000, shift0):
        res = corr(ck, reqs, f"{tag}-{k}")
        if res is not None:
            classify(ck, reqs, res, tag)
            if k == 0 and tag == "parse-gen-mix":
                roundtrip_selfcheck(ck, reqs, limit=2000)


def run_pairs(ck, n, shift0=0, tag="parse-gen-pairs"):
    for k, reqs in gen_chunks(ck, "pairs", n, 10000, shift0):
        res = corr(ck, reqs, f"{tag}-{k}")
        if res is not None:
            classify(ck, reqs, res, tag)
            res["pair_oracle_fails"] = pair_oracle(ck, reqs, res["impl_lines"])


def parse_streams(ck, tier):
    quick = tier == "quick"
    corpus = corpus_requests(ck)
    res = corr(ck, corpus, "parse-corpus")
    if res is not None:
        classify(ck, corpus, res, "parse-corpus")
    precedence_oracle(ck)
    roundtrip_selfcheck(ck, corpus)

    muts = mutation_requests(ck, corpus, 3000 if quick else 60000)
    for a in range(0, len(muts), 20000):
        part = muts[a:a + 20000]
        res = corr(ck, part, f"parse-corpus-mutations-{a // 20000}")
        if res is not None:
            classify(ck, part, res, "parse-corpus-mutations")

    run_mix(ck, 4000 if quick else 120000)
    run_pairs(ck, 1000 if quick else 20000)

    never = [m for m in SYNTAX_MSGS if not ck.counters.get("diag:" + m)]
    ck.extra_cov["syntax_error_kinds_never_hit"] = never
    ck.extra_cov["syntax_error_kinds_hit"] = len(SYNTAX_MSGS) - len(never)
    note = ("SyntaxError::ExpectedComparisonOperator (`Missing_comparison_operator`) and "
            "SyntaxError::ExpectedGetAfterIdentifier (`Missing_`get`_after_identifier`) are declared but never "
            "emitted by parser.rs: no input can hit them")
    if note not in ck.notes:
        ck.notes.append(note)
    unexpected = [m for m in never if m not in NEVER_EMITTED]
    if unexpected:
        ck.notes.append("syntax error kinds that the streams of this run did not reach: " + ", ".join(unexpected))


# ----------------------------------------------------------------------------------------- search
def _run_impl(ck, requests):
    p = sh([ck.nvh(), "parse", "run"], inp=("\n".join(requests) + "\n").encode(), timeout=1800)
    return p.stdout.decode(errors="replace").splitlines(), p.stderr.decode(errors="replace")


def _join(gaps, lx):
    out = []
    for g, t in zip(gaps, lx):
        out.append(g)
        out.append(t)
    out.append(gaps[-1])
    return b"".join(out)


def _delete(gaps, lx, i):
    """Remove lexeme i; its two neighbouring gaps merge (never into nothing)."""
    g = gaps[i] + gaps[i + 1]
    if not g and 0 < i < len(lx) - 1:
        g = b" "
    return gaps[:i] + [g] + gaps[i + 2:], lx[:i] + lx[i + 1:]


def ddmin_tokens(ck, request, still_fails, budget_s=120):
    """ddmin over the tokens of a request (gaps preserved): remove chunks of halving size while
    `still_fails(candidate_request)` holds; stops after `budget_s` seconds."""
    t0 = time.time()
    best = request
    pc = pieces(best)
    if pc is None:
        return best
    gaps, lx = pc
    chunk = max(1, len(lx) // 2)
    while len(lx) > 1 and time.time() - t0 < budget_s:
        progressed = False
        i = 0
        while i < len(lx) and time.time() - t0 < budget_s:
            g2, l2 = gaps, lx
            for _ in range(min(chunk, len(l2) - i)):
                g2, l2 = _delete(g2, l2, i)
            cand = _join(g2, l2)
            if l2 and not lexer_hazard(cand):
                try:
                    rq = mkreq(ck, [cand])
                except common.MachineryError:
                    rq = []
                if rq and still_fails(rq[0]):
                    gaps, lx, best, progressed = g2, l2, rq[0], True
                    continue
            i += chunk
        if not progressed:
            if chunk == 1:
                break
            chunk = max(1, chunk // 2)
    return best


def shrink_single(ck, request, rounds=400):
    """ddmin pre-pass, then greedy single-token deletion; a candidate is kept if `nvh parse run` still
    prints ORACLE-FAIL."""
    best = ddmin_tokens(ck, request, lambda r: _impl_probe(ck, [r]) == "oracle", budget_s=90)
    t0 = time.time()
    for _ in range(rounds):
        pc = pieces(best)
        if pc is None or len(pc[1]) <= 1 or time.time() - t0 > 120:
            break
        gaps, lx = pc
        cands = [_join(*_delete(gaps, lx, i)) for i in range(len(lx))]
        cands = [c for c in dict.fromkeys(cands) if not lexer_hazard(c)]
        try:
            reqs = mkreq(ck, cands)
        except common.MachineryError:
            break
        if not reqs:
            break
        _out, err = _run_impl(ck, reqs)
        hit = sorted({int(m.group(1)) - 1 for m in re.finditer(r"^ORACLE-FAIL (\d+) ", err, re.M)})
        hit = [h for h in hit if h < len(reqs)]
        if not hit:
            break
        best = min((reqs[h] for h in hit), key=lambda r: len(req_source(r)))
    return best


def _align(a, b):
    """b is a plus extra parentheses: for every token of a the index of its partner in b, or None."""
    idx, j = [], 0
    for t in a:
        while j < len(b) and b[j] != t:
            if b[j] not in (b"(", b")"):
                return None
            j += 1
        if j >= len(b):
            return None
        idx.append(j)
        j += 1
    if any(x not in (b"(", b")") for x in b[j:]):
        return None
    return idx


def _pair_items(pa, pb):
    """Second member as a list of items [gap, token, tag]: tag = index of the partner token in the first
    member, or ("w", k) for the two extra parentheses of wrap k. None when the extras do not match up."""
    idx = _align(pa[1], pb[1])
    if idx is None:
        return None
    where = {j: i for i, j in enumerate(idx)}
    items, stack, k = [], [], 0
    for j, t in enumerate(pb[1]):
        if j in where:
            items.append([pb[0][j], t, where[j]])
        elif t == b"(":
            stack.append(len(items))
            items.append([pb[0][j], t, None])
        else:
            if not stack:
                return None
            o = stack.pop()
            items[o][2] = ("w", k)
            items.append([pb[0][j], t, ("w", k)])
            k += 1
    if stack:
        return None
    return items


def _text(items, tail):
    """Items -> source text; a gap that a deletion emptied becomes one space."""
    out = []
    for n, (g, t, _tag) in enumerate(items):
        out.append(g if (g or n == 0) else b" ")
        out.append(t)
    out.append(tail)
    return b"".join(out)


def _drop(items, dead):
    """Remove the items whose position is in `dead`; the gap of a removed item is kept when the
    survivor after it has none."""
    out, carry = [], b""
    for n, it in enumerate(items):
        if n in dead:
            carry = carry or it[0]
            continue
        g = it[0] or carry
        carry = b""
        out.append([g, it[1], it[2]])
    return out


def shrink_pair(ck, pair, rounds=60):
    """Shrink a failing pair. (1) Drop the redundant-parenthesis pairs of the second member one at a
    time (always sound: fewer of them are still redundant). (2) Delete the same token ranges from both
    members (ddmin); such a candidate counts only if the first member stays free of syntax diagnostics
    iff it was, and — parentheses are redundant only where the grammar says so — if the MODEL finds
    the two candidates equal modulo spans while the implementation does not (without a driver, step 2
    runs only on pairs without extra parentheses, where equal token sequences are checked directly)."""
    def clean(ans):
        p = split_answer(ans)
        return p is not None and p[0] == "-"

    def model(reqs):
        if not os.path.exists(common.DRIVER):
            return None
        p = sh([common.DRIVER, "parse"], inp=("\n".join(reqs) + "\n").encode(), timeout=1800)
        lines = p.stdout.decode(errors="replace").splitlines()
        return lines if len(lines) == len(reqs) else None

    out, _ = _run_impl(ck, pair)
    if len(out) != 2 or pair_verdict(out[0], out[1]) is None:
        return pair
    want_clean = clean(out[0])
    pa, pb = pieces(pair[0]), pieces(pair[1])
    if pa is None or pb is None:
        return pair
    a_items = [[g, t, i] for i, (g, t) in enumerate(zip(pa[0], pa[1]))]
    b_items = _pair_items(pa, pb)
    if b_items is None:
        return pair
    tails = (pa[0][-1], pb[0][-1])
    best = list(pair)

    def attempt(cands, need_model):
        """cands: [(a_items, b_items)]; returns the first that still fails soundly, with its requests."""
        srcs = []
        for ai, bi in cands:
            srcs += [_text(ai, tails[0]), _text(bi, tails[1])]
        if any(lexer_hazard(x) for x in srcs):
            keep = [k for k in range(0, len(srcs), 2) if not lexer_hazard(srcs[k]) and not lexer_hazard(srcs[k + 1])]
            cands = [cands[k // 2] for k in keep]
            srcs = [x for k in keep for x in (srcs[k], srcs[k + 1])]
        if not cands:
            return None
        try:
            reqs = mkreq(ck, srcs)
        except common.MachineryError:
            return None
        if len(reqs) != len(srcs):
            return None
        ans, _e = _run_impl(ck, reqs)
        ref = model(reqs) if need_model else None
        if len(ans) != len(reqs) or (need_model and ref is None):
            return None
        for k in range(0, len(reqs), 2):
            ai, bi = cands[k // 2]
            la, lb = lexemes(reqs[k]), lexemes(reqs[k + 1])
            # the deletion must not have changed how the rest lexes
            if la != [it[1] for it in ai] or lb != [it[1] for it in bi]:
                continue
            if clean(ans[k]) != want_clean or pair_verdict(ans[k], ans[k + 1]) is None:
                continue
            if need_model and (clean(ref[k]) != want_clean or pair_verdict(ref[k], ref[k + 1]) is not None):
                continue
            return ai, bi, [reqs[k], reqs[k + 1]]
        return None

    # (1) fewer redundant parentheses
    for _ in range(rounds):
        wraps = sorted({it[2] for it in b_items if isinstance(it[2], tuple)})
        if not wraps:
            break
        cands = []
        # first try to drop all but one, then one at a time
        for w in wraps:
            cands.append((a_items, _drop(b_items, {n for n, it in enumerate(b_items)
                                                   if isinstance(it[2], tuple) and it[2] != w})))
        for w in wraps:
            cands.append((a_items, _drop(b_items, {n for n, it in enumerate(b_items) if it[2] == w})))
        got = attempt(cands, need_model=False)
        if got is None:
            break
        a_items, b_items, best = got
        if len({it[2] for it in b_items if isinstance(it[2], tuple)}) <= 1:
            break

    # (2) the same token ranges out of both members
    has_wraps = any(isinstance(it[2], tuple) for it in b_items)
    need_model = has_wraps
    if has_wraps and not os.path.exists(common.DRIVER):
        return best
    chunk = max(1, len(a_items) // 2)
    for _ in range(rounds * 4):
        n = len(a_items)
        if n <= 1:
            break
        cands = []
        for lo in range(0, n, chunk):
            gone = {it[2] for it in a_items[lo:lo + chunk]}
            ai = _drop(a_items, set(range(lo, min(n, lo + chunk))))
            dead = {m for m, it in enumerate(b_items) if not isinstance(it[2], tuple) and it[2] in gone}
            # a wrap with nothing left inside goes too
            opened = {}
            for m, it in enumerate(b_items):
                if isinstance(it[2], tuple):
                    if it[2] not in opened:
                        opened[it[2]] = m
                    else:
                        o = opened[it[2]]
                        if all(x in dead for x in range(o + 1, m)):
                            dead |= {o, m}
            cands.append((ai, _drop(b_items, dead)))
        got = attempt(cands, need_model)
        if got is not None:
            a_items, b_items, best = got
            chunk = max(1, min(chunk, len(a_items) // 2))
        elif chunk == 1:
            break
        else:
            chunk = max(1, chunk // 2)
    return best


def parse_search(ck):
    """Something no longer checks. Report a concrete input on which the implementation itself fails
    its oracle (span sanity, no panic, layout / parenthesis independence), shrunk; otherwise search with
    a bigger budget, and if nothing turns up report the broken tie without an input."""
    if not ck.oracle_fails:
        quick = ck.tier == "quick"
        run_mix(ck, 20000 if quick else 200000, shift0=101, tag="parse-search-mix")
        if not ck.oracle_fails:
            run_pairs(ck, 5000 if quick else 50000, shift0=202, tag="parse-search-pairs")
    if ck.oracle_fails:
        f = min(ck.oracle_fails, key=lambda x: sum(len(req_source(r)) for r in x["history"]))
        total = [x for x in ck.oracle_fails if x["what"].startswith(TOTAL_WHAT)]
        prec = [x for x in ck.oracle_fails if x["what"].startswith(PREC_WHAT)]
        if total:
            f = min(total, key=lambda x: len(req_source(x["request"])))
            reqs = [ddmin_tokens(ck, f["request"], lambda r: _impl_probe(ck, [r], 4) in ("timeout", "died"),
                                 budget_s=150)]
            what, source = f["what"], req_text(reqs[0])
        elif prec:
            f = prec[0]
            reqs, what, source = [f["request"]], f["what"], req_text(f["request"])
        elif f["what"].startswith(PAIR_WHAT) and len(f["history"]) == 2:
            reqs = shrink_pair(ck, f["history"])
            out, _ = _run_impl(ck, reqs)
            what = f["what"]
            if len(out) == 2 and pair_verdict(out[0], out[1]):
                what = PAIR_WHAT + pair_verdict(out[0], out[1])
            source = "\n----\n".join(req_text(r) for r in reqs)
        else:
            reqs = [shrink_single(ck, f["request"])]
            _out, err = _run_impl(ck, reqs)
            m = re.search(r"^ORACLE-FAIL \d+ (.*)$", err, re.M)
            what = m.group(1) if m else f["what"]
            source = req_text(reqs[0])
        ck.report_violation({"kind": "impl-vs-oracle", "family": "parse", "what": what, "requests": reqs,
                             "source": source, "replay_cmd": f"./check {ck.pid} --replay <this file>",
                             "broken": ck.broken[:5], "disagreements": ck.disagreements[:3]})
    else:
        ck.report_violation({"kind": "tie-broken", "family": "parse",
                             "what": "proof obligation, generated table or model/implementation correspondence of the "
                                     "parser no longer checks; no input violating span sanity / layout independence "
                                     "was found",
                             "broken": ck.broken[:10], "disagreements": ck.disagreements[:5],
                             "requests": ([ck.disagreements[0]["request"]] if ck.disagreements else [])},
                            no_input_found=True)


def replay(ck, data):
    reqs = data.get("requests", [])
    inp = ("\n".join(reqs) + "\n").encode()
    what = str(data.get("what", ""))
    if what.startswith(TOTAL_WHAT):
        kind = _impl_probe(ck, reqs, 10)
        print(f"source: {req_text(reqs[0]) if reqs else ''!r}")
        print(f"implementation: {kind}")
        return 1 if kind in ("timeout", "died") else 0
    if what.startswith(PREC_WHAT) and reqs:
        want = dict(precedence_cases()).get(req_text(reqs[0]))
        out, _ = _run_impl(ck, reqs)
        parts = split_answer(out[0]) if out else None
        got = erase_spans(parts[2]) if parts else "?"
        print(f"source: {req_text(reqs[0])!r}\nimplementation: {got}\ndocumented:     {want}")
        return 1 if got != want else 0
    impl = sh([ck.nvh(), "parse", "run"], inp=inp)
    il = impl.stdout.decode(errors="replace").splitlines()
    ml = []
    if os.path.exists(common.DRIVER):
        ml = sh([common.DRIVER, "parse"], inp=inp).stdout.decode(errors="replace").splitlines()
    print("request | implementation | model")
    for i, r in enumerate(reqs):
        print(f"source: {req_text(r)!r}")
        print(f"{r} | {il[i] if i < len(il) else '?'} | {ml[i] if i < len(ml) else '?'}")
    err = impl.stderr.decode(errors="replace")
    print(err)
    bad = "ORACLE-FAIL" in err or il != ml or len(il) != len(reqs)
    if str(data.get("what", "")).startswith(PAIR_WHAT) and len(reqs) == 2 and len(il) == 2:
        why = pair_verdict(il[0], il[1])
        if why:
            print(PAIR_WHAT + why)
            bad = True
    return 1 if bad else 0
