"""C06 — an accepted program can never crash the interpreter.

Proof: lean/NaijaVerif/Props/C06Eval.lean over the evaluator model with explicit panic outcomes: the
panic sites of runtime.rs/builtins are regenerated on every run (Gen/PanicSites) and must all be
accounted for by the model; for EVERY program the current code can only panic at nine residual sites
(`current_panics_only_residual`), and C06 is exactly their unreachability for accepted programs
(`c06_of_static_guarantees`, hypothesis `ResidualUnreachable` kept explicit). Tie: the complete finite
product sink x runtime type x dynamic route (every operator side, condition, index, method x arity, command
argument, index-assignment root x number/string/bool/null/array/command/result x parameter/element/pop/
mixed-return/re-assigned variable) is executed on the real runtime on every run, plus the generated
main stream (its program shapes include functions defined in dead code — after return / comot / next —
and reached through hoisting, whose helpers only they call) and the corpus (corpus/run, corpus/C06).
Implementation-level oracle (no model): an accepted program, run with the optimisation plan and the
frame arena as the CLI runs it (and again without either), ends in ok or a reported runtime error —
never panic, abort or hang (ORACLE-FAIL [C06]).
Props/C06Accepted.lean discharges the residual sites from the resolver model under ONE hypothesis on the
optimisation plan, PlanReach (a call-closed set K of functions is kept; proved of the analysis MODEL's plan
under conditions on program + facts: analysis_plan_reach, c06_pipeline_reach). The driver evaluates it with the
canonical K on the REAL plan and AST of every accepted program (`kept` request: reach=, num=); reach=0 means the
theorem does not cover the tree -> VIOLATION (the crashing program when there is one)."""
import runlib
from common import DRIVER, Check, sh

MODULES = ["NaijaVerif.Props.C06Eval", "NaijaVerif.Props.C06Accepted"]
# corpus/run plus the hand-written C06 programs (hoisted functions whose definition statement is dead code)
CORPUS_DIRS = ("C06",)


def run(ck: Check):
    ck.rule = ("the complete sink x type x route product (exhaustive: true for the product; surrounding context fixed), "
               "the typed generated stream and the corpus; non-trivial = accepted program that routes a value through "
               "a dynamically typed position or contains a call/loop/method/index write; distinct by program text")
    ck.build_harness()
    ck.gen_tables()
    runlib.run_obligations(ck, MODULES)
    ck.build_driver(runlib.DRIVER_FAMILIES)
    runlib.float_selftest(ck, 1000 if ck.tier == "quick" else 20000)
    # every `run` request is executed WITH the resolver's optimisation plan and the frame arena (as the CLI
    # does: run_with_analysis(.., Some(plan))), then again without the frame arena and without the plan
    streams = runlib.run_streams(ck, ck.tier, kinds=("corpus", "product", "main"),
                                 n_main=1500 if ck.tier == "quick" else 60000, corpus_dirs=CORPUS_DIRS)
    if streams.get("main"):
        ck.extra_cov["main_dead_definition_programs"] = {
            k: ck.counters.get("feature_" + k, 0) for k in ("dead_def_idiom", "dead_def_hoisted")}
    prod = streams.get("product")
    if prod:
        ends = {}
        for a in prod["res"]["impl_lines"]:
            e = a.split("end=")[-1].split("@")[0] if "end=" in a else a
            ends[e] = ends.get(e, 0) + 1
        ck.extra_cov["product_endings"] = dict(sorted(ends.items()))
        ck.extra_cov["exhaustive"] = True
    not_kept, not_reach = plan_hypothesis(ck, streams)
    if ck.tier == "thorough":
        ck.leanchecker(MODULES)
    if ck.is_broken():
        search(ck, streams)
    if not_kept:
        # STATISTIC only.  `keptBlock` (the former hypothesis) asks every function the plan keeps to call kept
        # functions only; a hoisted definition in dead code that nobody calls (so what only it calls is "unused" and
        # removed) fails it although nothing of it can run (Props/C06Accepted.lean: keptBlock_too_strong).  The
        # theorems now assume PlanReach, evaluated below.
        r, a = min(not_kept, key=lambda x: len(x[0]))
        ck.extra_cov["keptBlock_false_sample"] = {"program": runlib.src_of(r)[:1500], "impl": a[:200],
                                                  "plan": r.split(" plan=", 1)[1].split(" ", 1)[0]}
    if not_reach and not ck.violations:
        # The hypothesis of c06_accepted / c06_source / c06_pipeline (PlanReach, with the canonical K) is NOT met by
        # the plan of the real analyses on an accepted program: the plan removes a function that reachable code
        # calls (or the resolver left a statement / definition without id).  If the implementation crashed on such
        # a program that program is the failing input; otherwise the proof no longer covers the tree.
        crashed = [(r, a, k) for r, a, k in not_reach if any(x in a for x in ("end=panic", "end=abort", "end=timeout"))]
        if crashed:
            r, a, k = min(crashed, key=lambda x: len(x[0]))
            ck.report_violation({"kind": "impl-vs-oracle", "family": "run", "what": "accepted program crashes with the "
                                 "plan of the real analyses, which removes a function that reachable code calls (" + k + ")",
                                 "program": runlib.src_of(r), "requests": [r], "impl": a, "hypothesis": k})
        else:
            r, a, k = min(not_reach, key=lambda x: len(x[0]))
            ck.report_violation({"kind": "hypothesis-not-met", "family": "run",
                                 "theorem": "NaijaVerif.Props.C06Accepted.c06_pipeline_unconditional proves PlanReach for "
                                            "the MODEL's plan on the model's facts; the REAL plan / annotations fail it "
                                            "(c06_accepted, c06_source take it as a hypothesis)",
                                 "what": "the plan of the real analyses does not keep what reachable code calls on an "
                                         "accepted program (Bridge.planReaches / numBlock evaluated by the driver: " + k +
                                         "); no crashing program found",
                                 "program": runlib.src_of(r), "requests": [r], "impl": a, "hypothesis": k,
                                 "programs_not_covered": len(not_reach)}, no_input_found=True)
    return ck.finish()


def plan_hypothesis(ck, streams):
    """The hypotheses on the optimisation plan of Props/C06Accepted.lean, evaluated by the driver (`kept` request) on
    the REAL plan and the real resolver's annotated AST of every accepted program of the run streams:
      kept   Bridge.keptBlock plan root       the former, too strong hypothesis PlanKeepsCalls (statistic);
      reach  Bridge.planReaches plan root     PlanReach with the canonical K (closure of the call annotations): the
                                              hypothesis of c06_accepted / c06_source / c06_pipeline;
      num    Bridge.numBlock root             every statement / definition numbered.
    For the resolver MODEL's output PlanReach of the model's own plan is a theorem (c06_pipeline_unconditional:
    resolve_num, resolve_ownOk, bodyReachable_closed, analysis_plan_reach); evaluating reach / num on the REAL plan
    and annotations is the tie of that theorem to the code (ownOkB / brClosed of the real facts are evaluated on
    every case of the plan family, C03).
    Returns ([(request, impl answer)] with kept=0, [(request, impl answer, driver answer)] with reach=0 or num=0)."""
    not_kept, not_reach = [], []
    for _kind, s in streams.items():
        pairs = [(r, a) for r, a in zip(s["requests"], s["res"]["impl_lines"]) if r.startswith("run ") and " plan=none" not in r]
        if not pairs:
            continue
        p = sh([DRIVER, "run"], inp=("\n".join("kept " + r[4:] for r, _ in pairs) + "\n").encode(), timeout=3600)
        ans = p.stdout.decode(errors="replace").splitlines()
        ck.count("plan_hypothesis_checked", len(pairs))
        ck.count("plan_hypothesis_with_removed_functions",
                 sum(1 for r, _ in pairs if not r.split(" plan=", 1)[1].split(" ", 1)[0].endswith(";-")))
        if len(ans) != len(pairs):
            ck.broken.append({"kind": "driver-answers-missing", "family": "run", "what": f"kept: {len(ans)}/{len(pairs)} answers"})
        for (r, a), k in zip(pairs, ans):
            f = dict(x.split("=", 1) for x in k.split() if "=" in x)
            if f.get("kept") != "1":
                not_kept.append((r, a))
            if f.get("reach") != "1" or f.get("num") != "1":
                not_reach.append((r, a, k))
    ck.count("keptBlock_false", len(not_kept))
    ck.count("plan_reach_false", len(not_reach))
    n = ck.counters.get("plan_hypothesis_checked", 0)
    ck.extra_cov["plan_reach_share"] = f"{n - len(not_reach)}/{n}"
    return not_kept, not_reach


def search(ck, streams):
    crashes = runlib.oracle_fails_for(ck, "C06")
    if crashes:
        f = min(crashes, key=lambda x: len(x.get("request", "")))
        src = runlib.src_of(f["request"])

        def still(s):
            _r, a, _b, fl = runlib.one_case(ck, s, guard=True)  # a candidate that no longer terminates is no crash
            return any(k in a for k in ("end=panic", "end=abort", "end=timeout")) or any("[C06]" in l for l in fl)

        small = runlib.shrink_program(ck, src, still) if len(src) < 6000 else src
        req, a, b, fails = runlib.one_case(ck, small)
        ck.report_violation({"kind": "impl-vs-oracle", "family": "run", "what": f["what"][:400], "program": small,
                             "requests": [req], "impl": a, "model": b, "oracle_fails": fails,
                             "crashing_cases": len(crashes), "broken": ck.broken[:5]})
        return
    rep = runlib.report_disagreements(ck, "real runtime and evaluator model disagree (no crashing program found)", streams)
    if rep is not None:
        rep["broken"] = ck.broken[:5]
        ck.report_violation(rep, no_input_found=True)
    else:
        ck.report_violation({"kind": "tie-broken", "family": "run", "broken": ck.broken[:10], "requests": [],
                             "oracle_fails": ck.oracle_fails[:5]}, no_input_found=True)


def replay(ck, data):
    if data.get("kind") == "hypothesis-not-met":
        reqs = data.get("requests", [])
        p = sh([DRIVER, "run"], inp=("\n".join("kept " + r[4:] for r in reqs) + "\n").encode(), timeout=600)
        ans = p.stdout.decode(errors="replace").splitlines()
        bad = 0
        for r, k in zip(reqs, ans):
            print("program:\n" + runlib.src_of(r))
            print("plan    :", r.split(" plan=", 1)[1].split(" ", 1)[0])
            print("driver  :", k, "(reach = Bridge.planReaches, the hypothesis PlanReach of c06_pipeline)")
            if "reach=1" not in k or "num=1" not in k:
                bad += 1
        return 1 if bad or runlib.replay_requests(ck, data) else 0
    return runlib.replay_requests(ck, data)
