"""C06 — an accepted program can never crash the interpreter.

Proof: lean/NaijaVerif/Props/C06Eval.lean over the evaluator model with explicit panic outcomes: the
panic sites of runtime.rs/builtins are regenerated on every run (Gen/PanicSites) and must all be
accounted for by the model; for EVERY program the current code can only panic at nine residual sites
(`current_panics_only_residual`), and C06 is exactly their unreachability for accepted programs
(`c06_of_static_guarantees`, hypothesis `ResidualUnreachable` kept explicit). Tie: the complete finite
product sink x runtime type x dynamic route (every operator side, condition, index, method x arity, command
argument, index-assignment root x number/string/bool/null/array/command/result x parameter/element/pop/
mixed-return/re-assigned variable) is executed on the real runtime on every run, plus the generated
main stream and the corpus. Implementation-level oracle (no model): an accepted program ends in ok or
a reported runtime error — never panic, abort or hang (ORACLE-FAIL [C06])."""
import runlib
from common import Check

MODULES = ["NaijaVerif.Props.C06Eval", "NaijaVerif.Props.C06Accepted"]


def run(ck: Check):
    ck.rule = ("the complete sink x type x route product (exhaustive: true for the product; surrounding context fixed), "
               "the typed generated stream and the corpus; non-trivial = accepted program that routes a value through "
               "a dynamically typed position or contains a call/loop/method/index write; distinct by program text")
    ck.build_harness()
    ck.gen_tables()
    runlib.run_obligations(ck, MODULES)
    ck.build_driver(runlib.DRIVER_FAMILIES)
    runlib.float_selftest(ck, 1000 if ck.tier == "quick" else 20000)
    streams = runlib.run_streams(ck, ck.tier, kinds=("corpus", "product", "main"),
                                 n_main=1500 if ck.tier == "quick" else 60000)
    prod = streams.get("product")
    if prod:
        ends = {}
        for a in prod["res"]["impl_lines"]:
            e = a.split("end=")[-1].split("@")[0] if "end=" in a else a
            ends[e] = ends.get(e, 0) + 1
        ck.extra_cov["product_endings"] = dict(sorted(ends.items()))
        ck.extra_cov["exhaustive"] = True
    if ck.tier == "thorough":
        ck.leanchecker(MODULES)
    if ck.is_broken():
        search(ck, streams)
    return ck.finish()


def search(ck, streams):
    crashes = runlib.oracle_fails_for(ck, "C06")
    if crashes:
        f = min(crashes, key=lambda x: len(x.get("request", "")))
        src = runlib.src_of(f["request"])

        def still(s):
            _r, a, _b, _f = runlib.one_case(ck, s)
            return any(k in a for k in ("end=panic", "end=abort", "end=timeout"))

        small = runlib.shrink_program(ck, src, still) if len(src) < 6000 else src
        req, a, b, fails = runlib.one_case(ck, small)
        ck.report_violation({"kind": "impl-vs-oracle", "family": "run", "what": f["what"][:400], "program": small,
                             "requests": [req], "impl": a, "model": b, "broken": ck.broken[:5]})
        return
    rep = runlib.report_disagreements(ck, "real runtime and evaluator model disagree (no crashing program found)", streams)
    if rep is not None:
        rep["broken"] = ck.broken[:5]
        ck.report_violation(rep, no_input_found=True)
    else:
        ck.report_violation({"kind": "tie-broken", "family": "run", "broken": ck.broken[:10], "requests": [],
                             "oracle_fails": ck.oracle_fails[:5]}, no_input_found=True)


def replay(ck, data):
    return runlib.replay_requests(ck, data)
