"""C15 — child processes get exactly the configured argv, env, cwd and stdin; invalid, over-limit and
denied commands are refused before anything is spawned."""
import os
import re

from common import CACHE, DRIVER, VERIF, Check, sh

STARTS = ("new",)
WORKDIR = os.path.join(CACHE, "tmp", "c15")
CORPUS = os.path.join(VERIF, "corpus", "C15")
PROPS = ["NaijaVerif.Props.C15"]


def child_binary(ck):
    """A private copy of the harness binary to be the spawned program: the build output itself is
    replaced (and briefly absent) whenever anybody rebuilds the harness."""
    import shutil
    dst = os.path.join(WORKDIR, "nvh-child")
    tmp = dst + ".new"
    shutil.copy2(ck.nvh(), tmp)
    os.replace(tmp, dst)
    return dst


def hexs(s):
    b = s.encode()
    return b.hex() if b else "-"


def run_args():
    return ("run", "--dir", WORKDIR)


def stream(ck, n, spawn, big=0, seed_shift=0, label=None):
    ck.seed += seed_shift
    reqs = ck.gen("proc", ["--n", n, "--spawn", spawn, "--dir", WORKDIR, "--big", big, "--nvh", os.path.join(WORKDIR, "nvh-child")])
    ck.seed -= seed_shift
    res = ck.corr("proc", reqs, starts=STARTS, nvh_args=run_args(), label=label)
    return reqs, res


def corpus_requests(ck):
    """Hand-written seeds and minimised past failures. `{NVH}` stands for the hex of the harness
    binary's path and `{DIR}` for the hex of the work directory (hex strings concatenate)."""
    reqs = []
    if not os.path.isdir(CORPUS):
        return reqs
    nvh_hex = hexs(os.path.join(WORKDIR, "nvh-child"))
    dir_hex = hexs(WORKDIR)
    for fn in sorted(os.listdir(CORPUS)):
        if not fn.endswith(".txt"):
            continue
        for line in open(os.path.join(CORPUS, fn)):
            line = line.strip()
            if not line or line.startswith("#"):
                continue
            reqs.append(line.replace("{NVH}", nvh_hex).replace("{DIR}", dir_hex))
    return reqs


def run(ck: Check):
    """Report files live under WORKDIR and are named by seed and index: two runs at the same time
    would delete each other's reports, so the whole run holds a lock."""
    import fcntl
    os.makedirs(WORKDIR, exist_ok=True)
    with open(os.path.join(WORKDIR, ".lock"), "w") as lock:
        fcntl.flock(lock, fcntl.LOCK_EX)
        return run_locked(ck)


def run_locked(ck: Check):
    ck.rule = ("builder histories (random call orders over arg/cwd/env/stdin_*/stdout_*/stderr_*/timeout/clone, "
               "texts with spaces, quotes, $, *, ;, newlines, empty, multi-byte, NUL, '=' in keys) validated under "
               "three limit settings each (all limits met; exactly one limit one below; each limit independently "
               "at -1/0/+1/far); plus spawn histories whose child is the harness itself reporting argv/env/cwd/"
               "stdin/stdio. Non-trivial = a history in which a key is written twice, a validate is refused, or a "
               "run/spawn request is answered; distinct by request text")
    os.makedirs(WORKDIR, exist_ok=True)
    ck.build_harness()
    child_binary(ck)
    ck.gen_tables()
    ck.lean_obligations(PROPS)
    ck.build_driver(["Proc"])
    ck.assumptions.append("std::process::Command passes argv/env/cwd/stdio to the child without interpretation "
                          "(trusted std/OS; observed on every spawned sample by the echo child)")
    # corpus first
    creqs = corpus_requests(ck)
    if creqs:
        res = ck.corr("proc", creqs, starts=STARTS, nvh_args=run_args(), label="proc-corpus")
        classify(ck, creqs, res)
    if ck.tier == "quick":
        n, spawn, big = 6000, 80, 0
    else:
        n, spawn, big = 400000, 6000, 1
    reqs, res = stream(ck, n, spawn, big)
    classify(ck, reqs, res)
    if ck.tier == "thorough":
        ck.leanchecker(PROPS)
        exhaustive(ck)
        for shift in (11, 12, 13):
            r2, s2 = stream(ck, 20000, 300, 1, seed_shift=shift, label=f"proc-seed+{shift}")
            classify(ck, r2, s2)
    if ck.is_broken():
        search(ck)
    return ck.finish()


def histories(reqs, answers):
    hist, ans = [], []
    for i, r in enumerate(reqs):
        if r.split(" ", 1)[0] in STARTS and hist:
            yield hist, ans
            hist, ans = [], []
        hist.append(r)
        ans.append(answers[i] if i < len(answers) else "?")
    if hist:
        yield hist, ans


def classify(ck, reqs, res):
    impl = res["impl_lines"]
    for hist, ans in histories(reqs, impl):
        if not hist[0].startswith("new"):
            continue
        ck.count("histories")
        keys = [r.split()[1] for r in hist if r.startswith("env ")]
        dup = len(keys) != len(set(keys))
        refused = False
        ran = False
        for r, a in zip(hist, ans):
            w = r.split()[0]
            if w == "validate":
                ck.count("validate_ok" if a.startswith("ok ") else "validate_" + a.replace(" ", ":"))
                refused |= a.startswith("err")
            elif w in ("run", "spawn"):
                ran = True
                kind = a.split(" ", 1)[0]
                ck.count(f"{'run' if w == 'run' else 'api'}_{kind}" + ("_" + a.split()[1] if kind == "invalid" else ""))
                if kind == "spawned":
                    ck.count("children_observed")
                elif a.endswith("spawn=0"):
                    ck.count("refusals_with_no_child")
        if dup:
            ck.count("histories_with_key_overwrite")
        if dup or refused or ran:
            ck.nontrivial_case("\n".join(hist))
        if ran and len(ck.samples) < 3 and len(hist) < 16:
            ck.samples.append({"requests": list(hist), "impl_answers": list(ans)})
        elif refused and dup and len(ck.samples) < 6 and len(hist) < 14:
            ck.samples.append({"requests": list(hist), "impl_answers": list(ans)})
    m = re.search(r"spawned=(\d+)", " ".join(res["stderr"][-2:]))
    if m:
        ck.extra_cov["children_spawned"] = ck.extra_cov.get("children_spawned", 0) + int(m.group(1))


def exhaustive(ck):
    """Every call sequence of length <= 4 over a small alphabet, validated under two tiny limit
    settings (validates the model tie; not the proof)."""
    alpha = ["arg 61", "arg -", "env 4b 31", "env 4b 3232", "env 4a 33", "cwd 2f", "stdin_text 7878",
             "stdin_null", "timeout 1", "clone"]
    reqs = []
    count = 0

    def rec(prefix, depth):
        nonlocal count
        count += 1
        reqs.append("new 70")
        reqs.extend(prefix)
        reqs.append("show")
        reqs.append("caps 1 1 2 1 1 1 1 1 3 2 16 1 1 10")
        reqs.append("validate")
        reqs.append("caps 1 1 1 1 2 2 1 2 2 1 16 2 1 10")
        reqs.append("validate")
        if depth:
            for op in alpha:
                rec(prefix + [op], depth - 1)

    rec([], 4)
    res = ck.corr("proc", reqs, starts=STARTS, nvh_args=run_args(), label="proc-exhaustive-len4")
    ck.extra_cov["exhaustive_histories_len4_10ops"] = count
    classify(ck, reqs, res)


def fails_oracle(ck, hist):
    inp = ("\n".join(hist) + "\n").encode()
    p = sh([ck.nvh(), "proc"] + list(run_args()), inp=inp)
    return b"ORACLE-FAIL" in p.stderr


def shrink(ck, hist):
    """Greedy line removal (the `new` line, the three child-protocol arguments of a spawn history and
    the last request are kept); a candidate is kept if the oracle still fails."""
    best = list(hist)
    keep_head = 1
    if len(best) > 4 and best[1:3] == ["arg " + hexs("proc"), "arg " + hexs("child")]:
        keep_head = 4
    elif len(best) > 5 and best[2:4] == ["arg " + hexs("proc"), "arg " + hexs("child")]:
        keep_head = 5
    changed = True
    while changed:
        changed = False
        for i in range(len(best) - 2, keep_head - 1, -1):
            cand = best[:i] + best[i + 1:]
            if fails_oracle(ck, cand):
                best = cand
                changed = True
    return best


def involves_child(hist):
    return any(r.split(" ", 1)[0] in ("run", "spawn") for r in hist)


def reproduces(ck, hist, times=3):
    """A failure that involves a real child process (OS, scheduling, the file system) is reported only
    if it shows on three consecutive re-runs (DESIGN.md 3.5a); builder/validate failures are
    deterministic and taken at face value."""
    if not involves_child(hist):
        return True
    inp = ("\n".join(hist) + "\n").encode()
    for _ in range(times):
        impl = sh([ck.nvh(), "proc"] + list(run_args()), inp=inp)
        mod = sh([DRIVER, "proc"], inp=inp)
        if b"ORACLE-FAIL" not in impl.stderr and impl.stdout == mod.stdout:
            return False
    return True


def search(ck):
    """Something no longer checks: look for a concrete history on which the property itself fails on
    the implementation (shadow of the requests vs builder state / accepted spec / child's report;
    limits as a plain conjunction; refused => no child)."""
    n_of, n_dis = len(ck.oracle_fails), len(ck.disagreements)
    ck.oracle_fails = [f for f in ck.oracle_fails if reproduces(ck, f["history"])]
    ck.disagreements = [d for d in ck.disagreements if reproduces(ck, d["history"])]
    dropped = (n_of - len(ck.oracle_fails)) + (n_dis - len(ck.disagreements))
    if dropped:
        ck.notes.append(f"{dropped} failure(s) of histories that spawn a child did not reproduce on 3 consecutive "
                        "re-runs (environment: e.g. the binary being rebuilt) and were dropped")
        ck.count("transient_failures_dropped", dropped)
    if not ck.is_broken():
        return
    found = list(ck.oracle_fails)
    if not found:
        budget, spawns = (20000, 200) if ck.tier == "quick" else (200000, 2000)
        for shift in (101, 202):
            stream(ck, budget, spawns, 0, seed_shift=shift, label=f"proc-search+{shift}")
            ck.oracle_fails = [f for f in ck.oracle_fails if reproduces(ck, f["history"])]
            if ck.oracle_fails:
                found = list(ck.oracle_fails)
                break
    if found:
        f = min(found, key=lambda x: len(x["history"]))
        hist = shrink(ck, f["history"])
        ck.report_violation({"kind": "impl-vs-oracle", "family": "proc", "what": f["what"], "requests": hist,
                             "replay_cmd": "./check C15 --replay <this file>",
                             "broken": ck.broken[:5], "disagreements": ck.disagreements[:3]})
    else:
        ck.report_violation({"kind": "tie-broken", "family": "proc",
                             "what": "proof obligation, generated limits table or model/implementation "
                                     "correspondence no longer checks; no history violating the property was found",
                             "broken": ck.broken[:10], "disagreements": ck.disagreements[:5],
                             "requests": (ck.disagreements[0]["history"] if ck.disagreements else [])},
                            no_input_found=True)


def replay(ck, data):
    import fcntl
    os.makedirs(WORKDIR, exist_ok=True)
    lock = open(os.path.join(WORKDIR, ".lock"), "w")
    fcntl.flock(lock, fcntl.LOCK_EX)
    reqs = data.get("requests", [])
    inp = ("\n".join(reqs) + "\n").encode()
    impl = sh([ck.nvh(), "proc"] + list(run_args()), inp=inp)
    mod = sh([DRIVER, "proc"], inp=inp)
    print("request | implementation | model")
    il, ml = impl.stdout.decode().splitlines(), mod.stdout.decode().splitlines()
    for i, r in enumerate(reqs):
        print(f"{r} | {il[i] if i < len(il) else '?'} | {ml[i] if i < len(ml) else '?'}")
    print(impl.stderr.decode())
    return 1 if b"ORACLE-FAIL" in impl.stderr or il != ml else 0
