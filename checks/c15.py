"""C15 — child processes get exactly the configured argv, env, cwd and stdin; invalid, over-limit and
denied commands are refused before anything is spawned."""
import os
import re

from common import CACHE, DRIVER, VERIF, Check, sh

STARTS = ("new",)
WORKDIR = os.path.join(CACHE, "tmp", "c15")
CORPUS = os.path.join(VERIF, "corpus", "C15")
PROPS = ["NaijaVerif.Props.C15"]


def child_binary(ck):
    """A private copy of the harness binary to be the spawned program: the build output itself is
    replaced (and briefly absent) whenever anybody rebuilds the harness."""
    import shutil
    dst = os.path.join(WORKDIR, "nvh-child")
    tmp = dst + ".new"
    shutil.copy2(ck.nvh(), tmp)
    os.replace(tmp, dst)
    return dst


def hexs(s):
    b = s.encode()
    return b.hex() if b else "-"


def run_args():
    # scripts run in a worker process of their own (the private copy of the binary): an interpreter
    # that corrupts memory may abort there without taking the whole request stream along
    return ("run", "--dir", WORKDIR, "--worker", os.path.join(WORKDIR, "nvh-child"))


def stream(ck, n, spawn, big=0, seed_shift=0, label=None):
    ck.seed += seed_shift
    reqs = ck.gen("proc", ["--n", n, "--spawn", spawn, "--dir", WORKDIR, "--big", big, "--nvh", os.path.join(WORKDIR, "nvh-child")])
    ck.seed -= seed_shift
    res = corr(ck, reqs, label)
    return reqs, res


def corr(ck, reqs, label=None):
    """ck.corr plus: after a few failing run/spawn requests the harness answers the remaining ones
    `skipped` (a change that makes children hang would otherwise cost one timeout per sample); those
    lines are no disagreements."""
    before = len(ck.disagreements)
    res = ck.corr("proc", reqs, starts=STARTS, nvh_args=run_args(), label=label)
    skipped = sum(1 for a in res["impl_lines"] if a == "skipped")
    if skipped:
        kept = [d for d in ck.disagreements[before:] if d["impl"] != "skipped"]
        ck.disagreements[before:] = kept
        res["disagreements"] = sum(1 for a, b in zip(res["impl_lines"], res["model_lines"]) if a != b and a != "skipped")
        res["skipped_after_failures"] = skipped
        ck.count("spawn_requests_skipped_after_failures", skipped)
    return res


def corpus_requests(ck):
    """Hand-written seeds and minimised past failures. `{NVH}` stands for the hex of the harness
    binary's path and `{DIR}` for the hex of the work directory (hex strings concatenate)."""
    reqs = []
    if not os.path.isdir(CORPUS):
        return reqs
    nvh_hex = hexs(os.path.join(WORKDIR, "nvh-child"))
    dir_hex = hexs(WORKDIR)
    for fn in sorted(os.listdir(CORPUS)):
        if not fn.endswith(".txt"):
            continue
        for line in open(os.path.join(CORPUS, fn)):
            line = line.strip()
            if not line or line.startswith("#"):
                continue
            reqs.append(line.replace("{NVH}", nvh_hex).replace("{DIR}", dir_hex))
    return reqs


def run(ck: Check):
    """Report files live under WORKDIR and are named by seed and index: two runs at the same time
    would delete each other's reports, so the whole run holds a lock."""
    import fcntl
    os.makedirs(WORKDIR, exist_ok=True)
    with open(os.path.join(WORKDIR, ".lock"), "w") as lock:
        fcntl.flock(lock, fcntl.LOCK_EX)
        return run_locked(ck)


def run_locked(ck: Check):
    ck.rule = ("builder histories (random call orders over arg/cwd/env/stdin_*/stdout_*/stderr_*/timeout/clone, "
               "texts with spaces, quotes, $, *, ;, newlines, empty, multi-byte, NUL, '=' in keys) validated under "
               "three limit settings each (all limits met; exactly one limit one below; each limit independently "
               "at -1/0/+1/far); plus spawn histories whose child is the harness itself reporting argv/env/cwd/"
               "stdin/stdio, the calls laid out in the script straight-line, inside a jasi loop over arrays of the texts, "
               "in a function mutating the captured command, or on a command kept in an array element and passed "
               "through a function. Non-trivial = a history in which a key is written twice, a validate is refused, or a "
               "run/spawn request is answered; distinct by request text")
    os.makedirs(WORKDIR, exist_ok=True)
    ck.build_harness()
    child_binary(ck)
    ck.gen_tables()
    ck.lean_obligations(PROPS)
    ck.build_driver(["Proc"])
    ck.assumptions.append("std::process::Command passes argv/env/cwd/stdio to the child without interpretation "
                          "(trusted std/OS; observed on every spawned sample by the echo child)")
    # corpus first
    creqs = corpus_requests(ck)
    if creqs:
        res = corr(ck, creqs, "proc-corpus")
        classify(ck, creqs, res)
    if ck.tier == "quick":
        n, spawn, big = 6000, 150, 0
    else:
        n, spawn, big = 400000, 8000, 1
    reqs, res = stream(ck, n, spawn, big)
    classify(ck, reqs, res)
    if ck.tier == "thorough":
        ck.leanchecker(PROPS)
        exhaustive(ck)
        for shift in (11, 12, 13):
            r2, s2 = stream(ck, 20000, 300, 1, seed_shift=shift, label=f"proc-seed+{shift}")
            classify(ck, r2, s2)
    if ck.is_broken():
        search(ck)
    return ck.finish()


def histories(reqs, answers):
    hist, ans = [], []
    for i, r in enumerate(reqs):
        if r.split(" ", 1)[0] in STARTS and hist:
            yield hist, ans
            hist, ans = [], []
        hist.append(r)
        ans.append(answers[i] if i < len(answers) else "?")
    if hist:
        yield hist, ans


def classify(ck, reqs, res):
    impl = res["impl_lines"]
    for hist, ans in histories(reqs, impl):
        if not hist[0].startswith("new"):
            continue
        ck.count("histories")
        keys = [r.split()[1] for r in hist if r.startswith("env ")]
        dup = len(keys) != len(set(keys))
        refused = False
        ran = False
        for r, a in zip(hist, ans):
            w = r.split()[0]
            if w == "validate":
                ck.count("validate_ok" if a.startswith("ok ") else "validate_" + a.replace(" ", ":"))
                refused |= a.startswith("err")
            elif w in ("run", "spawn"):
                ran = True
                kind = a.split(" ", 1)[0]
                if w == "run":
                    ck.count("script_layout_" + (r.split()[2] if len(r.split()) > 2 else "flat"))
                ck.count(f"{'run' if w == 'run' else 'api'}_{kind}" + ("_" + a.split()[1] if kind == "invalid" else ""))
                if kind == "spawned":
                    ck.count("children_observed")
                elif a.endswith("spawn=0"):
                    ck.count("refusals_with_no_child")
        if dup:
            ck.count("histories_with_key_overwrite")
        if dup or refused or ran:
            ck.nontrivial_case("\n".join(hist))
        if ran and len(ck.samples) < 3 and len(hist) < 16:
            ck.samples.append({"requests": list(hist), "impl_answers": list(ans)})
        elif refused and dup and len(ck.samples) < 6 and len(hist) < 14:
            ck.samples.append({"requests": list(hist), "impl_answers": list(ans)})
    m = re.search(r"spawned=(\d+)", " ".join(res["stderr"][-2:]))
    if m:
        ck.extra_cov["children_spawned"] = ck.extra_cov.get("children_spawned", 0) + int(m.group(1))


def exhaustive(ck):
    """Every call sequence of length <= 4 over a small alphabet, validated under two tiny limit
    settings (validates the model tie; not the proof)."""
    alpha = ["arg 61", "arg -", "env 4b 31", "env 4b 3232", "env 4a 33", "cwd 2f", "stdin_text 7878",
             "stdin_null", "timeout 1", "clone"]
    reqs = []
    count = 0

    def rec(prefix, depth):
        nonlocal count
        count += 1
        reqs.append("new 70")
        reqs.extend(prefix)
        reqs.append("show")
        reqs.append("caps 1 1 2 1 1 1 1 1 3 2 16 1 1 10")
        reqs.append("validate")
        reqs.append("caps 1 1 1 1 2 2 1 2 2 1 16 2 1 10")
        reqs.append("validate")
        if depth:
            for op in alpha:
                rec(prefix + [op], depth - 1)

    rec([], 4)
    res = corr(ck, reqs, "proc-exhaustive-len4")
    ck.extra_cov["exhaustive_histories_len4_10ops"] = count
    classify(ck, reqs, res)


def fails_oracle(ck, hist):
    inp = ("\n".join(hist) + "\n").encode()
    p = sh([ck.nvh(), "proc"] + list(run_args()), inp=inp)
    return b"ORACLE-FAIL" in p.stderr


def shrink(ck, hist, budget_s=90):
    """Greedy line removal (the `new` line, the three child-protocol arguments of a spawn history and
    the last request are kept); a candidate is kept if the oracle still fails. Earlier run/spawn
    requests are dropped first (each costs a child run, or a whole timeout when children hang); the
    whole thing is cut off after `budget_s` seconds."""
    import time
    t0 = time.time()
    best = [r for r in hist[:-1] if r.split(" ", 1)[0] not in ("run", "spawn", "show", "validate")] + [hist[-1]]
    if not fails_oracle(ck, best):
        best = list(hist)
    keep_head = 1
    child_args = ["arg " + hexs("proc"), "arg " + hexs("child")]
    for at in (1, 2):
        if len(best) > at + 3 and best[at:at + 2] == child_args:
            keep_head = at + 3
    changed = True
    while changed and time.time() - t0 < budget_s:
        changed = False
        for i in range(len(best) - 2, keep_head - 1, -1):
            if time.time() - t0 >= budget_s:
                break
            if best[i].startswith("caps "):
                continue
            cand = best[:i] + best[i + 1:]
            if fails_oracle(ck, cand):
                best = cand
                changed = True
    return best


def involves_child(hist):
    return any(r.split(" ", 1)[0] in ("run", "spawn") for r in hist)


def reproduces(ck, hist, times=3):
    """A failure that involves a real child process (OS, scheduling, the file system) is reported only
    if it shows on three consecutive re-runs (DESIGN.md 3.5a); builder/validate failures are
    deterministic and taken at face value. Only the last request of the history is re-run as a
    run/spawn request (earlier ones are dropped: each may cost a timeout)."""
    if not involves_child(hist):
        return True
    hist = [r for r in hist[:-1] if r.split(" ", 1)[0] not in ("run", "spawn")] + [hist[-1]]
    inp = ("\n".join(hist) + "\n").encode()
    for _ in range(times):
        impl = sh([ck.nvh(), "proc"] + list(run_args()), inp=inp)
        mod = sh([DRIVER, "proc"], inp=inp)
        if b"ORACLE-FAIL" not in impl.stderr and impl.stdout == mod.stdout:
            return False
    return True


def first_reproducible(ck, items, limit=6):
    """The shortest failure that reproduces (at most `limit` candidates are tried); the number of
    candidates that did not."""
    dropped = 0
    for f in sorted(items, key=lambda x: len(x["history"]))[:limit]:
        if reproduces(ck, f["history"]):
            return f, dropped
        dropped += 1
    return None, dropped


def script_of(ck, hist):
    """The NaijaScript program the harness renders for the last `run` request of the history."""
    if not hist or not hist[-1].startswith("run"):
        return None
    p = sh([ck.nvh(), "proc", "render"], inp=("\n".join(hist) + "\n").encode())
    return p.stdout.decode(errors="replace") if p.returncode == 0 else None


def search(ck):
    """Something no longer checks: look for a concrete history on which the property itself fails on
    the implementation (shadow of the requests vs builder state / accepted spec / child's report;
    limits as a plain conjunction; refused => no child)."""
    found, dropped = first_reproducible(ck, ck.oracle_fails)
    dis, dropped2 = (None, 0)
    if found is None:
        dis, dropped2 = first_reproducible(ck, ck.disagreements)
    if dropped + dropped2:
        ck.notes.append(f"{dropped + dropped2} failure(s) of histories that spawn a child did not reproduce on 3 "
                        "consecutive re-runs (environment: e.g. the binary being rebuilt) and were dropped")
        ck.count("transient_failures_dropped", dropped + dropped2)
    if found is None and dis is None and not ck.broken:
        # nothing reproducible: the failures seen were transient
        ck.oracle_fails, ck.disagreements = [], []
        return
    if found is None:
        budget, spawns = (20000, 200) if ck.tier == "quick" else (200000, 2000)
        for shift in (101, 202):
            n0 = len(ck.oracle_fails)
            stream(ck, budget, spawns, 0, seed_shift=shift, label=f"proc-search+{shift}")
            found, _ = first_reproducible(ck, ck.oracle_fails[n0:])
            if found:
                break
    if found:
        hist = shrink(ck, found["history"])
        rep = {"kind": "impl-vs-oracle", "family": "proc", "what": found["what"], "requests": hist,
               "replay_cmd": "./check C15 --replay <this file>",
               "broken": ck.broken[:5], "disagreements": ck.disagreements[:3]}
        script = script_of(ck, hist)
        if script:
            rep["script"] = script
            rep["script_note"] = ("the requests rendered as the NaijaScript program that was run through lexer, parser, "
                                  "resolver and Runtime::new_with_host_policy; the program (argv[0]) is the harness "
                                  "binary acting as echo child")
        ck.report_violation(rep)
    else:
        hist = dis["history"] if dis else (ck.disagreements[0]["history"] if ck.disagreements else [])
        rep = {"kind": "tie-broken", "family": "proc",
               "what": "proof obligation, generated limits table or model/implementation "
                       "correspondence no longer checks; no history violating the property was found",
               "broken": ck.broken[:10], "disagreements": ck.disagreements[:5], "requests": hist}
        script = script_of(ck, hist)
        if script:
            rep["script"] = script
        ck.report_violation(rep, no_input_found=True)


def replay(ck, data):
    import fcntl
    os.makedirs(WORKDIR, exist_ok=True)
    lock = open(os.path.join(WORKDIR, ".lock"), "w")
    fcntl.flock(lock, fcntl.LOCK_EX)
    child_binary(ck)
    reqs = data.get("requests", [])
    inp = ("\n".join(reqs) + "\n").encode()
    impl = sh([ck.nvh(), "proc"] + list(run_args()), inp=inp)
    mod = sh([DRIVER, "proc"], inp=inp)
    print("request | implementation | model")
    il, ml = impl.stdout.decode().splitlines(), mod.stdout.decode().splitlines()
    for i, r in enumerate(reqs):
        print(f"{r} | {il[i] if i < len(il) else '?'} | {ml[i] if i < len(ml) else '?'}")
    print(impl.stderr.decode())
    script = script_of(ck, reqs)
    if script:
        print("--- script of the last run request ---")
        print(script)
    return 1 if b"ORACLE-FAIL" in impl.stderr or il != ml else 0
