"""Renderer unit (family `render`): obligations, correspondence streams, oracles, search and replay.

Used by checks/c07.py (`render_obligations(ck)`, `render_streams(ck, tier)`, `render_mem_oracle(ck)`,
`render_search(ck)`, `render_replay(ck, data)`) and by the stand-alone entry point checks/crender.py
(`./check CRENDER`)."""
import binascii
import glob
import json
import os
import re

from common import DRIVER, REPO, VERIF, load_known, sh

MODULE = "NaijaVerif.Props.C07Render"

RULE = ("render: the real Diagnostics::render_ansi on (i) small texts over {a, space, tab, LF, CR, CRLF, 2/3/4-byte "
        "characters} with random safe spans for 0-5 diagnostics with 0-3 labels each (same line / other line / zero "
        "width / at a terminator / at the end), (ii) every safe span of every text of <= K atoms and every boundary "
        "position (line:col), (iii) the diagnostics the real lexer/parser/resolver report on the texts of the lex / "
        "parse / resolve generators and on mutated shipped programs, (iv) hand-picked edge texts with every span and "
        "label position, long lines and 1000+ lines, (v) a malformed stream with unsafe spans where model and "
        "implementation must panic on the same requests; non-trivial = at least one diagnostic on a non-empty text; "
        "distinct by request text")

STREAMS = [
    # label, generator kind, quick n, thorough n, extra generator args (quick), (thorough)
    ("edge", "edge", 0, 0, [], []),
    ("linecol-exhaustive", "linecol", 0, 0, ["--atoms", 4], ["--atoms", 5]),
    ("exhaustive", "exhaustive", 0, 0, ["--atoms", 3], ["--atoms", 4]),
    ("synth", "synth", 30000, 300000, [], []),
    ("real", "real", 4000, 30000, [], []),
    ("malformed", "malformed", 10000, 100000, [], []),
]

MEM_SIGNATURE = {"family": "render", "oracle": "arena-quadratic"}


def render_obligations(ck):
    """Build and audit the renderer theorem module; every theorem in it is an obligation."""
    return ck.lean_obligations([MODULE])


# ------------------------------------------------------------------------------------------ requests

def parse_request(req):
    """(src bytes, file bytes, [(sev, lo, hi, [(lo, hi), …]), …]) of a `render` request; None otherwise."""
    w = req.split()
    if len(w) != 4 or w[0] != "render":
        return None
    try:
        src = b"" if w[1] == "-" else binascii.unhexlify(w[1])
        fil = b"" if w[2] == "-" else binascii.unhexlify(w[2])
    except (binascii.Error, ValueError):
        return None
    ds = []
    if w[3] != "-":
        for d in w[3].split(";"):
            f = d.split(":", 3)
            if len(f) != 4:
                return None
            labels = []
            if f[3] != "-":
                for p in f[3].split(","):
                    a, b = p.split(":")
                    labels.append((int(a), int(b)))
            ds.append((f[0], int(f[1]), int(f[2]), labels))
    return src, fil, ds


def make_request(src, fil, ds):
    hx = lambda b: binascii.hexlify(b).decode() or "-"
    dt = ";".join(f"{s}:{lo}:{hi}:" + (",".join(f"{a}:{b}" for a, b in ls) or "-") for s, lo, hi, ls in ds) or "-"
    return f"render {hx(src)} {hx(fil)} {dt}"


def is_boundary(src, i):
    return i == 0 or i == len(src) or (i < len(src) and (src[i] & 0xC0) != 0x80)


def safe(src, lo, hi):
    return lo <= hi <= len(src) and is_boundary(src, lo) and is_boundary(src, hi)


def line_of(src, pos):
    """1-based line of byte offset pos (CRLF once, LF, lone CR) — for the distribution counters only."""
    line, i = 1, 0
    while i < min(pos, len(src)):
        c = src[i]
        if c == 10:
            line += 1
        elif c == 13:
            if i + 1 < len(src) and src[i + 1] == 10:
                if i + 2 <= pos:
                    line += 1
                i += 1
            else:
                line += 1
        i += 1
    return line


def corpus_requests():
    reqs = []
    for f in sorted(glob.glob(os.path.join(VERIF, "corpus", "render", "*.txt"))):
        for line in open(f):
            line = line.strip()
            if line and not line.startswith("#"):
                reqs.append(line)
    return reqs


def classify(ck, reqs, res):
    impl = res["impl_lines"]
    for r, a in zip(reqs, impl):
        ck.count("render_cases")
        if r.startswith("linecol "):
            ck.count("render_linecol_cases")
            ck.count("render_linecol_" + ("panic" if a == "panic" else "ok" if a.startswith("line=") else a[:12]))
            ck.nontrivial_case(r)
            continue
        p = parse_request(r)
        if p is None:
            ck.count("render_unparsed_requests")
            continue
        src, _fil, ds = p
        ck.count("render_answer_" + ("panic" if a == "out=panic" else "out" if a.startswith("out=") else a[:12]))
        all_safe = all(safe(src, lo, hi) and all(safe(src, x, y) for x, y in ls) for _, lo, hi, ls in ds)
        ck.count("render_cases_all_spans_safe" if all_safe else "render_cases_with_unsafe_span")
        if not all_safe and a.startswith("out=") and a != "out=panic":
            ck.count("render_unsafe_span_but_no_panic")
        if any(b >= 0x80 for b in src):
            ck.count("render_cases_non_ascii")
        if b"\r\n" in src:
            ck.count("render_cases_with_CRLF")
        if b"\r" in src.replace(b"\r\n", b""):
            ck.count("render_cases_with_lone_CR")
        if b"\t" in src:
            ck.count("render_cases_with_tab")
        ck.count(f"render_diags_{min(len(ds), 4)}{'+' if len(ds) >= 4 else ''}")
        for sev, lo, hi, ls in ds:
            ck.count("render_sev_" + sev)
            if lo == hi:
                ck.count("render_zero_width_spans")
            if lo == len(src):
                ck.count("render_span_at_end_of_text")
            if lo < len(src) and src[lo] in (10, 13):
                ck.count("render_span_starts_at_line_terminator")
            if lo > 0 and lo < len(src) and src[lo - 1] == 13 and src[lo] == 10:
                ck.count("render_span_starts_between_CR_and_LF")
            if all_safe and line_of(src, hi) != line_of(src, lo):
                ck.count("render_span_over_several_lines")
            ck.count(f"render_labels_{min(len(ls), 3)}")
            if all_safe:
                for x, _y in ls:
                    ck.count("render_label_same_line" if line_of(src, x) == line_of(src, lo) else "render_label_cross_line")
        if ds and src:
            ck.nontrivial_case(r)
            if len(ck.samples) < 3 and all_safe and 8 < len(src) < 60 and ds[0][3]:
                ck.samples.append({"text": src.decode("utf-8", "replace"), "diagnostics": r.split()[3],
                                   "impl": a[:160] + ("…" if len(a) > 160 else "")})


def render_streams(ck, tier, only=None):
    """Corpus first, then the generated streams; model and implementation are diffed line by line, the
    implementation-level oracle (no panic on safe spans, line:col against an independent computation, valid
    UTF-8 output) is collected from the harness' stderr. `only`: restrict to these stream labels."""
    out = {}
    corpus = corpus_requests()
    if corpus and only is None:
        res = ck.corr("render", corpus, label="render-corpus")
        classify(ck, corpus, res)
        out["corpus"] = (corpus, res)
    for label, kind, nq, nt, xq, xt in STREAMS:
        if only is not None and label not in only:
            continue
        n = nq if tier == "quick" else nt
        extra = xq if tier == "quick" else xt
        reqs = ck.gen("render", ["--kind", kind, "--n", n, "--repo", REPO] + extra)
        res = ck.corr("render", reqs, label="render-" + label)
        classify(ck, reqs, res)
        out[label] = (reqs, res)
    return out


# ------------------------------------------------------------------------------------- memory oracle

def mem_finding_listed():
    """Is D-07r (arena consumption of render_ansi quadratic in the number of diagnostics) listed in
    known_findings.jsonl — open (reported as KNOWN-FINDING) or fixed (armed, a recurrence is a VIOLATION)?"""
    return any(k.get("signature") == MEM_SIGNATURE for k in load_known())


def memprobe(ck, diags, cap=256):
    p = sh([ck.nvh(), "render", "memprobe", "--diags", str(diags), "--cap", str(cap)], timeout=600)
    m = re.search(r"diags=(\d+) src=(\d+) out=(\d+) arena_used=(\d+)", p.stdout.decode(errors="replace"))
    if p.returncode != 0 or not m:
        return {"diags": diags, "rc": p.returncode, "aborted": True,
                "stderr": p.stderr.decode(errors="replace").splitlines()[:1]}
    d, s, o, u = map(int, m.groups())
    return {"diags": d, "src": s, "out": o, "arena_used": u, "aborted": False}


def render_mem_oracle(ck):
    """Implementation-level oracle that needs no model: one `render_ansi` call for D one-character lexical
    errors on D lines (`"@\\n" * D`) must (a) consume arena memory proportional to what it reads and writes —
    `arena_used <= 32 * (|src| + |out|) + 2 MiB` at D = 1000 — and (b) succeed for D = 3000 (a 6000-byte file)
    in an arena of the CLI's capacity (256 MiB). Returns None when it holds, else reports the failure with the
    signature MEM_SIGNATURE (KNOWN-FINDING when listed as open, VIOLATION otherwise)."""
    small = memprobe(ck, 1000)
    ck.count("render_mem_probes")
    bad = None
    if small.get("aborted"):
        bad = small
    else:
        bound = 32 * (small["src"] + small["out"]) + (2 << 20)
        ck.extra_cov["render_mem_probe"] = dict(small, bound=bound)
        if small["arena_used"] > bound:
            bad = dict(small, bound=bound)
    big = None
    if bad is None:
        big = memprobe(ck, 3000)
        ck.count("render_mem_probes")
        if big.get("aborted"):
            bad = big
    if bad is None:
        return None
    ck.oracle_fails.append({"family": "render", "line": 0, "request": f"memprobe --diags {bad['diags']}",
                            "what": "arena consumption of render_ansi: " + json.dumps(bad), "history": []})
    ck.report_violation({
        "kind": "impl-vs-oracle", "family": "render", "oracle": "arena-quadratic", "signature": MEM_SIGNATURE,
        "what": ("render_ansi allocates a Vec<usize> of capacity |src| in the bump arena on every line_col_from_span call "
                 "(>= 2 per diagnostic, + 3 per label) and never releases it: arena use grows with diagnostics x text "
                 "length; a 6000-byte file of 3000 stray characters exhausts the CLI's 256 MiB arena and aborts "
                 "(SIGABRT, no diagnostic printed)"),
        "probe": bad,
        "text": "'@\\n' * " + str(bad["diags"]),
        "replay_cmd": f"{ck.nvh()} render memprobe --diags {bad['diags']}    # or: naija <file of 3000 lines '@'>",
        "requests": [],
    })
    return bad


# ------------------------------------------------------------------------------------------ search

def fail_class(what):
    for key, cls in [("panicked", "panic-on-safe-spans"), ("independent computation", "line-col-wrong"),
                     ("location lines for", "location-lines-missing"), ("not valid UTF-8", "output-not-utf8"),
                     ("no location line", "location-lines-missing"), ("arena consumption", "arena-quadratic")]:
        if key in what:
            return cls
    return "other"


def run_impl(ck, reqs, timeout=900):
    p = sh([ck.nvh(), "render", "run"], inp=("\n".join(reqs) + "\n").encode(), timeout=timeout)
    fails = {}
    for l in p.stderr.decode(errors="replace").splitlines():
        m = re.match(r"ORACLE-FAIL (\d+) (.*)", l)
        if m:
            fails[int(m.group(1)) - 1] = m.group(2)
    return p.stdout.decode(errors="replace").splitlines(), fails


def run_model(reqs, timeout=900):
    p = sh([DRIVER, "render"], inp=("\n".join(reqs) + "\n").encode(), timeout=timeout)
    return p.stdout.decode(errors="replace").splitlines()


def shrink(ck, req, still_fails, budget=300):
    """Shrink a `render` request: fewer diagnostics, fewer labels, then cut the text behind the last span end
    and in front of the first span start (spans shifted), on character boundaries."""
    p = parse_request(req)
    if p is None:
        return req
    src, fil, ds = p
    tries = 0

    def ok(s, d):
        nonlocal tries
        tries += 1
        return tries <= budget and still_fails(make_request(s, fil, d))

    # one diagnostic
    for d in ds:
        if len(ds) > 1 and ok(src, [d]):
            ds = [d]
            break
    # fewer labels
    changed = True
    while changed:
        changed = False
        for i, (s, lo, hi, ls) in enumerate(ds):
            for j in range(len(ls)):
                cand = ds[:i] + [(s, lo, hi, ls[:j] + ls[j + 1:])] + ds[i + 1:]
                if ok(src, cand):
                    ds, changed = cand, True
                    break
            if changed:
                break
    pts = [x for _, lo, hi, ls in ds for x in [lo, hi] + [y for ab in ls for y in ab]]
    if pts and max(pts) <= len(src):
        # cut the tail
        end = len(src)
        for cut in range(max(pts), len(src)):
            if is_boundary(src, cut) and ok(src[:cut], ds):
                end = cut
                break
        src = src[:end]
        # cut the head
        for k in range(min(pts), 0, -1):
            if is_boundary(src, k):
                cand = [(s, lo - k, hi - k, [(a - k, b - k) for a, b in ls]) for s, lo, hi, ls in ds]
                if ok(src[k:], cand):
                    src, ds = src[k:], cand
                    break
    return make_request(src, fil, ds)


def describe(req):
    w = req.split()
    if len(w) == 3 and w[0] == "linecol":
        try:
            t = b"" if w[1] == "-" else binascii.unhexlify(w[1])
            return f"text={t.decode('utf-8', 'replace')!r} one zero-width error diagnostic at byte {w[2]}"
        except (binascii.Error, ValueError):
            return req[:200]
    p = parse_request(req)
    if p is None:
        return req[:200]
    src, _fil, ds = p
    s = src.decode("utf-8", "replace")
    if len(s) > 200:
        s = s[:100] + f" … ({len(src)} bytes) … " + s[-40:]
    return f"text={s!r} diagnostics={req.split()[3][:200]}"


def render_search(ck, pid_note=""):
    """Something is broken (an obligation, an extracted constant, the model/implementation tie, or the oracle).
    Find a concrete text + safe diagnostics on which the *property* fails on the implementation (render_ansi
    panics, or its line:col is wrong): first the oracle failures already seen, then a larger generated budget;
    shrink; report. Without such an input, report the broken theorem / stream."""
    def found_now():
        return [f for f in ck.oracle_fails if f["family"] == "render" and fail_class(f["what"]) != "arena-quadratic"]

    found = found_now()
    if not found:
        budget = 40000 if ck.tier == "quick" else 400000
        for shift, kind, extra in ((101, "synth", []), (202, "exhaustive", ["--atoms", 4]), (303, "real", [])):
            ck.seed += shift
            n = budget if kind == "synth" else budget // 10
            reqs = ck.gen("render", ["--kind", kind, "--n", n, "--repo", REPO] + extra)
            ck.seed -= shift
            ck.corr("render", reqs, label=f"render-search-{kind}")
            found = found_now()
            if found:
                break
    if found:
        by_cls = {}
        for f in found:
            cls = fail_class(f["what"])
            if cls not in by_cls or len(f["request"]) < len(by_cls[cls]["request"]):
                by_cls[cls] = f
        for cls, f in sorted(by_cls.items()):
            def still(r, cls=cls):
                _, fl = run_impl(ck, [r])
                return 0 in fl and fail_class(fl[0]) == cls
            req = shrink(ck, f["request"], still) if f["request"].startswith("render ") else f["request"]
            impl, fails = run_impl(ck, [req])
            model = run_model([req]) if os.path.exists(DRIVER) else []
            ck.report_violation({
                "kind": "impl-vs-oracle", "family": "render", "oracle": cls,
                "signature": {"family": "render", "oracle": cls},
                "what": fails.get(0, f["what"]),
                "text": describe(req),
                "requests": [req],
                "implementation": [x[:400] for x in impl[:1]], "model": [x[:400] for x in model[:1]],
                "replay_cmd": f"./check {ck.pid} --replay <this file>",
                "broken": ck.broken[:5], "note": pid_note,
            })
        return True
    ck.report_violation({
        "kind": "tie-broken", "family": "render",
        "what": "a renderer proof obligation, an extracted constant or the model/implementation correspondence no "
                "longer checks; no text + safe diagnostics on which render_ansi fails was found",
        "broken": ck.broken[:10],
        "disagreements": [{k: (v[:400] if isinstance(v, str) else v) for k, v in d.items() if k != "history"}
                          for d in ck.disagreements[:5]],
        "requests": [d["request"] for d in ck.disagreements[:5]],
        "texts": [describe(d["request"]) for d in ck.disagreements[:5]],
        "note": pid_note,
    }, no_input_found=True)
    return False


def render_replay(ck, data):
    reqs = data.get("requests", [])
    if not reqs:
        if data.get("oracle") == "arena-quadratic":
            r = memprobe(ck, data.get("probe", {}).get("diags", 3000))
            print("memprobe      :", json.dumps(r))
            bad = r.get("aborted") or r["arena_used"] > 32 * (r["src"] + r["out"]) + (2 << 20)
            print("oracle        :", "arena consumption not proportional to input + output" if bad else "ok")
            return 1 if bad else 0
        print("nothing to replay (no request recorded):", data.get("what"))
        return 1
    impl, fails = run_impl(ck, reqs)
    model = run_model(reqs) if os.path.exists(DRIVER) else []
    rc = 0
    for i, r in enumerate(reqs):
        print("case          :", describe(r))
        print("implementation:", (impl[i] if i < len(impl) else "?")[:400])
        print("model         :", (model[i] if i < len(model) else "?")[:400])
        print("oracle        :", fails.get(i, "ok"))
        if i in fails or (i < len(impl) and i < len(model) and impl[i] != model[i]):
            rc = 1
    return rc
