"""C14 — the shipped pipeline (CLI / playground on two shared global scratch arenas) matches the library
pipeline on separate arenas; runs in one process do not influence each other.  (partial)"""
import glob
import os
import re

from common import Check, VERIF, TMP, DRIVER, sh

STARTS = ("H", "cli", "seq", "proto", "exit")
MOD = "NaijaVerif.Props.C14"


def nvh_args(ck, naija):
    tmp = os.path.join(TMP, f"c14_{os.getpid()}")
    return ("run", "--naija", naija, "--tmp", tmp)


def stream(ck, naija, n, seqs, hists, seed_shift=0, label=None, extra=()):
    ck.seed += seed_shift
    reqs = ck.gen("cli", ["--n", n, "--seqs", seqs, "--hists", hists] + list(extra))
    ck.seed -= seed_shift
    res = ck.corr("cli", reqs, starts=STARTS, nvh_args=nvh_args(ck, naija), label=label)
    classify(ck, reqs, res)
    return reqs, res


def corpus_lines():
    lines = []
    for f in sorted(glob.glob(os.path.join(VERIF, "corpus", "C14", "*.txt"))):
        lines += [l.rstrip("\n") for l in open(f) if l.strip() and not l.startswith("#")]
    return lines


def run(ck: Check):
    ck.rule = ("cli: one program through the real `naija` binary as a file, through --eval, through stdin in one write and "
               "through stdin in 2-4 drain-paced writes (cuts between statements, inside tokens and multi-byte characters, "
               "at the 8 KiB read chunk and its multiples; scripts of exactly 8192/16384 bytes and larger; programs past an "
               "analysis cap whose result depends on lexical binding), compared byte for byte "
               "(stdout, exit status, empty stderr) with the library pipeline on three fresh separate arenas; seq: a "
               "sequence of 2-7 programs run twice through the in-process replica of the playground entry point, each "
               "result compared with the same program alone in a fresh process; histories: op sequences on the real "
               "S_SCRATCH against the Lean model.  non-trivial = a cli case whose program prints or reports something, "
               "a sequence that contains both a passing and a failing program, a history with a stacked borrow that is "
               "allocated through, reset and released; distinct by request text")
    ck.assumptions += [
        "partial: in the model the interpreter does not read addresses; 'prints the same as the library pipeline' is "
        "established by the differential tie only (sampling)",
        "process-global state other than the two scratch arenas is excluded by a source scan (static, static mut, "
        "thread_local!, OnceLock/LazyLock/OnceCell, lazy_static!, Box::leak) compared with Model/Protocol.lean: accountedGlobals",
        "Rust's scope rule (bindings dropped innermost scope first, newest first) is built into `paths`; the extractor "
        "rejects any statement of the entry points that mentions a scratch guard in a form it does not know",
        "the playground is exercised through a native in-process replica (harness/src/cli.rs::playground_run_source; "
        "ANSI text instead of ansi_to_html), not through a wasm build",
    ]
    ck.build_harness()
    naija = ck.build_cli()
    ck.gen_tables()
    ck.lean_obligations([MOD])
    ck.build_driver(["Cli"])
    quick = ck.tier == "quick"
    corp = corpus_lines()
    if corp:
        res = ck.corr("cli", corp, starts=STARTS, nvh_args=nvh_args(ck, naija), label="cli-corpus")
        classify(ck, corp, res)
    if quick:
        stream(ck, naija, 300, 100, 600, extra=["--big", 12, "--over", 9])
    else:
        stream(ck, naija, 400, 300, 5000, extra=["--big", 36, "--over", 30])
        for shift in range(1, 9):
            stream(ck, naija, 300, 150, 3000, seed_shift=1000 * shift, label=f"cli-seed+{1000 * shift}", extra=["--no-files", "--big", 18, "--over", 12])
        ck.leanchecker([MOD])
    if ck.is_broken():
        search(ck, naija)
    return ck.finish()


def classify(ck, reqs, res):
    impl = res["impl_lines"]
    for l in res["stderr"]:
        if l.startswith("STAT "):
            for kv in l.split()[1:]:
                k, v = kv.split("=")
                ck.count(k, int(v))
    hist = []

    def close():
        if not hist:
            return
        ck.count("histories")
        ops = [h[0].split()[0] for h in hist]
        answers = [h[1] for h in hist]
        borrows = [h for h in hist if h[0].startswith("b ") and h[1].startswith("ix=")]
        stacked = len([b for b in borrows if not b[1].endswith("saved=0")]) > 0 or len(borrows) >= 3
        if "panic" in answers:
            ck.count("histories_with_stale_use")
        if "abort" in answers:
            ck.count("histories_with_out_of_order_drop")
        if any(o == "r" and a.startswith("off=") for o, a in zip(ops, answers)):
            ck.count("histories_with_reset")
        if "i" in ops[1:]:
            ck.count("histories_with_reinit")
        if stacked and "a" in ops and "d" in ops and any(o == "r" and a.startswith("off=") for o, a in zip(ops, answers)):
            ck.nontrivial_case("\n".join(h[0] for h in hist))
            if len([s for s in ck.samples if isinstance(s, dict) and s.get("kind") == "history"]) < 2 and len(hist) < 30:
                ck.samples.append({"kind": "history", "requests": [h[0] for h in hist], "impl_answers": answers})

    for i, r in enumerate(reqs):
        a = impl[i] if i < len(impl) else "?"
        w = r.split(" ", 1)[0]
        if w in ("cli", "seq", "proto", "exit"):
            close()
            hist = []
            if w == "cli":
                parts = r.split()
                ck.count("cli_requests")
                if parts[2:5] != ["0", "0", "0"] or len(parts[5]) > 20:
                    ck.nontrivial_case(r)
                if "@" in parts[1]:
                    ck.count("cli_stdin_chunked_requests")
                    if len(parts[5]) > 2 * 8192:
                        ck.count("cli_stdin_chunked_over_8k")
                if len([s for s in ck.samples if isinstance(s, dict) and s.get("kind") == "cli"]) < 3 and parts[2:5] != ["0", "0", "0"]:
                    ck.samples.append({"kind": "cli", "mode": parts[1], "facts(parse,resolveErr,runErr)": parts[2:5],
                                       "source": unhex(parts[5])[:400], "impl_answer": a})
            elif w == "seq":
                ck.count("seq_requests")
                ck.count("seq_runs", int(a.split()[0][2:]) if a.startswith("n=") else 0)
                ck.nontrivial_case(r)
                if len([s for s in ck.samples if isinstance(s, dict) and s.get("kind") == "seq"]) < 2:
                    ck.samples.append({"kind": "seq", "programs": [unhex(h)[:120] for h in r.split()[1].split("|")],
                                       "impl_answer": a})
            continue
        if w == "H":
            close()
            hist = []
        hist.append((r, a))
    close()


def unhex(h):
    if h == "-":
        return ""
    try:
        return bytes.fromhex(h).decode(errors="replace")
    except ValueError:
        return "<bad hex>"


def hexs(s):
    b = s.encode()
    return b.hex() if b else "-"


# ----------------------------------------------------------------------------------------- search
def oracle_fails_on(ck, naija, line):
    p = sh([ck.nvh(), "cli"] + list(nvh_args(ck, naija)), inp=(line + "\n").encode(), timeout=600)
    return b"ORACLE-FAIL" in p.stderr, p


def facts_of(ck, src):
    p = sh([ck.nvh(), "cli", "expect", "eval", "-"], inp=hexs(src).encode(), timeout=120)
    out = p.stdout.decode(errors="replace")
    m = re.search(r"facts=(\d+) (\d+) (\d+)", out)
    return " ".join(m.groups()) if m else "x x x"


def shrink_cli(ck, naija, line):
    """Delete blocks of source lines (halves, quarters, … single lines) while the oracle still fails on
    the single request; bounded number of attempts (large over-limit programs stay large: their size is
    what makes them fail)."""
    parts = line.split()
    mode, src = parts[1], unhex(parts[5])
    lines = src.split("\n")
    budget = 70
    size = max(1, len(lines) // 2)
    while size >= 1 and budget > 0:
        i = 0
        progressed = False
        while i < len(lines) and budget > 0:
            cand = lines[:i] + lines[i + size:]
            if not cand:
                i += size
                continue
            csrc = "\n".join(cand)
            budget -= 1
            req = f"cli {mode} {facts_of(ck, csrc)} {hexs(csrc)}"
            bad, _ = oracle_fails_on(ck, naija, req)
            if bad:
                lines, line, progressed = cand, req, True
            else:
                i += size
        if size == 1 and not progressed:
            break
        size = size // 2 if size > 1 else (1 if progressed else 0)
    return line


def shrink_seq(ck, naija, line):
    progs = line.split()[1].split("|")
    changed = True
    while changed and len(progs) > 1:
        changed = False
        for i in range(len(progs)):
            cand = progs[:i] + progs[i + 1:]
            req = "seq " + "|".join(cand)
            bad, _ = oracle_fails_on(ck, naija, req)
            if bad:
                progs = cand
                line = req
                changed = True
                break
    return line


def search(ck, naija):
    """Something no longer checks.  Look for a concrete program (or sequence) on which the property itself
    fails on the implementation: CLI output/exit status differs from the library pipeline, or a program
    in a sequence differs from the same program alone."""
    found = [f for f in ck.oracle_fails if f["request"].startswith(("cli ", "seq "))]
    if not found:
        budget = (600, 300) if ck.tier == "quick" else (3000, 1500)
        for shift in (101, 202):
            before = len(ck.oracle_fails)
            stream(ck, naija, budget[0], budget[1], 0, seed_shift=shift, label=f"cli-search+{shift}", extra=["--no-files"] if shift == 202 else [])
            found = [f for f in ck.oracle_fails[before:] if f["request"].startswith(("cli ", "seq "))]
            if found:
                break
    if found:
        f = min(found, key=lambda x: len(x["request"]))
        req = f["request"]
        try:
            req = shrink_cli(ck, naija, req) if req.startswith("cli ") else shrink_seq(ck, naija, req)
        except Exception:  # noqa: BLE001 - shrinking is best effort
            pass
        _, p = oracle_fails_on(ck, naija, req)
        what = [l for l in p.stderr.decode(errors="replace").splitlines() if l.startswith("ORACLE-FAIL")]
        replay = {"kind": "impl-vs-oracle", "family": "cli", "what": (what[0] if what else f["what"])[:3000],
                  "requests": [req],
                  "programs": ([unhex(req.split()[5])] if req.startswith("cli ") else [unhex(h) for h in req.split()[1].split("|")]),
                  "replay_cmd": "./check C14 --replay <this file>",
                  "broken": ck.broken[:5], "disagreements": ck.disagreements[:3]}
        ck.report_violation(replay)
    else:
        ck.report_violation({"kind": "tie-broken", "family": "cli",
                             "what": "a proof obligation, the extraction of the wiring / exit ladder / global items, or the "
                                     "model-implementation correspondence no longer checks; no program or sequence on which "
                                     "CLI and library (or sequence and alone) differ was found",
                             "broken": ck.broken[:10], "disagreements": ck.disagreements[:5],
                             "requests": (ck.disagreements[0]["history"] if ck.disagreements else [])},
                            no_input_found=True)


def replay(ck, data):
    naija = ck.build_cli()
    reqs = data.get("requests", [])
    if not reqs:
        print("nothing to replay (no-failing-input-found): broken =", data.get("broken"))
        return 1
    inp = ("\n".join(reqs) + "\n").encode()
    impl = sh([ck.nvh(), "cli"] + list(nvh_args(ck, naija)), inp=inp)
    mod = sh([DRIVER, "cli"], inp=inp)
    il, ml = impl.stdout.decode().splitlines(), mod.stdout.decode().splitlines()
    print("request | implementation | model")
    for i, r in enumerate(reqs):
        print(f"{r[:100]} | {il[i] if i < len(il) else '?'} | {ml[i] if i < len(ml) else '?'}")
        if r.startswith("cli "):
            parts = r.split()
            print("--- source ---")
            print(unhex(parts[5]))
            e = sh([ck.nvh(), "cli", "expect", "stdin" if parts[1].startswith("stdin") else "eval", "-"],
                   inp=parts[5].encode()).stdout.decode()
            m = re.search(r"stdout=(\S+)", e)
            print("--- library pipeline expects (file name shown as <eval> for file mode) ---")
            print(e.split(" stdout=")[0])
            print(unhex(m.group(1)) if m else e)
    err = impl.stderr.decode(errors="replace")
    print("\n".join(l[:3000] for l in err.splitlines() if not l.startswith("STAT")))
    return 1 if "ORACLE-FAIL" in err or il != ml else 0
