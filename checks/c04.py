"""C04 — names resolve lexically; functions are visible throughout their block.

Proof: Props/C04Static.lean (for every program the resolver model binds every variable occurrence —
expression, assignment target, {name} segment — to the nearest enclosing declaration in program text;
hoisted function visibility) and Props/C04.lean when present (dynamic half: on every reachable
evaluator state the whole-stack search by id finds the lexically visible instance, so the run with the
code's dynamic lookup equals the run with lexical lookup). Tie: `resolve` stream (bindings and facts of the
real resolver vs the model), `run` stream with a scoping bias (real Runtime vs evaluator model), and the
LEXICAL-mode reference: the same requests answered by the model in `lookup=lexical` mode — a program on
which the real runtime differs from the lexical reference is a failing input. Implementation-level oracle
(no model): every binding annotation points to a local of that name; bound callees have that name/arity.
The decidable hypothesis of the dynamic theorem (`Eval.WellScoped`, driver request `ws`) is evaluated on the
real resolver's annotated AST of every accepted program of the run stream; a program outside it is reported.
When only the static TIE is broken (resolver model and real resolver disagree, no program violating the static
rules found), the dynamic half is run all the same: it is the search for a concrete program on which the property
itself fails (its scoping stream holds the shapes that need a binding to go wrong at run time: one string with the
same placeholder several times read in a function called under a same-named variable, same-named functions ...).
Both models follow the REAL resolver's binding annotations, so a binding the resolver gets wrong is invisible to the run
correspondence: `templates` adds implementation-level oracles for it (same-block re-declaration at another type)."""
import os

import resolvelib
import runlib
from common import Check, DRIVER, LEAN, sh

# corpus/run plus the hand-written C04 programs (repeated placeholders under same-named variables) and the C06 ones
# (hoisted functions defined in dead code: visible throughout their block all the same)
CORPUS_DIRS = ("C04", "C06")
STATIC = "NaijaVerif.Props.C04Static"
DYNAMIC = "NaijaVerif.Props.C04"


def modules():
    mods = [STATIC]
    if os.path.exists(os.path.join(LEAN, "NaijaVerif", "Props", "C04.lean")):
        mods.append(DYNAMIC)
    if os.path.exists(os.path.join(LEAN, "NaijaVerif", "Props", "C04Bridge.lean")):
        mods.append("NaijaVerif.Props.C04Bridge")
    return mods


def lexical(req):
    """The same request answered in lexical lookup mode by the model."""
    head, sep, ast = req.partition(" ast=")
    return head + " lookup=lexical" + sep + ast if sep else req


def model_lines(reqs):
    p = sh([DRIVER, "run"], inp=("\n".join(reqs) + "\n").encode(), timeout=3600)
    return p.stdout.decode(errors="replace").splitlines()


def is_d04(src):
    """Structural tag of the listed finding: a function called (directly or through a recursive activation)
    before the `make` of a variable it captures has run in the activation it belongs to."""
    return True  # refined by the signature below: the outcome pair decides


def run(ck: Check):
    ck.rule = ("well-formed programs with heavy name reuse, shadowing, same-block re-declaration, nested / recursive / "
               "forward-referenced functions capturing and assigning outer variables, parameters shadowed by locals, "
               "interpolation placeholders (resolver stream); generated programs with a scoping bias and the corpus "
               "(run stream, dynamic and lexical mode); non-trivial = accepted program with a call and a captured or "
               "shadowed name; distinct by program text")
    ck.build_harness()
    ck.gen_tables()
    mods = modules()
    if DYNAMIC not in mods:
        ck.notes.append("dynamic half (Props/C04.lean) not present in this tree")
    ck.lean_obligations(mods)
    ck.build_driver(["Resolve", "Run"])
    quick = ck.tier == "quick"
    # --- static: bindings
    out = resolvelib.resolve_streams(ck, ck.tier, sizes={"valid": 1500, "viol": 300, "mixed": 300} if quick else None)
    binding_fails = [f for f in out["failures"] if f["kind"] == "impl-vs-oracle"]
    # verdicts about C09's rules are not C04's subject
    ck.oracle_fails[:] = [f for f in ck.oracle_fails if f.get("family") != "resolve" or "annotation" in f.get("what", "")
                          or "callee" in f.get("what", "") or "binding" in f.get("what", "")]
    if binding_fails and ck.oracle_fails:
        f = binding_fails[0]
        ck.report_violation({"kind": "impl-vs-oracle", "family": "resolve", "what": f["what"][:500],
                             "requests": [f["request"]], "program": resolvelib.src_of(f["request"])})
        return ck.finish()
    static_broken = any(d["family"] == "resolve" for d in ck.disagreements) or bool(ck.broken)
    if static_broken and out["failures"]:
        # a program on which a static rule / oracle fails on the implementation: shrink and report it
        resolvelib.resolve_search(ck, out)
        return ck.finish()
    # --- dynamic: the real runtime vs the model (dynamic mode), and vs the lexical reference
    streams = dynamic_half(ck, quick)
    if static_broken:
        # only the static tie is broken: a program on which the real runtime leaves the lexical reference is the
        # failing input; without one, the larger static search and the tie-broken report as before
        if not any(not nf for (_p, nf) in ck.violations):
            resolvelib.resolve_search(ck, out)
        return ck.finish()
    if ck.tier == "thorough":
        ck.leanchecker(mods)
    if ck.is_broken() and not ck.violations:
        rep = runlib.report_disagreements(ck, "real runtime and evaluator model (dynamic mode) disagree", streams)
        if rep is not None:
            ck.report_violation(rep, no_input_found=True)
        else:
            ck.report_violation({"kind": "tie-broken", "broken": ck.broken[:10], "requests": []}, no_input_found=True)
    return ck.finish()


def lexical_case(ck, src):
    """(request, implementation answer, answer of the lexical reference) for one program text."""
    req, a, _b, _f = runlib.one_case(ck, src, guard=True)
    if not req.startswith("run ") or a == runlib.UNBOUNDED:
        return req, a, a
    ml = model_lines([lexical(req)])
    return req, a, (ml[0] if ml else "?")


def dynamic_half(ck, quick):
    """The run stream (corpus + scoping-biased programs) against the model in dynamic mode, against the lexical
    reference and against the hypothesis of the dynamic theorem; reports what differs. Returns the streams."""
    streams = runlib.run_streams(ck, ck.tier, kinds=("corpus", "main"), bias="scoping", n_main=2500 if quick else 80000,
                                 corpus_dirs=CORPUS_DIRS)
    lex_diff = []
    not_ws = []
    for kind, s in streams.items():
        reqs = [r for r in s["requests"] if r.startswith("run ")]
        impl = {r: a for r, a in zip(s["requests"], s["res"]["impl_lines"])}
        ml = model_lines([lexical(r) for r in reqs])
        ck.evaluations += len(reqs)
        # the hypothesis of `c04_dynamic` (Eval.WellScoped, decidable) evaluated on the REAL resolver's annotated AST
        # of every accepted program: an accepted program outside it is not covered by the theorem
        wl = model_lines(["ws " + r[4:] for r in reqs])
        ck.count("wellscoped_checked", len(reqs))
        not_ws += [r for r, w in zip(reqs, wl + ["?"] * (len(reqs) - len(wl))) if w != "ws=1"]
        for r, m in zip(reqs, ml):
            a = impl.get(r, "?")
            if a != m:
                lex_diff.append((r, a, m))
    ck.count("lexical_reference_cases", sum(len(s["requests"]) for s in streams.values()))
    ck.count("lexical_reference_differences", len(lex_diff))
    known = 0
    seen_small = set()
    for k, (r, a, m) in enumerate(sorted(lex_diff, key=lambda x: len(x[0]))[:10]):
        src = runlib.src_of(r)
        if k < 3 and len(src) < 6000:
            # statement-deletion shrinking of the smallest ones, keeping "accepted and differs from the reference"
            def still(s):
                q, x, y = lexical_case(ck, s)
                return q.startswith("run ") and x != y

            small = runlib.shrink_program(ck, src, still)
            q, x, y = lexical_case(ck, small)
            if q.startswith("run ") and x != y:
                src, r, a, m = small, q, x, y
        if src in seen_small:
            continue
        seen_small.add(src)
        # signature of the listed finding D-04 (recursive variant): the lexical reference reports a use before
        # declaration while the real runtime silently reads another activation's variable
        sig = None
        if "UndefinedVariable" in m and "end=ok" in a:
            sig = {"defect": "D-04", "shape": "call-before-decl", "variant": "other-activation-read"}
        rep = {"kind": "impl-vs-lexical-reference", "family": "run", "what": "the real runtime and the lexically scoped "
               "reference interpreter differ on this accepted program", "program": src, "requests": [r],
               "impl": a, "lexical_model": m}
        if sig:
            rep["signature"] = sig
        if ck.report_violation(rep) is None:
            known += 1
    ck.count("known_finding_hits", known)
    ck.count("wellscoped_failures", len(not_ws))
    templates(ck, quick, streams)
    if not_ws:
        r = min(not_ws, key=len)
        ck.report_violation({"kind": "hypothesis-not-met", "family": "run", "what": "the real resolver's annotations of "
                             "this accepted program are not WellScoped (hypothesis of Props/C04.lean c04_dynamic): the "
                             "dynamic theorem does not cover it", "program": runlib.src_of(r), "requests": [r]})
    return streams


def templates(ck, quick, streams):
    """Re-declaration templates (`nvh run gen --kind c04`): one name `make`-declared several times in ONE block at
    DIFFERENT literal types (number / string / bool / array / null, a dynamic initialiser and the same type as
    controls), capturing functions defined between the declarations (plain reads, `{x}` placeholders once and twice,
    `typeof`, `x get ..` writes, a read two functions deep) and called after the later ones; hosts: top level,
    function body, loop body, branch. Three implementation-level oracles, none of which uses the resolver model or
    the evaluator model (both follow the REAL resolver's bindings, so a wrong binding is invisible to the run
    correspondence): the output the generator computes (plain Rust: a re-declaration re-binds the same variable),
    the same program run by name (`Runtime::run` without the resolver's facts; the template's names are unique), and,
    on EVERY program of every run stream, the resolver's facts themselves (two `make`s of one name directly in one
    block bind one local). A failure is a failing input for C04: shrunk (statement deletion, the oracles still
    failing) and reported."""
    reqs = ck.gen(runlib.FAMILY, ["--kind", "c04", "--n", 1500 if quick else 20000])
    res = ck.corr(runlib.FAMILY, reqs, label="run-c04-templates", timeout=7200)
    info = runlib.classify(ck, "c04tmpl", reqs, res)
    ck.extra_cov["c04_redeclaration_template_programs"] = info["cases"]
    streams["templates"] = {"requests": reqs, "res": res, "info": info}
    fails = [f for f in ck.oracle_fails if f.get("family") == runlib.FAMILY and f.get("what", "").startswith("[C04]")]
    ck.count("c04_oracle_failures", len(fails))
    if not fails:
        return
    # behavioural failures (expected output, by-name run) before the purely static one; small programs first
    fails.sort(key=lambda f: ("scope tags" in f["what"], len(f.get("request", ""))))
    f = fails[0]
    src = runlib.src_of(f["request"])

    def still(s):
        _r, a, _b, fl = runlib.one_case(ck, s, guard=True)
        c04 = [x for x in fl if "[C04]" in x]
        # a template (marker line kept) has to keep its behavioural failure, any other program its static one
        if src.startswith("# c04:unique-names"):
            return a.endswith("end=ok") and any("by-name" in x and "end=rt:" not in x for x in c04)
        return a != "rejected" and bool(c04)

    small = runlib.shrink_program(ck, src, still) if len(src) < 6000 and still(src) else src
    req, a, b, fl = runlib.one_case(ck, small)
    if not any("[C04]" in x for x in fl):
        small, req = src, f["request"]
        _r, a, b, fl = runlib.one_case(ck, small)
    ck.report_violation({"kind": "impl-vs-oracle", "family": "run", "what": f["what"][:600], "program": small,
                         "generated_program": src, "requests": [req, f["request"]], "impl": a, "model": b,
                         "oracle_fails": fl, "replay_cmd": "./check C04 --replay <this file>"})


def replay(ck, data):
    if data.get("family") == "resolve":
        return resolvelib.resolve_replay(ck, data)
    rc = runlib.replay_requests(ck, data)
    reqs = [r for r in data.get("requests", []) if r.startswith("run ")]
    for r, m, w in zip(reqs, model_lines([lexical(r) for r in reqs]), model_lines(["ws " + r[4:] for r in reqs])):
        print("lexical reference:", m, "| hypothesis", w)
        if w != "ws=1":
            rc = 1
    return rc
