"""Helpers for C03 (family `plan`): the correspondence with *subset* semantics, corpus handling,
distribution counters and a line-based shrinker.

`Check.corr` compares the two answer lines for equality. For the plan the tie asks for less and for
more: the implementation's plan must be CONTAINED in the model's plan (a more conservative
implementation keeps the theorems applicable), its effect classes must be at least the model's, and
the warnings (kinds + spans in emission order) must be EQUAL. `corr_plan` does that comparison on the
two answer lines and records results in the same places `Check.corr` does."""
import binascii
import os
import re

from common import DRIVER, MachineryError, sh

FIELDS = ("limit", "warns", "unreach", "unusedAsg", "unusedVar", "unusedFn", "removable", "fns", "cls", "end")
SUBSET_FIELDS = ("unreach", "unusedAsg", "unusedVar", "unusedFn", "removable", "fns")
CLS_ORD = {"N": 0, "T": 1, "I": 2}


def parse(line):
    d = {}
    for w in line.split():
        if "=" in w:
            k, v = w.split("=", 1)
            d[k] = v
    return d


def idset(s):
    return set() if s in ("-", None, "") else set(s.split("."))


def compare(impl, model):
    """[] when the implementation's answer is acceptable given the model's, else a list of reasons."""
    a, b = parse(impl), parse(model)
    if any(k not in a for k in FIELDS) or any(k not in b for k in FIELDS):
        return ["unparsable answer"] if impl != model else []
    why = []
    if a["end"] != b["end"]:
        why.append(f"end impl={a['end']} model={b['end']}")
    if a["limit"] != b["limit"]:
        why.append(f"limit impl={a['limit']} model={b['limit']}")
    if a["warns"] != b["warns"]:
        why.append(f"warnings differ impl={a['warns']} model={b['warns']}")
    for k in SUBSET_FIELDS:
        extra = idset(a[k]) - idset(b[k])
        if extra:
            why.append(f"{k}: implementation has {sorted(extra, key=int)} which the model does not")
    ca, cb = a["cls"], b["cls"]
    if ca != cb:
        if len(ca) != len(cb) or ca == "-" or cb == "-":
            why.append(f"cls length impl={ca} model={cb}")
        else:
            low = [i for i, (x, y) in enumerate(zip(ca, cb)) if CLS_ORD.get(x, 9) < CLS_ORD.get(y, 9)]
            if low:
                why.append(f"cls: implementation classes statements {low} lower than the model ({ca} vs {cb})")
    return why


def source_of(request):
    try:
        return binascii.unhexlify(request.split()[1]).decode(errors="replace")
    except Exception:  # noqa: BLE001
        return "<undecodable>"


def corr_plan(ck, requests, label="plan", profile="debug", no_oracle=False, timeout=3000):
    """Run the requests through `nvh plan run` and `nvdriver plan`; record disagreements (by the
    subset rule) and ORACLE-FAIL lines on `ck`. Returns a dict like `Check.corr`."""
    req_bytes = ("\n".join(requests) + "\n").encode()
    cmd = [ck.nvh(profile), "plan", "run"] + (["--no-oracle"] if no_oracle else [])
    impl = sh(cmd, inp=req_bytes, timeout=timeout)
    impl_lines = impl.stdout.decode(errors="replace").splitlines()
    err_lines = impl.stderr.decode(errors="replace").splitlines()
    if impl.returncode != 0 or len(impl_lines) != len(requests):
        ck.broken.append({"kind": "impl-run-died", "family": "plan", "rc": impl.returncode,
                          "answered": len(impl_lines), "of": len(requests), "stderr": err_lines[-5:]})
    model_lines = []
    if os.path.exists(DRIVER):
        mod = sh([DRIVER, "plan"], inp=req_bytes, timeout=timeout)
        model_lines = mod.stdout.decode(errors="replace").splitlines()
        if mod.returncode != 0 or len(model_lines) != len(requests):
            raise MachineryError(f"driver failed on family plan: rc={mod.returncode} "
                                 f"{len(model_lines)}/{len(requests)} {mod.stderr.decode(errors='replace')[-500:]}")
    dis, equal_plan, equal_all = [], 0, 0
    for i, (a, b) in enumerate(zip(impl_lines, model_lines)):
        why = compare(a, b)
        if why:
            dis.append((i, why))
        pa, pb = parse(a), parse(b)
        if pa.get("removable") == pb.get("removable") and pa.get("fns") == pb.get("fns"):
            equal_plan += 1
        if a == b:
            equal_all += 1
    fails, info = [], {}
    for l in err_lines:
        m = re.match(r"ORACLE-FAIL (\d+) (.*)", l)
        if m:
            fails.append((int(m.group(1)) - 1, m.group(2)))
        m = re.match(r"RUNINFO (\d+) (.*)", l)
        if m:
            info[int(m.group(1)) - 1] = parse(m.group(2))
    res = {"family": label, "requests": len(requests), "impl_answers": len(impl_lines),
           "model_answers": len(model_lines), "disagreements": len(dis), "oracle_fails": len(fails),
           "plans_equal": equal_plan, "answers_identical": equal_all, "profile": profile}
    ck.streams.append(res)
    ck.evaluations += len(requests)
    for (i, why) in dis[:20]:
        ck.disagreements.append({"family": "plan", "line": i + 1, "request": requests[i], "source": source_of(requests[i]),
                                 "impl": impl_lines[i], "model": model_lines[i], "why": why, "history": [requests[i]]})
    for (i, msg) in fails[:20]:
        ck.oracle_fails.append({"family": "plan", "line": i + 1, "request": requests[i] if i < len(requests) else "",
                                "source": source_of(requests[i]) if i < len(requests) else "", "what": msg,
                                "history": [requests[i]] if i < len(requests) else []})
    out = dict(res)
    out.update({"impl_lines": impl_lines, "model_lines": model_lines, "stderr": err_lines, "runinfo": info,
                "dis": dis, "fails": fails})
    return out


# ---------------------------------------------------------------------------------------------------
# `arun`: the evaluator of the C03 theorems (AEval + evalPrims) against the real runtime

RESOURCE_ENDS = ("fuel", "rt:StackOverflow", "hang")


def _resource(end):
    return end in RESOURCE_ENDS or end.startswith("abort")


def compare_arun(impl, model):
    """[] when the two `arun` answers agree. A run that ends in resource exhaustion on either side (the model's
    fuel, the runtime's stack check, a hang / abort of the child) is not compared — the property excludes it."""
    if impl == model:
        return []
    a, b = parse(impl), parse(model)
    keys = ("plan", "plain.out", "plain.end", "pruned.out", "pruned.end")
    if any(k not in a for k in keys) or any(k not in b for k in keys):
        return [f"answers differ impl={impl[:160]} model={model[:160]}"]
    why = []
    if a["plan"] != b["plan"]:
        why.append(f"the request's plan {b['plan']} is not the resolver's plan {a['plan']}")
    for tag in ("plain", "pruned"):
        ea, eb = a[tag + ".end"], b[tag + ".end"]
        if _resource(ea) or _resource(eb):
            continue
        if ea != eb:
            why.append(f"{tag} run: ending runtime={ea} fragment={eb}")
        elif a[tag + ".out"] != b[tag + ".out"]:
            why.append(f"{tag} run: printed values runtime={a[tag + '.out'][:120]} fragment={b[tag + '.out'][:120]}")
    return why


def arun_requests(ck, hex_sources):
    """hex source texts → `arun` request lines through the real front end (rejected programs are dropped)."""
    if not hex_sources:
        return []
    p = sh([ck.nvh(), "plan", "req", "--arun", "--hex"], inp=("\n".join(hex_sources) + "\n").encode(), timeout=900)
    lines = p.stdout.decode(errors="replace").splitlines()
    if p.returncode != 0 or len(lines) != len(hex_sources):
        raise MachineryError(f"nvh plan req --arun failed rc={p.returncode} {len(lines)}/{len(hex_sources)}")
    return [l for l in lines if l.startswith("arun ")]


def corr_arun(ck, requests, label="arun", profile="debug", timeout=3000):
    """`arun` requests through the real runtime (`nvh plan run`: without and with the real plan, forked) and through
    the fragment evaluator instantiated with Eval's primitives (`nvdriver plan`); disagreements by `compare_arun`.
    Also an implementation-level oracle: the runtime's own two runs must agree (C03 itself)."""
    if not requests:
        return None
    req_bytes = ("\n".join(requests) + "\n").encode()
    impl = sh([ck.nvh(profile), "plan", "run", "--no-oracle"], inp=req_bytes, timeout=timeout)
    impl_lines = impl.stdout.decode(errors="replace").splitlines()
    if impl.returncode != 0 or len(impl_lines) != len(requests):
        ck.broken.append({"kind": "impl-run-died", "family": "plan", "stream": label, "rc": impl.returncode,
                          "answered": len(impl_lines), "of": len(requests),
                          "stderr": impl.stderr.decode(errors="replace").splitlines()[-5:]})
    model_lines = []
    if os.path.exists(DRIVER):
        mod = sh([DRIVER, "plan"], inp=req_bytes, timeout=timeout)
        model_lines = mod.stdout.decode(errors="replace").splitlines()
        if mod.returncode != 0 or len(model_lines) != len(requests):
            raise MachineryError(f"driver failed on family plan (arun): rc={mod.returncode} "
                                 f"{len(model_lines)}/{len(requests)} {mod.stderr.decode(errors='replace')[-500:]}")
    dis, fails = [], []
    compared = skipped = resource = nonempty = rt_end = pruned_differs = 0
    for i, (a, b) in enumerate(zip(impl_lines, model_lines)):
        why = compare_arun(a, b)
        if why:
            dis.append((i, why))
        pa, pb = parse(a), parse(b)
        if a == "arun skip" or b == "arun skip" or "plain.end" not in pa or "plain.end" not in pb:
            skipped += 1
            continue
        ends = [pa["plain.end"], pa["pruned.end"], pb["plain.end"], pb["pruned.end"]]
        if any(_resource(e) for e in ends):
            resource += 1
        else:
            compared += 1
            if pa["plan"] not in ("-;-", "none"):
                nonempty += 1
            if pa["plain.end"].startswith("rt:"):
                rt_end += 1
        # C03 on the implementation itself (same as the differential oracle, here with process execution denied)
        if not _resource(pa["plain.end"]) and not _resource(pa["pruned.end"]) and \
                (pa["plain.end"], pa["plain.out"]) != (pa["pruned.end"], pa["pruned.out"]) and \
                not (pa["plain.end"] == "panic" and pa["pruned.end"] == "panic"):
            fails.append((i, f"plan-changes-behaviour (arun) plain=[{pa['plain.out'][:80]}] {pa['plain.end']} "
                             f"with-plan=[{pa['pruned.out'][:80]}] {pa['pruned.end']}"))
            pruned_differs += 1
    res = {"family": label, "requests": len(requests), "impl_answers": len(impl_lines),
           "model_answers": len(model_lines), "disagreements": len(dis), "oracle_fails": len(fails),
           "compared": compared, "with_nonempty_plan": nonempty, "ending_in_runtime_error": rt_end,
           "skipped_read_line_or_rejected": skipped, "not_compared_resource_exhaustion": resource, "profile": profile}
    ck.streams.append(res)
    ck.evaluations += len(requests)
    ck.count("arun_programs_compared", compared)
    ck.count("arun_with_nonempty_plan", nonempty)
    ck.count("arun_ending_in_runtime_error", rt_end)
    ck.count("arun_skipped_read_line", skipped)
    ck.count("arun_not_compared_resource_exhaustion", resource)
    for (i, why) in dis[:20]:
        ck.disagreements.append({"family": "plan", "stream": label, "line": i + 1, "request": requests[i],
                                 "source": source_of(requests[i]), "impl": impl_lines[i], "model": model_lines[i],
                                 "why": why, "history": [requests[i]]})
    for (i, msg) in fails[:20]:
        ck.oracle_fails.append({"family": "plan", "line": i + 1, "request": requests[i], "source": source_of(requests[i]),
                                "what": msg, "history": [requests[i]]})
    out = dict(res)
    out.update({"impl_lines": impl_lines, "model_lines": model_lines, "dis": dis, "fails": fails})
    return out


def corpus_sources(verif):
    path = os.path.join(verif, "corpus", "C03", "seeds.txt")
    out = []
    if os.path.exists(path):
        for line in open(path):
            line = line.rstrip("\n")
            if line.strip() and not line.startswith("#"):
                out.append(line)
    return out


def requests_for(ck, sources):
    """Source texts → request lines through the real front end (`nvh plan req`); programs the front
    end rejects are dropped (returned separately)."""
    flat = [" ".join(s.split("\n")) for s in sources]
    p = sh([ck.nvh(), "plan", "req"], inp=("\n".join(flat) + "\n").encode(), timeout=600)
    lines = p.stdout.decode(errors="replace").splitlines()
    if p.returncode != 0 or len(lines) != len(flat):
        raise MachineryError(f"nvh plan req failed rc={p.returncode} {len(lines)}/{len(flat)}")
    reqs, rejected = [], []
    for s, l in zip(sources, lines):
        if l.startswith("plan "):
            reqs.append(l)
        else:
            rejected.append(s)
    return reqs, rejected


def count_distribution(ck, requests, res):
    """Counters over the implementation's answers; a case is non-trivial when the plan removes at
    least one statement the analysis itself considers reachable inside a function whose body is
    reachable (RUNINFO live_removed, computed by the harness from the real analyses)."""
    for i, line in enumerate(res["impl_lines"]):
        a = parse(line)
        if a.get("end") != "ok":
            ck.count("end_" + a.get("end", "?").split(":")[0])
            continue
        ck.count("accepted_programs")
        rem, unr = idset(a.get("removable")), idset(a.get("unreach"))
        if unr:
            ck.count("with_unreachable_stmts")
        if idset(a.get("unusedAsg")):
            ck.count("with_unused_assignment")
        if idset(a.get("unusedVar")):
            ck.count("with_unused_variable")
        if idset(a.get("fns")):
            ck.count("with_removed_function")
        if rem - unr:
            ck.count("with_dead_store_or_decl_removed")
        info = res["runinfo"].get(i, {})
        if info:
            ck.count("ending_" + info.get("ending", "?").split(":")[-1])
            if int(info.get("live_removed", "0")) > 0:
                ck.count("plan_removes_live_reachable_stmt")
                ck.nontrivial_case(requests[i].split()[1])
                if len(ck.samples) < 4 and len(requests[i]) < 2500:
                    ck.samples.append({"source": source_of(requests[i]), "impl_answer": line})


def shrink_source(ck, source, still_fails, budget=250):
    """Greedy deletion of lines and of balanced `start … end` groups while `still_fails(src)`."""
    lines = [l for l in source.split("\n") if l.strip()]
    if len(lines) == 1:
        return source
    tries = 0
    changed = True
    while changed and tries < budget:
        changed = False
        i = 0
        while i < len(lines) and tries < budget:
            cand = lines[:i] + lines[i + 1:]
            tries += 1
            if cand and still_fails("\n".join(cand)):
                lines = cand
                changed = True
            else:
                i += 1
    return "\n".join(lines)
