"""CRUN — stand-alone check of family `run` (not a property): the evaluator theorems build, the
driver's float routines agree with Rust, and the real Runtime agrees with the Lean evaluator model on
the corpus, the generated main stream and the complete C06 product (`./check CRUN --tier quick`)."""
import runlib
from common import Check


def run(ck: Check):
    ck.rule = ("corpus + generated programs + complete sink x type x route product; non-trivial = accepted, prints "
               "a value, contains a call/loop/method/index write; distinct by program text")
    ck.build_harness()
    ck.gen_tables()
    runlib.run_obligations(ck)
    ck.build_driver(runlib.DRIVER_FAMILIES)
    runlib.float_selftest(ck, 3000 if ck.tier == "quick" else 50000)
    streams = runlib.run_streams(ck, ck.tier, corpus_dirs=("C04", "C06"))
    prod = streams.get("product")
    if prod:
        sites = {}
        for p in prod["info"]["panics"]:
            loc = p["impl"].split("end=")[-1]
            sites[loc] = sites.get(loc, 0) + 1
        ck.extra_cov["product_panic_locations"] = dict(sorted(sites.items()))
    if ck.tier == "thorough":
        ck.leanchecker(runlib.MODULES)
    if ck.is_broken():
        rep = runlib.report_disagreements(ck, "real runtime and evaluator model disagree", streams)
        if rep is not None:
            rep["broken"] = ck.broken[:5]
            ck.report_violation(rep, no_input_found=not rep.get("oracle_fails"))
        else:
            ck.report_violation({"kind": "tie-broken", "family": "run", "broken": ck.broken[:10],
                                 "oracle_fails": ck.oracle_fails[:5], "requests": []}, no_input_found=True)
    return ck.finish()


def replay(ck, data):
    return runlib.replay_requests(ck, data)
