"""Stand-alone check of the resolver unit (`./check CRESOLVE --tier quick`): obligations of C09 and of
the static half of C04, and every `resolve` stream. Evidence goes to evidence/CRESOLVE.json."""
from common import Check
import resolvelib as rl


def run(ck: Check):
    ck.rule = "as C09 (see checks/c09.py); additionally the obligations of Props/C04Static.lean"
    ck.build_harness()
    ck.gen_tables()
    rl.resolve_obligations(ck, props=("C09", "C04Static"))
    ck.build_driver()
    out = rl.resolve_streams(ck, ck.tier)
    rl.resolve_findings(ck, n=60 if ck.tier == "quick" else 600)
    if ck.tier == "thorough":
        ck.leanchecker(["NaijaVerif.Props.C09", "NaijaVerif.Props.C04Static"])
    if ck.is_broken() or out["failures"]:
        rl.resolve_search(ck, out)
    return ck.finish()


def replay(ck, data):
    return rl.resolve_replay(ck, data)
