"""Lexer unit (family `lex`): obligations, correspondence streams, search and replay.

Used by checks/c07.py and checks/c10.py (`lex_obligations(ck)`, `lex_streams(ck, tier)`,
`lex_search(ck)`) and by the stand-alone entry point checks/clex.py (`./check CLEX`)."""
import binascii
import glob
import os
import re

from common import DRIVER, REPO, VERIF, sh

MODULES = {"C07": "NaijaVerif.Props.C07Lex", "C10": "NaijaVerif.Props.C10Lex"}

RULE = ("lex: texts from a grammar of lexer classes (every token kind, 2/3/4-byte characters, quotes, backslash, '#', "
        "'.', digits, CR/LF/CRLF/TAB/FF glued to every token kind, with and without separators), truncations of the "
        "shipped programs on character boundaries, re-layouts of valid token sequences (7 layouts each) and long "
        "repetitive inputs; non-trivial = the implementation produced a token besides the final eof or a diagnostic; "
        "distinct by request text")

STREAMS = [
    # label, generator kind, quick n, thorough n
    ("grammar", "grammar", 20000, 300000),
    ("trunc-all-prefixes", "trunc", 0, 0),        # n = 0: every prefix of every shipped program (char boundaries)
    ("trunc-windows", "trunc", 4000, 60000),      # random windows / suffixes
    ("relayout", "relayout", 2500, 30000),        # token sequences; 7 layouts each
    ("deep", "deep", 100000, 300000),             # repetitions of `1.a`, `1. `, `@`, `é`, `#\n`, escapes
]


def lex_obligations(ck, props=("C07", "C10")):
    """Build and audit the lexer theorem modules; every theorem in them is an obligation."""
    mods = [MODULES[p] for p in props]
    return ck.lean_obligations(mods)


def text_of(req):
    """The text (bytes) a request lexes."""
    w = req.split()
    h = w[-1] if w else "-"
    try:
        return b"" if h == "-" else binascii.unhexlify(h)
    except (binascii.Error, ValueError):
        return b""


def corpus_requests():
    reqs = []
    for f in sorted(glob.glob(os.path.join(VERIF, "corpus", "lex", "*.txt"))):
        for line in open(f):
            line = line.strip()
            if line and not line.startswith("#"):
                reqs.append(line)
    return reqs


def classify(ck, reqs, res):
    impl = res["impl_lines"]
    for r, a in zip(reqs, impl):
        ck.count("lex_cases")
        m = re.match(r"toks=(\S+) diags=(\S+) labels=(\S+) end=(\S+)", a)
        if not m:
            ck.count("lex_answer_" + a.split(" ")[0][:12])
            continue
        toks, diags, _labels, end = m.groups()
        ck.count("lex_end_" + end)
        if end != "ok":
            continue
        kinds = [t.split("@")[0].split(":")[0] for t in toks.split(",")]
        for k in set(kinds):
            ck.count("lex_tok_" + k)
        if diags != "-":
            ck.count("lex_cases_with_diagnostics")
            for d in set(x.split(":")[2] for x in diags.split(",")):
                ck.count("lex_diag_" + d)
        t = text_of(r)
        if any(b >= 0x80 for b in t):
            ck.count("lex_cases_non_ascii")
        if b"\r" in t:
            ck.count("lex_cases_with_CR")
        if len(kinds) > 1 or diags != "-":
            ck.nontrivial_case(r)
            if len(ck.samples) < 3 and 8 < len(t) < 80:
                ck.samples.append({"text": t.decode("utf-8", "replace"), "impl": a})
    if r"relay" in (reqs[0] if reqs else ""):
        ck.count("lex_relayout_requests", len(reqs))


def lex_streams(ck, tier, only=None):
    """Corpus first, then the generated streams; model and implementation are diffed line by line and the
    implementation-level oracle (spans, boundaries, UTF-8 payloads, no panic/abort, re-layout stability) is
    collected from the harness' stderr. `only`: restrict to these stream labels."""
    out = {}
    corpus = corpus_requests()
    if corpus:
        res = ck.corr("lex", corpus, label="lex-corpus")
        classify(ck, corpus, res)
        out["corpus"] = (corpus, res)
    for label, kind, nq, nt in STREAMS:
        if only is not None and label not in only:
            continue
        n = nq if tier == "quick" else nt
        reqs = ck.gen("lex", ["--kind", kind, "--n", n, "--repo", REPO])
        res = ck.corr("lex", reqs, label="lex-" + label)
        classify(ck, reqs, res)
        out[label] = (reqs, res)
    return out


# ------------------------------------------------------------------------------------------ search

def fail_class(what):
    for key, cls in [("aborted", "abort"), ("did not return", "timeout"), ("panicked", "panic"),
                     ("not on a character boundary", "span-not-on-char-boundary"),
                     ("not valid UTF-8", "string-content-not-utf8"), ("beyond the text", "span-out-of-range"),
                     ("start > end", "span-reversed"), ("before the end of its predecessor", "tokens-overlap"),
                     ("re-layout changes", "layout-changes-tokens")]:
        if key in what:
            return cls
    return "other"


def run_impl(ck, reqs, timeout=600):
    p = sh([ck.nvh(), "lex", "run"], inp=("\n".join(reqs) + "\n").encode(), timeout=timeout)
    fails = {}
    for l in p.stderr.decode(errors="replace").splitlines():
        m = re.match(r"ORACLE-FAIL (\d+) (.*)", l)
        if m:
            fails[int(m.group(1)) - 1] = m.group(2)
    return p.stdout.decode(errors="replace").splitlines(), fails


def run_model(reqs, timeout=600):
    p = sh([DRIVER, "lex"], inp=("\n".join(reqs) + "\n").encode(), timeout=timeout)
    return p.stdout.decode(errors="replace").splitlines()


def shrink_text(ck, req, cls, budget=400):
    """Delta-debug the text of a `lex` request character-wise (UTF-8 stays valid), keeping the same oracle
    failure class."""
    if not req.startswith("lex "):
        return req
    try:
        chars = list(text_of(req).decode("utf-8"))
    except UnicodeDecodeError:
        return req
    tries = 0

    def fails(cs):
        nonlocal tries
        tries += 1
        r = "lex " + (binascii.hexlify("".join(cs).encode()).decode() or "-")
        _, f = run_impl(ck, [r])
        return 0 in f and fail_class(f[0]) == cls

    n = 2
    while len(chars) >= 2 and tries < budget:
        chunk = max(1, len(chars) // n)
        reduced = False
        for i in range(0, len(chars), chunk):
            cand = chars[:i] + chars[i + chunk:]
            if cand and fails(cand):
                chars = cand
                n = max(n - 1, 2)
                reduced = True
                break
            if tries >= budget:
                break
        if not reduced:
            if chunk == 1:
                break
            n = min(n * 2, len(chars))
    return "lex " + (binascii.hexlify("".join(chars).encode()).decode() or "-")


def describe(req):
    t = text_of(req)
    s = t.decode("utf-8", "replace")
    return s if len(s) <= 200 else s[:80] + f" … ({len(t)} bytes: the first 80 shown; pattern repeats) … " + s[-40:]


def lex_search(ck, pid_note=""):
    """Something is broken (an obligation, the model/implementation tie, or the oracle). Find a concrete text
    on which the *property* fails on the implementation: first the oracle failures already seen, then a larger
    generated budget; shrink; report. Without such an input, report the broken theorem / stream."""
    found = [f for f in ck.oracle_fails if f["family"] == "lex"]
    if not found:
        budget = 30000 if ck.tier == "quick" else 400000
        for shift, kind in ((101, "grammar"), (202, "relayout"), (303, "trunc")):
            ck.seed += shift
            reqs = ck.gen("lex", ["--kind", kind, "--n", budget if kind != "relayout" else budget // 10, "--repo", REPO])
            ck.seed -= shift
            res = ck.corr("lex", reqs, label=f"lex-search-{kind}")
            found = [f for f in ck.oracle_fails if f["family"] == "lex"]
            if found:
                break
    if found:
        # one report per failure class, smallest witness each
        by_cls = {}
        for f in found:
            cls = fail_class(f["what"])
            if cls in ("abort", "timeout", "panic") and all(b < 0x80 for b in text_of(f["request"])):
                cls += "-on-ascii-text"      # e.g. native stack overflow, as opposed to a UTF-8 boundary abort
            if cls not in by_cls or len(f["request"]) < len(by_cls[cls]["request"]):
                by_cls[cls] = f
        for cls, f in sorted(by_cls.items()):
            req = shrink_text(ck, f["request"], cls.replace("-on-ascii-text", ""),
                              budget=400 if len(f["request"]) < 20000 else 40)
            impl, fails = run_impl(ck, [req])
            model = run_model([req])
            ck.report_violation({
                "kind": "impl-vs-oracle", "family": "lex", "oracle": cls,
                "signature": {"family": "lex", "oracle": cls},
                "what": fails.get(0, f["what"]),
                "text": describe(req), "text_bytes": len(text_of(req)),
                "requests": [req],
                "implementation": impl[:1], "model": model[:1],
                "replay_cmd": f"./check {ck.pid} --replay <this file>",
                "broken": ck.broken[:5], "note": pid_note,
            })
        return True
    ck.report_violation({
        "kind": "tie-broken", "family": "lex",
        "what": "a lexer proof obligation, an extracted table or the model/implementation correspondence no longer "
                "checks; no text violating the property itself was found",
        "broken": ck.broken[:10],
        "disagreements": [{k: (v if k != "history" else None) for k, v in d.items()} for d in ck.disagreements[:5]],
        "requests": [d["request"] for d in ck.disagreements[:5]],
        "texts": [describe(d["request"]) for d in ck.disagreements[:5]],
        "note": pid_note,
    }, no_input_found=True)
    return False


def lex_replay(ck, data):
    reqs = data.get("requests", [])
    if not reqs:
        print("nothing to replay (no request recorded):", data.get("what"))
        return 1
    impl, fails = run_impl(ck, reqs)
    model = run_model(reqs) if os.path.exists(DRIVER) else []
    rc = 0
    for i, r in enumerate(reqs):
        print("text          :", describe(r))
        print("implementation:", (impl[i] if i < len(impl) else "?")[:400])
        print("model         :", (model[i] if i < len(model) else "?")[:400])
        print("oracle        :", fails.get(i, "ok"))
        if i in fails or (i < len(impl) and i < len(model) and impl[i] != model[i]):
            rc = 1
    return rc
