"""Lexer unit (family `lex`): obligations, correspondence streams, search and replay.

Used by checks/c07.py and checks/c10.py (`lex_obligations(ck)`, `lex_streams(ck, tier)`,
`lex_search(ck)`) and by the stand-alone entry point checks/clex.py (`./check CLEX`)."""
import binascii
import glob
import os
import re

from common import DRIVER, REPO, VERIF, sh

MODULES = {"C07": "NaijaVerif.Props.C07Lex", "C10": "NaijaVerif.Props.C10Lex"}
# lexer share of the memory part of C07 (D-19): string-buffer capacities are linear in the source.
# checks/c07.py lists it in its own MODULES; CLEX builds it through lex_obligations.
MEM_MODULE = "NaijaVerif.Props.C07Mem"

RULE = ("lex: texts from a grammar of lexer classes (every token kind, 2/3/4-byte characters, quotes, backslash, '#', "
        "'.', digits, CR/LF/CRLF/TAB/FF glued to every token kind, with and without separators), string literals built "
        "to exercise the buffer of scan_string (escapes at the start / middle / end, runs of escaped quotes that force "
        "growth past the reservation, invalid and multi-byte escapes, backslash + LF / CR / CRLF, unterminated at a line "
        "end, at the end of input and on a trailing backslash, both quote characters, several literals per line; every "
        "prefix of the hand-written ones), truncations of the "
        "shipped programs on character boundaries, re-layouts of valid token sequences (7 layouts each) and long "
        "repetitive inputs; non-trivial = the implementation produced a token besides the final eof or a diagnostic; "
        "distinct by request text")

STREAMS = [
    # label, generator kind, quick n, thorough n
    ("grammar", "grammar", 20000, 300000),
    ("trunc-all-prefixes", "trunc", 0, 0),        # n = 0: every prefix of every shipped program (char boundaries)
    ("trunc-windows", "trunc", 4000, 60000),      # random windows / suffixes
    ("relayout", "relayout", 2500, 30000),        # token sequences; 7 layouts each
    ("deep", "deep", 100000, 300000),             # repetitions of `1.a`, `1. `, `@`, `é`, `#\n`, escapes
]


def lex_obligations(ck, props=("C07", "C10")):
    """Build and audit the lexer theorem modules; every theorem in them is an obligation."""
    mods = [MODULES[p] for p in props]
    if "C07" in props and os.path.exists(os.path.join(VERIF, "lean", *MEM_MODULE.split(".")) + ".lean"):
        mods.append(MEM_MODULE)
    return ck.lean_obligations(mods)


def text_of(req):
    """The text (bytes) a request lexes."""
    w = req.split()
    h = w[-1] if w else "-"
    try:
        return b"" if h == "-" else binascii.unhexlify(h)
    except (binascii.Error, ValueError):
        return b""


def corpus_requests():
    reqs = []
    files = sorted(glob.glob(os.path.join(VERIF, "corpus", "lex", "*.txt")))
    # string-buffer seeds (`caps=`) live with the properties they serve
    files += sorted(glob.glob(os.path.join(VERIF, "corpus", "C07", "lex*.txt")))
    files += sorted(glob.glob(os.path.join(VERIF, "corpus", "C10", "lex*.txt")))
    for f in files:
        for line in open(f):
            line = line.strip()
            if line and not line.startswith("#"):
                reqs.append(line)
    return reqs


def classify(ck, reqs, res):
    impl = res["impl_lines"]
    for r, a in zip(reqs, impl):
        ck.count("lex_cases")
        m = re.match(r"toks=(\S+) diags=(\S+) labels=(\S+)(?: caps=(\S+))? end=(\S+)", a)
        if not m:
            ck.count("lex_answer_" + a.split(" ")[0][:12])
            continue
        toks, diags, _labels, caps, end = m.groups()
        ck.count("lex_end_" + end)
        if end != "ok":
            continue
        kinds = [t.split("@")[0].split(":")[0] for t in toks.split(",")]
        for k in set(kinds):
            ck.count("lex_tok_" + k)
        if diags != "-":
            ck.count("lex_cases_with_diagnostics")
            for d in set(x.split(":")[2] for x in diags.split(",")):
                ck.count("lex_diag_" + d)
        t = text_of(r)
        if caps not in (None, "-", "?"):
            # buffers of owned string tokens (Model/LexMem.lean): how many, how large, how often grown
            cs = [int(x) for x in caps.split(",")]
            ck.count("lex_cases_with_string_buffers")
            ck.count("lex_string_buffers", len(cs))
            if len(cs) >= 2:
                ck.count("lex_cases_with_2plus_string_buffers")
            if any(c >= 8 and c & (c - 1) == 0 for c in cs):
                ck.count("lex_cases_buffer_capacity_power_of_two")     # amortised growth took place
            if t and 2 * sum(cs) > 3 * len(t):
                ck.count("lex_cases_buffers_above_1.5x_text")
            if t and sum(cs) > 2 * len(t):
                ck.count("lex_cases_buffers_above_2x_text")
        if any(b >= 0x80 for b in t):
            ck.count("lex_cases_non_ascii")
        if b"\r" in t:
            ck.count("lex_cases_with_CR")
        if len(kinds) > 1 or diags != "-":
            ck.nontrivial_case(r)
            if len(ck.samples) < 3 and 8 < len(t) < 80:
                ck.samples.append({"text": t.decode("utf-8", "replace"), "impl": a})
    if r"relay" in (reqs[0] if reqs else ""):
        ck.count("lex_relayout_requests", len(reqs))


def lex_streams(ck, tier, only=None):
    """Corpus first, then the generated streams; model and implementation are diffed line by line and the
    implementation-level oracle (spans, boundaries, UTF-8 payloads, no panic/abort, re-layout stability) is
    collected from the harness' stderr. `only`: restrict to these stream labels."""
    out = {}
    corpus = corpus_requests()
    if corpus:
        res = ck.corr("lex", corpus, label="lex-corpus")
        classify(ck, corpus, res)
        out["corpus"] = (corpus, res)
    for label, kind, nq, nt in STREAMS:
        if only is not None and label not in only:
            continue
        n = nq if tier == "quick" else nt
        reqs = ck.gen("lex", ["--kind", kind, "--n", n, "--repo", REPO])
        res = ck.corr("lex", reqs, label="lex-" + label)
        classify(ck, reqs, res)
        out[label] = (reqs, res)
    return out


# ------------------------------------------------------------------------------------------ search

def fail_class(what):
    for key, cls in [("aborted", "abort"), ("did not return", "timeout"), ("panicked", "panic"),
                     ("not on a character boundary", "span-not-on-char-boundary"),
                     ("not valid UTF-8", "string-content-not-utf8"), ("beyond the text", "span-out-of-range"),
                     ("start > end", "span-reversed"), ("before the end of its predecessor", "tokens-overlap"),
                     ("capacities sum to", "string-buffers-not-linear"), ("buffer capacity", "string-buffer-capacity"),
                     ("re-layout changes", "layout-changes-tokens")]:
        if key in what:
            return cls
    return "other"


def run_impl(ck, reqs, timeout=600):
    p = sh([ck.nvh(), "lex", "run"], inp=("\n".join(reqs) + "\n").encode(), timeout=timeout)
    fails = {}
    for l in p.stderr.decode(errors="replace").splitlines():
        m = re.match(r"ORACLE-FAIL (\d+) (.*)", l)
        if m:
            fails[int(m.group(1)) - 1] = m.group(2)
    return p.stdout.decode(errors="replace").splitlines(), fails


def run_model(reqs, timeout=600):
    p = sh([DRIVER, "lex"], inp=("\n".join(reqs) + "\n").encode(), timeout=timeout)
    return p.stdout.decode(errors="replace").splitlines()


def shrink_text(ck, req, cls, budget=400):
    """Delta-debug the text of a `lex` request character-wise (UTF-8 stays valid), keeping the same oracle
    failure class."""
    if not req.startswith("lex "):
        return req
    try:
        chars = list(text_of(req).decode("utf-8"))
    except UnicodeDecodeError:
        return req
    tries = 0

    def fails(cs):
        nonlocal tries
        tries += 1
        r = "lex " + (binascii.hexlify("".join(cs).encode()).decode() or "-")
        _, f = run_impl(ck, [r])
        return 0 in f and fail_class(f[0]) == cls

    n = 2
    while len(chars) >= 2 and tries < budget:
        chunk = max(1, len(chars) // n)
        reduced = False
        for i in range(0, len(chars), chunk):
            cand = chars[:i] + chars[i + chunk:]
            if cand and fails(cand):
                chars = cand
                n = max(n - 1, 2)
                reduced = True
                break
            if tries >= budget:
                break
        if not reduced:
            if chunk == 1:
                break
            n = min(n * 2, len(chars))
    return "lex " + (binascii.hexlify("".join(chars).encode()).decode() or "-")


def shrink_disagreement(ck, req, budget=150):
    """Delta-debug the text of a `lex` request character-wise, keeping `implementation answer != model answer`
    (for instance a differing `caps=` field). Returns (request, impl line, model line)."""
    def both(r):
        impl, _ = run_impl(ck, [r])
        model = run_model([r])
        return (impl[0] if impl else "?"), (model[0] if model else "?")

    a, b = both(req)
    if not req.startswith("lex ") or a == b:
        return req, a, b
    try:
        chars = list(text_of(req).decode("utf-8"))
    except UnicodeDecodeError:
        return req, a, b
    tries = 0
    n = 2
    while len(chars) >= 2 and tries < budget:
        chunk = max(1, len(chars) // n)
        reduced = False
        for i in range(0, len(chars), chunk):
            cand = chars[:i] + chars[i + chunk:]
            if not cand:
                continue
            tries += 1
            r = "lex " + binascii.hexlify("".join(cand).encode()).decode()
            x, y = both(r)
            if x != y:
                chars, a, b = cand, x, y
                n = max(n - 1, 2)
                reduced = True
                break
            if tries >= budget:
                break
        if not reduced:
            if chunk == 1:
                break
            n = min(n * 2, len(chars))
    return "lex " + binascii.hexlify("".join(chars).encode()).decode(), a, b


def describe(req):
    t = text_of(req)
    s = t.decode("utf-8", "replace")
    return s if len(s) <= 200 else s[:80] + f" … ({len(t)} bytes: the first 80 shown; pattern repeats) … " + s[-40:]


def lex_search(ck, pid_note=""):
    """Something is broken (an obligation, the model/implementation tie, or the oracle). Find a concrete text
    on which the *property* fails on the implementation: first the oracle failures already seen, then a larger
    generated budget; shrink; report. Without such an input, report the broken theorem / stream."""
    found = [f for f in ck.oracle_fails if f["family"] == "lex"]
    if not found:
        budget = 30000 if ck.tier == "quick" else 400000
        for shift, kind in ((101, "grammar"), (202, "relayout"), (303, "trunc")):
            ck.seed += shift
            reqs = ck.gen("lex", ["--kind", kind, "--n", budget if kind != "relayout" else budget // 10, "--repo", REPO])
            ck.seed -= shift
            res = ck.corr("lex", reqs, label=f"lex-search-{kind}")
            found = [f for f in ck.oracle_fails if f["family"] == "lex"]
            if found:
                break
    if found:
        # one report per failure class, smallest witness each
        by_cls = {}
        for f in found:
            cls = fail_class(f["what"])
            if cls in ("abort", "timeout", "panic") and all(b < 0x80 for b in text_of(f["request"])):
                cls += "-on-ascii-text"      # e.g. native stack overflow, as opposed to a UTF-8 boundary abort
            if cls not in by_cls or len(f["request"]) < len(by_cls[cls]["request"]):
                by_cls[cls] = f
        for cls, f in sorted(by_cls.items()):
            req = shrink_text(ck, f["request"], cls.replace("-on-ascii-text", ""),
                              budget=400 if len(f["request"]) < 20000 else 40)
            impl, fails = run_impl(ck, [req])
            model = run_model([req])
            ck.report_violation({
                "kind": "impl-vs-oracle", "family": "lex", "oracle": cls,
                "signature": {"family": "lex", "oracle": cls},
                "what": fails.get(0, f["what"]),
                "text": describe(req), "text_bytes": len(text_of(req)),
                "requests": [req],
                "implementation": impl[:1], "model": model[:1],
                "replay_cmd": f"./check {ck.pid} --replay <this file>",
                "broken": ck.broken[:5], "note": pid_note,
            })
        return True
    smallest = None
    lexdis = [d for d in ck.disagreements if d.get("family") == "lex" and d["request"].startswith("lex ")]
    if lexdis and os.path.exists(DRIVER):
        d = min(lexdis, key=lambda d: len(d["request"]))
        req, a, b = shrink_disagreement(ck, d["request"], budget=150 if len(d["request"]) < 4000 else 30)
        field = next((k for k in ("toks", "diags", "labels", "caps", "end")
                      if re.search(k + r"=(\S+)", a) and re.search(k + r"=(\S+)", b)
                      and re.search(k + r"=(\S+)", a).group(1) != re.search(k + r"=(\S+)", b).group(1)), None)
        smallest = {"text": describe(req), "text_bytes": len(text_of(req)), "request": req,
                    "implementation": a, "model": b, "first_differing_field": field}
    ck.report_violation({
        "kind": "tie-broken", "family": "lex",
        "what": "a lexer proof obligation, an extracted table or the model/implementation correspondence no longer "
                "checks; no text violating the property itself was found"
                + (f" (model and implementation differ in `{smallest['first_differing_field']}=` on the text "
                   f"{smallest['text']!r})" if smallest else ""),
        "smallest_disagreement": smallest,
        "broken": ck.broken[:10],
        "disagreements": [{k: (v if k != "history" else None) for k, v in d.items()} for d in ck.disagreements[:5]],
        "requests": ([smallest["request"]] if smallest else []) + [d["request"] for d in ck.disagreements[:5]],
        "texts": ([smallest["text"]] if smallest else []) + [describe(d["request"]) for d in ck.disagreements[:5]],
        "note": pid_note,
    }, no_input_found=True)
    return False


def lex_replay(ck, data):
    reqs = data.get("requests", [])
    if not reqs:
        print("nothing to replay (no request recorded):", data.get("what"))
        return 1
    impl, fails = run_impl(ck, reqs)
    model = run_model(reqs) if os.path.exists(DRIVER) else []
    rc = 0
    for i, r in enumerate(reqs):
        print("text          :", describe(r))
        print("implementation:", (impl[i] if i < len(impl) else "?")[:400])
        print("model         :", (model[i] if i < len(model) else "?")[:400])
        print("oracle        :", fails.get(i, "ok"))
        if i in fails or (i < len(impl) and i < len(model) and impl[i] != model[i]):
            rc = 1
    return rc
