"""C07 — the front end is total: any text yields diagnostics or a program, not a crash.

Proof: lean/NaijaVerif/Props/C07.lean (assembly: every AST span and every lexical / syntax diagnostic and
label span of any valid UTF-8 text is ordered, in range and on character boundaries), C07Lex.lean
(lexer totality, cursor invariant, token / diagnostic spans), C07Parse.lean (parser totality = fuel
adequacy incl. every recovery loop, span sanity), C07Render.lean when present (rendering never slices out
of range or off a boundary for such spans). The resolver model is a structural total function whose
diagnostics carry AST spans. Tie: `lex`, `parse`, `resolve`, `render` correspondence streams on arbitrary
UTF-8, truncations, token mutations; the composed front end on mutated programs (`pipe` front requests).
Implementation-level oracles (no model): no panic / abort / hang, every span ordered, in range and on a
character boundary, render_ansi returns; large ordinary sources (scalelib: 31 families x 20 000 repetitions through
the real `naija` binary) end with exit 0/1, never a memory error. Hang oracle: every stage answers its requests inside a worker
subprocess (lexer, resolver, composed front end; the parser stream bisects); a request on which the
implementation does not return within the worker's CPU limit, or kills the process (abort on `memory
allocation failed`, stack overflow), is answered `hang` / `abort` for that line and the stream goes on —
such an answer, like `panic`, names the concrete failing input of C07 whatever stage produced it."""
import importlib
import os

import lexlib
import parselib
import pipelib
import resolvelib
import scalelib
from common import Check, LEAN, MachineryError

MODULES = ["NaijaVerif.Props.C07Lex", "NaijaVerif.Props.C07Parse", "NaijaVerif.Props.C07Resolve", "NaijaVerif.Props.C07"]
RENDER = "NaijaVerif.Props.C07Render"


def have_render():
    return os.path.exists(os.path.join(LEAN, "NaijaVerif", "Props", "C07Render.lean")) and \
        os.path.exists(os.path.join(os.path.dirname(__file__), "renderlib.py"))


def run(ck: Check):
    ck.rule = ("arbitrary valid UTF-8 from a grammar of lexer classes, every prefix of every shipped program, deep "
               "repetitive inputs (lexer); hand-written recovery seeds, all single-token mutations of short programs, "
               "generated programs half of them mutated (parser); well-formed programs and single-rule violations in "
               "every context, call cycles whose return value combines the recursive call's result with literals of "
               "other types (resolver: no panic, no hang, no abort); token-mutated generated programs and recursive "
               "function families through the composed front end; "
               "non-trivial = at least one real token, diagnostic or AST of 10+ nodes; distinct by request text")
    ck.build_harness()
    ck.gen_tables()
    mods = MODULES + ([RENDER] if have_render() else [])
    if not have_render():
        ck.notes.append("renderer part (Props/C07Render.lean) not present in this tree: render_ansi is covered only by "
                        "the implementation-level 'renders without failure' oracles")
    ck.lean_obligations(mods)
    ck.build_driver(["Lex", "Parse", "Resolve", "Pipe"] + (["Render"] if have_render() else []))
    quick = ck.tier == "quick"
    render = have_render()
    renderlib = importlib.import_module("renderlib") if render else None
    # Every stage runs its streams first; only then is a failure attributed and searched, so that a broken
    # obligation of one stage cannot hide a concrete failing input that another stage's stream produces.
    lexlib.lex_streams(ck, ck.tier, only=["grammar", "trunc-all-prefixes", "trunc-windows", "deep"])
    parselib.parse_streams(ck, ck.tier)   # incl. totality guard: a hang or a death is bisected to one input
    out = resolvelib.resolve_streams(ck, ck.tier,
                                     sizes={"valid": 600, "viol": 900, "mixed": 900, "rec": 500} if quick else None)
    crashed = resolvelib.crashed(out)      # [(request, answer)]: panic / hang / abort of the static checker
    crashed += [(r, a) for r, a in zip(out["requests"], out["resolve"]["impl_lines"])
                if not a.rstrip().endswith("end=ok") and a != "unrun" and (r, a) not in crashed]
    ck.count("resolver_cases", len(out["requests"]))
    ck.count("resolver_crashes", len(crashed))
    # C09-specific verdicts (spec / WF) are not C07's subject: keep only crashes and model-vs-impl disagreements
    ck.oracle_fails[:] = [f for f in ck.oracle_fails if f.get("family") != "resolve"]
    pipelib.pipe_stream(ck, "mutants", 1500 if quick else 40000, extra=pipelib.corpus_requests("C07"))
    if render:
        # the render generator runs the real front end in-process to collect real diagnostics: a front end
        # that aborts takes it down. With a concrete crash already in hand that is a consequence, not a
        # machinery problem; without one it is recorded as a broken stream.
        try:
            renderlib.render_streams(ck, ck.tier)
            renderlib.render_mem_oracle(ck)
        except MachineryError as e:
            if not (crashed or pipelib.crashes(ck)) and "generator render failed" not in str(e):
                raise
            ck.broken.append({"kind": "render-stream-died", "family": "render",
                              "what": "the render generator / stream died while running the real front end in-process",
                              "error": str(e)[-300:]})
    ck.count("front_end_no_return_cases", len(pipelib.crashes(ck)))
    # large ordinary sources through the real binary: the front end's memory use must stay proportionate
    scale_fails = scalelib.scale_stream(ck, 20000 if quick else 30000)
    if ck.tier == "thorough":
        ck.leanchecker(mods)
    if crashed:
        r, a = min(crashed, key=lambda x: len(x[0]))
        how = a.rstrip().rsplit("end=", 1)[-1] if "end=" in a else a.split(" ", 1)[0]
        src, req = resolvelib.shrink(ck, r, "crash", budget=100, budget_s=150)
        ck.report_violation({"kind": "impl-vs-oracle", "family": "resolve", "what": "the static checker did not return "
                             f"on this program ({how}): neither diagnostics nor facts", "requests": [req], "program": src,
                             "impl": a[:200], "failing_cases": len(crashed),
                             "replay_cmd": f"./check {ck.pid} --replay <this file>"})
    if pipelib.crashes(ck):
        ck.report_violation(pipelib.crash_report(ck, pipelib.crashes(ck)))
    if scale_fails:
        ck.report_violation(scalelib.report(ck, scale_fails))
    if crashed or pipelib.crashes(ck) or scale_fails:
        return ck.finish()
    if ck.is_broken():
        dispatch(ck, out, renderlib)
    return ck.finish()


def family_of_broken(b):
    text = " ".join(str(v) for v in b.values())
    for key, fam in (("Render", "render"), ("render", "render"), ("Lexical", "lex"), ("C07Lex", "lex"), ("Lex", "lex"),
                     ("Pratt", "parse"), ("C07Parse", "parse"), ("Parse", "parse"), ("TypeRules", "resolve"),
                     ("Builtins", "resolve"), ("Resolve", "resolve")):
        if key in text:
            return fam
    return None


def dispatch(ck, out, renderlib):
    """Attribute what is broken to a stage and let that stage's search look for / shrink the failing input.
    Concrete failures (oracle, then disagreements) take precedence over broken obligations."""
    fams = [f.get("family") for f in ck.oracle_fails] + [d.get("family") for d in ck.disagreements]
    fams += [family_of_broken(b) for b in ck.broken]
    fam = next((f for f in fams if f), None)
    if fam == "lex":
        lexlib.lex_search(ck, "C07")
    elif fam == "parse":
        parselib.parse_search(ck)
    elif fam == "resolve":
        resolvelib.resolve_search(ck, out)
    elif fam == "render" and renderlib is not None:
        renderlib.render_search(ck)
    else:
        rep = pipelib.report(ck, "composed front-end model and real front end disagree")
        if rep is not None:
            ck.report_violation(rep, no_input_found=(rep["kind"] != "impl-vs-oracle"))
        else:
            ck.report_violation({"kind": "tie-broken", "broken": ck.broken[:10], "requests": []}, no_input_found=True)


def replay(ck, data):
    fam = data.get("family")
    if fam == "scale":
        return scalelib.replay(ck, data)
    if fam == "pipe":
        return pipelib.replay(ck, data)
    if fam == "resolve":
        return resolvelib.resolve_replay(ck, data)
    if fam == "render":
        return importlib.import_module("renderlib").render_replay(ck, data)
    if fam == "parse" or any(str(r).startswith("parse ") for r in data.get("requests", [])):
        return parselib.replay(ck, data)
    return lexlib.lex_replay(ck, data)
