"""C10 — layout is insignificant: whitespace and comments never change meaning.

Proof: lean/NaijaVerif/Props/C10.lean (assembly), C10Lex.lean (every valid layout of every token sequence
lexes to that sequence; full round trip), C10Parse.lean (parsing commutes with span erasure; redundant
parentheses). Tie: lexer re-layout stream, parser same-token pairs, and the composed Lean pipeline vs the
real pipeline on re-laid-out programs. Implementation-level oracle (no model): a program and a re-layout
of it must be accepted alike and print the same values / end alike (ORACLE-FAIL [C10])."""
import lexlib
import parselib
import pipelib
from common import Check

MODULES = ["NaijaVerif.Props.C10Lex", "NaijaVerif.Props.C10Parse", "NaijaVerif.Props.C10"]


def run(ck: Check):
    ck.rule = ("token sequences (shipped programs, windows, synthesised) in 7 layouts each for the lexer; same-token "
               "pairs and redundant-parenthesis pairs for the parser; generated programs re-laid-out (one token per "
               "line, minimal separators, comment after every token, CRLF, lone CR, random separators/comments, "
               "re-spaced multi-word keywords) through the whole real pipeline and the composed Lean pipeline; "
               "non-trivial = the text produces at least one real token / the program runs; distinct by request text")
    ck.build_harness()
    ck.gen_tables()
    ck.lean_obligations(MODULES)
    ck.build_driver(["Lex", "Parse", "Pipe"])
    quick = ck.tier == "quick"
    # all streams first, attribution afterwards (a broken obligation of one stage must not hide a concrete
    # failing input another stage's stream produces)
    lexlib.lex_streams(ck, ck.tier, only=["relayout"])
    parselib.run_pairs(ck, 1000 if quick else 20000)
    pipelib.pipe_stream(ck, "layouts", 600 if quick else 20000)
    if ck.tier == "thorough":
        ck.leanchecker(MODULES)
    if ck.is_broken():
        fams = [f.get("family") for f in ck.oracle_fails] + [d.get("family") for d in ck.disagreements]
        for b in ck.broken:
            t = " ".join(str(v) for v in b.values())
            fams.append("lex" if ("Lex" in t or "Lexical" in t) else "parse" if ("Parse" in t or "Pratt" in t) else None)
        fam = next((f for f in fams if f), None)
        if fam == "lex":
            lexlib.lex_search(ck, "C10")
        elif fam == "parse":
            parselib.parse_search(ck)
        else:
            rep = pipelib.report(ck, "composed model and real pipeline disagree on a re-laid-out program")
            if rep is not None:
                rep["broken"] = ck.broken[:5]
                ck.report_violation(rep, no_input_found=(rep["kind"] != "impl-vs-oracle"))
            else:
                ck.report_violation({"kind": "tie-broken", "broken": ck.broken[:10], "requests": []}, no_input_found=True)
    return ck.finish()


def replay(ck, data):
    fam = data.get("family")
    if fam == "pipe":
        return pipelib.replay(ck, data)
    if fam == "parse" or any(str(r).startswith("parse ") for r in data.get("requests", [])):
        return parselib.replay(ck, data)
    return lexlib.lex_replay(ck, data)
