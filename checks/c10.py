"""C10 — layout is insignificant: whitespace and comments never change meaning.

Proof: lean/NaijaVerif/Props/C10.lean (assembly), C10Lex.lean (every valid layout of every token sequence
lexes to that sequence; full round trip), C10Parse.lean (parsing commutes with span erasure; redundant
parentheses). Tie: lexer re-layout stream, parser same-token pairs, and the composed Lean pipeline vs the
real pipeline on re-laid-out programs and on programs with REDUNDANT PARENTHESES around primaries in every
syntactic position (operand of a unary operator, head of a postfix chain, callee, receiver literal,
argument, index, element …). Implementation-level oracles (no model): a program and a re-layout /
parenthesisation of it must parse to the same tree modulo spans (parser pairs), be accepted alike and
print the same values / end alike (ORACLE-FAIL [C10])."""
import os

import lexlib
import parselib
import pipelib
from common import VERIF, Check

MODULES = ["NaijaVerif.Props.C10Lex", "NaijaVerif.Props.C10Parse", "NaijaVerif.Props.C10"]


def run(ck: Check):
    ck.rule = ("token sequences (shipped programs, windows, synthesised) in 7 layouts each for the lexer; same-token "
               "pairs and redundant-parenthesis pairs for the parser (wrap points: every `parse_expression(0)` position, "
               "every atom, the head and every prefix of a postfix chain also under a unary operator, callee names, "
               "receiver literals); generated programs with parentheses around literals and identifiers in expression "
               "position through the whole pipeline (same verdict, same output); generated programs re-laid-out (one token per "
               "line, minimal separators, comment after every token, CRLF, lone CR, random separators/comments, "
               "re-spaced multi-word keywords) through the whole real pipeline and the composed Lean pipeline; "
               "non-trivial = the text produces at least one real token / the program runs; distinct by request text")
    ck.build_harness()
    ck.gen_tables()
    ck.lean_obligations(MODULES)
    ck.build_driver(["Lex", "Parse", "Pipe"])
    quick = ck.tier == "quick"
    # all streams first, attribution afterwards (a broken obligation of one stage must not hide a concrete
    # failing input another stage's stream produces)
    lexlib.lex_streams(ck, ck.tier, only=["relayout"])
    parselib.run_pairs(ck, 1000 if quick else 20000)
    pipelib.pipe_stream(ck, "layouts", 600 if quick else 20000)
    reqs, res = pipelib.pipe_stream(ck, "parens", 300 if quick else 10000, extra=corpus_pairs())
    ck.count("paren_pairs", sum(1 for r in reqs if r.startswith("pair ")))
    ck.count("paren_pairs_run_to_the_end", sum(1 for r, a in zip(reqs, res["model_lines"]) if r.startswith("src ") and a.startswith("stage=run")))
    if ck.tier == "thorough":
        ck.leanchecker(MODULES)
    if ck.is_broken():
        fams = [f.get("family") for f in ck.oracle_fails] + [d.get("family") for d in ck.disagreements]
        for b in ck.broken:
            t = " ".join(str(v) for v in b.values())
            fams.append("lex" if ("Lex" in t or "Lexical" in t) else "parse" if ("Parse" in t or "Pratt" in t) else None)
        fam = next((f for f in fams if f), None)
        # a concrete failing input of the whole pipeline (two texts that differ only in layout / redundant
        # parentheses and behave differently) is reported whichever stage is attributed below
        pipe_fails = [f for f in ck.oracle_fails if f.get("family") == pipelib.FAMILY]
        if pipe_fails and fam in ("lex", "parse"):
            rep = pipelib.report(ck, "two texts that differ only in layout / redundant parentheses behave differently")
            if rep is not None and rep["kind"] == "impl-vs-oracle":
                ck.report_violation(rep)
        if fam in ("lex", "parse"):
            # the stage's own search reads ck.oracle_fails / ck.disagreements: only its own request format
            hidden_o = [f for f in ck.oracle_fails if f.get("family") == pipelib.FAMILY]
            hidden_d = [d for d in ck.disagreements if d.get("family") == pipelib.FAMILY]
            ck.oracle_fails[:] = [f for f in ck.oracle_fails if f.get("family") != pipelib.FAMILY]
            ck.disagreements[:] = [d for d in ck.disagreements if d.get("family") != pipelib.FAMILY]
            try:
                if fam == "lex":
                    lexlib.lex_search(ck, "C10")
                else:
                    parselib.parse_search(ck)
            finally:
                ck.oracle_fails.extend(hidden_o)
                ck.disagreements.extend(hidden_d)
        else:
            rep = pipelib.report(ck, "composed model and real pipeline disagree on a re-laid-out program")
            if rep is not None:
                rep["broken"] = ck.broken[:5]
                ck.report_violation(rep, no_input_found=(rep["kind"] != "impl-vs-oracle"))
            else:
                ck.report_violation({"kind": "tie-broken", "broken": ck.broken[:10], "requests": []}, no_input_found=True)
    return ck.finish()


def corpus_pairs():
    """`pair` requests of corpus/C10/pairs.src: `<program> ||| <the same with redundant parentheses>` per
    line, `\\n` = newline, `##` comments."""
    path = os.path.join(VERIF, "corpus", "C10", "pairs.src")
    out = []
    if os.path.exists(path):
        for line in open(path, encoding="utf-8").read().split("\n"):
            if line.strip() and not line.startswith("##") and " ||| " in line:
                a, b = line.replace("\\n", "\n").split(" ||| ", 1)
                out.append(pipelib.pair_request(a, b))
    return out


def replay(ck, data):
    fam = data.get("family")
    if fam == "pipe":
        return pipelib.replay(ck, data)
    if fam == "parse" or any(str(r).startswith("parse ") for r in data.get("requests", [])):
        return parselib.replay(ck, data)
    return lexlib.lex_replay(ck, data)
