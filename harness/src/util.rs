//! Shared helpers: PRNG, hex, argument parsing, panic capture.

use std::io::{BufRead, Write};
use std::panic::{self, AssertUnwindSafe};

/// SplitMix64 — the single source of randomness (seeded from VERIF_SEED).
#[derive(Clone)]
pub struct Rng(pub u64);

impl Rng {
    pub fn new(seed: u64) -> Self {
        // Run the seed through the output mix once: consecutive seeds must not yield
        // one-draw-shifted copies of the same stream.
        let mut r = Rng(seed ^ 0x1234_5678_9ABC_DEF1);
        let a = r.next();
        let b = r.next();
        Rng(a ^ b.rotate_left(32))
    }
    pub fn next(&mut self) -> u64 {
        self.0 = self.0.wrapping_add(0x9E37_79B9_7F4A_7C15);
        let mut z = self.0;
        z = (z ^ (z >> 30)).wrapping_mul(0xBF58_476D_1CE4_E5B9);
        z = (z ^ (z >> 27)).wrapping_mul(0x94D0_49BB_1331_11EB);
        z ^ (z >> 31)
    }
    /// Uniform in `0..n` (n > 0).
    pub fn below(&mut self, n: u64) -> u64 {
        self.next() % n
    }
    pub fn range(&mut self, lo: i64, hi: i64) -> i64 {
        lo + self.below((hi - lo + 1) as u64) as i64
    }
    pub fn chance(&mut self, num: u64, den: u64) -> bool {
        self.below(den) < num
    }
    pub fn pick<'a, T>(&mut self, xs: &'a [T]) -> &'a T {
        &xs[self.below(xs.len() as u64) as usize]
    }
    pub fn fork(&mut self) -> Rng {
        Rng(self.next())
    }
}

pub fn hex(bytes: &[u8]) -> String {
    if bytes.is_empty() {
        return "-".to_string();
    }
    let mut s = String::with_capacity(bytes.len() * 2);
    for b in bytes {
        s.push_str(&format!("{b:02x}"));
    }
    s
}

pub fn unhex(s: &str) -> Option<Vec<u8>> {
    if s == "-" {
        return Some(Vec::new());
    }
    if s.len() % 2 != 0 {
        return None;
    }
    (0..s.len()).step_by(2).map(|i| u8::from_str_radix(s.get(i..i + 2)?, 16).ok()).collect()
}

/// `--key value` lookup.
pub fn opt<'a>(args: &'a [String], key: &str) -> Option<&'a str> {
    args.iter().position(|a| a == key).and_then(|i| args.get(i + 1)).map(String::as_str)
}

pub fn opt_u64(args: &[String], key: &str, default: u64) -> u64 {
    opt(args, key).and_then(|v| v.parse().ok()).unwrap_or(default)
}

pub fn flag(args: &[String], key: &str) -> bool {
    args.iter().any(|a| a == key)
}

/// Run `f`, turning a panic into `Err(message)`. The default panic hook is silenced.
pub fn catch<T>(f: impl FnOnce() -> T) -> Result<T, String> {
    let r = panic::catch_unwind(AssertUnwindSafe(f));
    r.map_err(|e| {
        if let Some(s) = e.downcast_ref::<&str>() {
            (*s).to_string()
        } else if let Some(s) = e.downcast_ref::<String>() {
            s.clone()
        } else {
            "panic".to_string()
        }
    })
}

pub fn silence_panics() {
    panic::set_hook(Box::new(|_| {}));
}

pub fn stdin_lines() -> Vec<String> {
    let stdin = std::io::stdin();
    stdin.lock().lines().map(|l| l.unwrap()).collect()
}

pub struct Out {
    w: std::io::BufWriter<std::io::Stdout>,
}

impl Out {
    pub fn new() -> Self {
        Out { w: std::io::BufWriter::new(std::io::stdout()) }
    }
    pub fn line(&mut self, s: &str) {
        self.w.write_all(s.as_bytes()).unwrap();
        self.w.write_all(b"\n").unwrap();
    }
}

impl Default for Out {
    fn default() -> Self {
        Self::new()
    }
}

impl Drop for Out {
    fn drop(&mut self) {
        let _ = self.w.flush();
    }
}

/// Minimal JSON string escaping.
pub fn jstr(s: &str) -> String {
    let mut o = String::from("\"");
    for c in s.chars() {
        match c {
            '"' => o.push_str("\\\""),
            '\\' => o.push_str("\\\\"),
            '\n' => o.push_str("\\n"),
            '\r' => o.push_str("\\r"),
            '\t' => o.push_str("\\t"),
            c if (c as u32) < 0x20 => o.push_str(&format!("\\u{:04x}", c as u32)),
            c => o.push(c),
        }
    }
    o.push('"');
    o
}
