//! Program generator for family `plan` (C03): typed, mostly valid, terminating programs biased to
//! what the optimisation plan acts on — dead stores (before `comot`/`next`/`return`, overwritten,
//! read only in the next loop iteration), captured reads/writes through one, two and recursive
//! calls (may-writes behind a condition), unused and never-reassigned declarations with pure,
//! trapping (index, divide, method on a parameter) or effectful initialisers, shadowing and
//! same-scope re-declaration, dead code with definitions and calls in it, unused functions that
//! contain used ones.
//!
//! Layout rule that keeps the programs clear of the known call-before-declaration defect (D-04):
//! in every block the function definitions follow the leading declarations and every call is
//! placed after the definitions, so a function never runs before a variable it captures exists.
//! Every call passes a strictly smaller depth budget (first parameter), every loop has its own
//! counter incremented first thing in the body: all programs terminate.

use crate::util::Rng;

#[derive(Clone, Copy, PartialEq, Eq, Debug)]
enum Ty {
    N,
    B,
    S,
    A,
}

#[derive(Clone)]
struct Var {
    name: String,
    ty: Ty,
    /// loop counters and depth parameters are never assigned by generated statements
    frozen: bool,
}

#[derive(Clone)]
struct Fun {
    name: String,
    /// number of parameters after the depth parameter
    extra: usize,
}

#[derive(Default, Clone)]
struct Scope {
    vars: Vec<Var>,
    funs: Vec<Fun>,
}

pub struct G<'r> {
    rng: &'r mut Rng,
    out: String,
    scopes: Vec<Scope>,
    next: usize,
    /// name of the depth parameter when inside a function body
    depth_param: Vec<String>,
    loop_depth: Vec<usize>,
    budget: isize,
    retype: bool,
    /// index into `scopes` of the parameter scope of each enclosing function
    fn_base: Vec<usize>,
}

pub fn program(rng: &mut Rng, size: usize) -> String {
    let retype = rng.chance(1, 12);
    let mut g = G {
        rng,
        out: String::new(),
        scopes: vec![],
        next: 0,
        depth_param: vec![],
        loop_depth: vec![0],
        budget: size as isize,
        retype,
        fn_base: vec![],
    };
    g.block_body(0, true);
    g.out
}

impl G<'_> {
    fn emit(&mut self, s: &str) {
        self.out.push_str(s);
        self.out.push('\n');
    }

    fn fresh(&mut self, p: &str) -> String {
        self.next += 1;
        format!("{}{}", p, self.next)
    }

    fn vars_of(&self, ty: Ty, assignable: bool) -> Vec<Var> {
        // innermost declaration of each name wins (shadowing)
        let mut seen: Vec<String> = vec![];
        let mut r = vec![];
        for sc in self.scopes.iter().rev() {
            for v in sc.vars.iter().rev() {
                if seen.contains(&v.name) {
                    continue;
                }
                seen.push(v.name.clone());
                if v.ty == ty && !(assignable && v.frozen) {
                    r.push(v.clone());
                }
            }
        }
        r
    }

    /// Assignable variables of type `ty`; string variables of an enclosing function are left out
    /// (a callee that reassigns a captured string while the caller holds an alias of it is the
    /// known memory defect D-02a, which is not this property's business).
    fn targets(&self, ty: Ty) -> Vec<Var> {
        let base = self.fn_base.last().copied().unwrap_or(0);
        let own: Vec<String> = self.scopes[base..].iter().flat_map(|s| s.vars.iter().map(|v| v.name.clone())).collect();
        self.vars_of(ty, true).into_iter().filter(|v| ty != Ty::S || own.contains(&v.name)).collect()
    }

    fn funs(&self) -> Vec<Fun> {
        let mut seen: Vec<String> = vec![];
        let mut r = vec![];
        for sc in self.scopes.iter().rev() {
            for f in sc.funs.iter().rev() {
                if !seen.contains(&f.name) {
                    seen.push(f.name.clone());
                    r.push(f.clone());
                }
            }
        }
        r
    }

    fn in_fn(&self) -> bool {
        !self.depth_param.is_empty()
    }

    fn in_loop(&self) -> bool {
        *self.loop_depth.last().unwrap() > 0
    }

    // ------------------------------------------------------------------ expressions

    fn num(&mut self, d: usize) -> String {
        let vs = self.vars_of(Ty::N, false);
        let k = self.rng.below(if d == 0 { 4 } else { 14 });
        match k {
            0 | 1 => format!("{}", self.rng.below(6)),
            2 | 3 | 4 if !vs.is_empty() => self.rng.pick(&vs).name.clone(),
            5 => format!("{} add {}", self.num(d - 1), self.num(d - 1)),
            6 => format!("{} minus {}", self.num(d - 1), self.num(d - 1)),
            7 => format!("({} times {})", self.num(d - 1), self.num(d - 1)),
            8 => {
                let arrs = self.vars_of(Ty::A, false);
                if arrs.is_empty() {
                    format!("{}", self.rng.below(4))
                } else {
                    let a = self.rng.pick(&arrs).name.clone();
                    let idx = if self.rng.chance(1, 10) { "7".to_string() } else { format!("{}", self.rng.below(2)) };
                    format!("{a}[{idx}]")
                }
            }
            9 => {
                // divide / mod: literal non-zero divisor mostly, sometimes an expression that may be 0
                let op = if self.rng.chance(1, 2) { "divide" } else { "mod" };
                let rhs = if self.rng.chance(1, 8) { self.num(0) } else { format!("{}", 1 + self.rng.below(3)) };
                format!("({} {} {})", self.num(d - 1), op, rhs)
            }
            10 => self.call(d - 1).unwrap_or_else(|| "2".to_string()),
            11 => {
                let ss = self.vars_of(Ty::S, false);
                let arrs = self.vars_of(Ty::A, false);
                if !arrs.is_empty() && self.rng.chance(1, 2) {
                    format!("{}.len()", self.rng.pick(&arrs).name)
                } else if !ss.is_empty() {
                    format!("{}.len()", self.rng.pick(&ss).name)
                } else {
                    "\"abc\".len()".to_string()
                }
            }
            12 => format!("minus {}", self.num(0)),
            _ => format!("{}", self.rng.below(4)),
        }
    }

    fn boolean(&mut self, d: usize) -> String {
        let vs = self.vars_of(Ty::B, false);
        match self.rng.below(if d == 0 { 3 } else { 8 }) {
            0 => if self.rng.chance(1, 2) { "true" } else { "false" }.to_string(),
            1 | 2 if !vs.is_empty() => self.rng.pick(&vs).name.clone(),
            3 => format!("{} pass {}", self.num(1), self.num(0)),
            4 => format!("{} small pass {}", self.num(1), self.num(0)),
            5 => format!("{} na {}", self.num(0), self.num(0)),
            6 => format!("not ({})", self.boolean(d - 1)),
            7 => {
                let op = if self.rng.chance(1, 2) { "and" } else { "or" };
                format!("({} {} {})", self.boolean(d - 1), op, self.boolean(d - 1))
            }
            _ => format!("{} small pass {}", self.num(0), self.num(0)),
        }
    }

    fn string(&mut self, d: usize) -> String {
        let vs = self.vars_of(Ty::S, false);
        let ns = self.vars_of(Ty::N, false);
        match self.rng.below(if d == 0 { 3 } else { 7 }) {
            0 => "\"ab\"".to_string(),
            1 if !vs.is_empty() => self.rng.pick(&vs).name.clone(),
            2 if !ns.is_empty() => format!("\"v={{{}}}\"", self.rng.pick(&ns).name),
            3 => format!("{} add {}", self.string(d - 1), self.string(0)),
            4 => format!("to_string({})", self.num(d - 1)),
            5 => format!("typeof({})", self.any(0)),
            _ => "\"x\"".to_string(),
        }
    }

    fn array(&mut self, d: usize) -> String {
        let vs = self.vars_of(Ty::A, false);
        if !vs.is_empty() && self.rng.chance(1, 3) {
            return self.rng.pick(&vs).name.clone();
        }
        format!("[{}, {}, {}]", self.num(d.min(1)), self.num(0), self.num(0))
    }

    fn any(&mut self, d: usize) -> String {
        match self.rng.below(4) {
            0 => self.num(d),
            1 => self.boolean(d),
            2 => self.string(d),
            _ => self.array(d),
        }
    }

    fn of(&mut self, ty: Ty, d: usize) -> String {
        match ty {
            Ty::N => self.num(d),
            Ty::B => self.boolean(d),
            Ty::S => self.string(d),
            Ty::A => self.array(d),
        }
    }

    /// A call to a visible user function (numbers in, number out), with a strictly smaller depth.
    fn call(&mut self, d: usize) -> Option<String> {
        let fs = self.funs();
        if fs.is_empty() {
            return None;
        }
        let f = self.rng.pick(&fs).clone();
        let depth = match self.depth_param.last() {
            Some(p) => format!("{p} minus 1"),
            None => format!("{}", self.rng.below(3)),
        };
        let mut args = vec![depth];
        for _ in 0..f.extra {
            let a = self.num(d.min(1));
            args.push(a);
        }
        Some(format!("{}({})", f.name, args.join(", ")))
    }

    // ------------------------------------------------------------------ statements

    fn declare(&mut self, name: &str, ty: Ty, frozen: bool) {
        let sc = self.scopes.last_mut().unwrap();
        sc.vars.retain(|v| v.name != name);
        sc.vars.push(Var { name: name.to_string(), ty, frozen });
    }

    fn pick_ty(&mut self) -> Ty {
        match self.rng.below(8) {
            0..=3 => Ty::N,
            4 => Ty::B,
            5 => Ty::S,
            _ => Ty::A,
        }
    }

    fn decl(&mut self) {
        let mut ty = self.pick_ty();
        // shadow an outer name or re-declare one of this scope now and then (same type, so that
        // functions that captured the name keep working)
        let name = if self.rng.chance(1, 6) {
            let all: Vec<Var> = self.scopes.iter().flat_map(|s| s.vars.clone()).filter(|v| !v.frozen).collect();
            if all.is_empty() {
                self.fresh("v")
            } else {
                let v = self.rng.pick(&all).clone();
                ty = v.ty;
                v.name
            }
        } else {
            self.fresh("v")
        };
        let mut e = if ty == Ty::N && self.rng.chance(1, 6) {
            self.trapping()
        } else {
            self.of(ty, 2)
        };
        if e == name && ty == Ty::S {
            e = format!("{name} add \"\"");
        }
        self.emit(&format!("make {name} get {e}"));
        self.declare(&name, ty, false);
    }

    /// A numeric initialiser that can stop the run: index, divide, method on a parameter.
    fn trapping(&mut self) -> String {
        let arrs = self.vars_of(Ty::A, false);
        match self.rng.below(4) {
            0 if !arrs.is_empty() => format!("{}[{}]", self.rng.pick(&arrs).name, if self.rng.chance(1, 3) { 9 } else { 1 }),
            1 => format!("{} divide {}", self.num(0), self.num(0)),
            2 if self.in_fn() => {
                // the depth parameter holds a number: `.len()` is a run-time type mismatch
                let p = self.depth_param.last().unwrap().clone();
                if self.rng.chance(1, 2) { format!("{p}.len()") } else { format!("{p}.floor()") }
            }
            _ => {
                let ns = self.vars_of(Ty::N, false);
                if ns.is_empty() { "\"q\".len()".into() } else { format!("{}.floor()", self.rng.pick(&ns).name) }
            }
        }
    }

    fn assign(&mut self) {
        let ty = self.pick_ty();
        let vs = self.targets(ty);
        if vs.is_empty() {
            return self.decl();
        }
        let v = self.rng.pick(&vs).name.clone();
        if self.retype && ty == Ty::N && self.rng.chance(1, 4) {
            self.emit(&format!("{v} get \"s\""));
            return;
        }
        let mut e = self.of(ty, 2);
        if e == v && ty == Ty::S {
            e = format!("{v} add \"\""); // `s get s` is the known memory defect D-02b
        }
        self.emit(&format!("{v} get {e}"));
    }

    fn observe(&mut self) {
        let ty = self.pick_ty();
        let e = self.of(ty, 1);
        self.emit(&format!("shout({e})"));
    }

    fn simple(&mut self) {
        match self.rng.below(12) {
            0..=3 => self.assign(),
            4 | 5 => self.decl(),
            6..=8 => self.observe(),
            9 => {
                if let Some(c) = self.call(1) {
                    self.emit(&c);
                } else {
                    self.observe();
                }
            }
            10 => {
                let arrs = self.vars_of(Ty::A, true);
                if arrs.is_empty() {
                    self.assign();
                } else {
                    let a = self.rng.pick(&arrs).name.clone();
                    let e = self.num(1);
                    if self.rng.chance(1, 2) {
                        self.emit(&format!("{a}.push({e})"));
                    } else {
                        let k = self.rng.below(3);
                        self.emit(&format!("{a}[{k}] get {e}"));
                    }
                }
            }
            _ => {
                // a store directly followed by a store to the same variable, or declaration + reassignment
                let vs = self.vars_of(Ty::N, true);
                if vs.is_empty() {
                    let n = self.fresh("v");
                    let e = self.num(1);
                    self.emit(&format!("make {n} get {e}"));
                    self.declare(&n, Ty::N, false);
                    let e2 = self.num(1);
                    self.emit(&format!("{n} get {e2}"));
                } else {
                    let v = self.rng.pick(&vs).name.clone();
                    let e = self.num(1);
                    let e2 = self.num(1);
                    self.emit(&format!("{v} get {e}"));
                    self.emit(&format!("{v} get {e2}"));
                }
            }
        }
    }

    fn function_def(&mut self, f: &Fun, nest: usize) {
        let d = self.fresh("d");
        let mut params = vec![d.clone()];
        let mut ps = vec![];
        for _ in 0..f.extra {
            let p = self.fresh("p");
            params.push(p.clone());
            ps.push(p);
        }
        self.emit(&format!("do {}({}) start", f.name, params.join(", ")));
        // parameter scope
        self.fn_base.push(self.scopes.len());
        self.scopes.push(Scope::default());
        self.declare(&d, Ty::N, true);
        for p in &ps {
            self.declare(p, Ty::N, false);
        }
        self.depth_param.push(d.clone());
        self.loop_depth.push(0);
        self.scopes.push(Scope::default());
        let base = self.rng.below(3);
        self.emit(&format!("if to say ({d} small pass 1) start return {base} end"));
        // captured writes, often behind a condition (may-write)
        if self.rng.chance(1, 2) {
            let outer: Vec<Var> = self.vars_of(Ty::N, true).into_iter().filter(|v| !ps.contains(&v.name)).collect();
            if !outer.is_empty() {
                let v = self.rng.pick(&outer).name.clone();
                let e = self.num(1);
                if self.rng.chance(1, 2) {
                    let c = self.boolean(1);
                    self.emit(&format!("if to say ({c}) start {v} get {e} end"));
                } else {
                    self.emit(&format!("{v} get {e}"));
                }
            }
        }
        self.stmts(nest + 1, false);
        let r = self.num(1);
        self.emit(&format!("return {r}"));
        if self.rng.chance(1, 8) {
            self.observe(); // dead tail
        }
        self.scopes.pop();
        self.loop_depth.pop();
        self.depth_param.pop();
        self.scopes.pop();
        self.fn_base.pop();
        self.emit("end");
    }

    /// Leading declarations, function definitions, statements.
    fn block_body(&mut self, nest: usize, root: bool) {
        self.scopes.push(Scope::default());
        let ndecl = if root { 2 + self.rng.below(3) } else { self.rng.below(3) };
        for _ in 0..ndecl {
            self.decl();
        }
        self.stmts(nest, root);
        self.scopes.pop();
    }

    fn stmts(&mut self, nest: usize, root: bool) {
        // function definitions of this block
        let nf = if nest >= 2 {
            0
        } else if root {
            1 + self.rng.below(3)
        } else {
            self.rng.below(5) / 3
        };
        let mut defs = vec![];
        for _ in 0..nf {
            let f = Fun { name: self.fresh("f"), extra: self.rng.below(2) as usize };
            self.scopes.last_mut().unwrap().funs.push(f.clone());
            defs.push(f);
        }
        for f in &defs {
            self.function_def(f, nest);
        }
        let n = if root { 4 + self.rng.below(6) } else { 1 + self.rng.below(4) };
        let mut dead = false;
        for _ in 0..n {
            if self.budget <= 0 && !root {
                break;
            }
            self.budget -= 1;
            if dead && self.rng.chance(1, 2) {
                break;
            }
            if dead && self.rng.chance(1, 4) && nest < 2 {
                // a definition in dead code, called from dead code only (or never)
                let f = Fun { name: self.fresh("f"), extra: 0 };
                self.function_def(&f, nest + 1);
                if self.rng.chance(1, 2) {
                    let depth = match self.depth_param.last() {
                        Some(p) => format!("{p} minus 1"),
                        None => "1".to_string(),
                    };
                    self.emit(&format!("{}({depth})", f.name));
                }
                continue;
            }
            let k = self.rng.below(20);
            match k {
                0..=10 => self.simple(),
                11 | 12 if nest < 3 => {
                    let c = self.boolean(2);
                    self.emit(&format!("if to say ({c}) start"));
                    self.block_body(nest + 1, false);
                    if self.rng.chance(1, 2) {
                        self.emit("end if not so start");
                        self.block_body(nest + 1, false);
                    }
                    self.emit("end");
                }
                13 | 14 if nest < 3 => {
                    let i = self.fresh("i");
                    self.emit(&format!("make {i} get 0"));
                    self.declare(&i, Ty::N, true);
                    let bound = 1 + self.rng.below(3);
                    self.emit(&format!("jasi ({i} small pass {bound}) start"));
                    *self.loop_depth.last_mut().unwrap() += 1;
                    self.scopes.push(Scope::default());
                    self.emit(&format!("{i} get {i} add 1"));
                    // value read at the top of the body, stored at the bottom: live across the back edge only
                    let carried = self.vars_of(Ty::N, true);
                    let carry = if !carried.is_empty() && self.rng.chance(1, 2) { Some(self.rng.pick(&carried).name.clone()) } else { None };
                    if let Some(v) = &carry {
                        self.emit(&format!("shout({v})"));
                    }
                    let nd = self.rng.below(2);
                    for _ in 0..nd {
                        self.decl();
                    }
                    self.stmts(nest + 1, false);
                    if let Some(v) = &carry {
                        let e = self.num(1);
                        self.emit(&format!("{v} get {e}"));
                    }
                    self.scopes.pop();
                    *self.loop_depth.last_mut().unwrap() -= 1;
                    self.emit("end");
                }
                15 if nest < 3 => {
                    self.emit("start");
                    self.block_body(nest + 1, false);
                    self.emit("end");
                }
                16 | 17 if self.in_loop() => {
                    // a store right before leaving the iteration
                    if self.rng.chance(2, 3) {
                        self.assign();
                    }
                    let leave = if self.rng.chance(1, 2) { "comot" } else { "next" };
                    self.emit(leave);
                    dead = true;
                }
                18 if self.in_fn() => {
                    if self.rng.chance(2, 3) {
                        self.assign();
                    }
                    let r = self.num(1);
                    self.emit(&format!("return {r}"));
                    dead = true;
                }
                _ => self.simple(),
            }
        }
    }
}

// ------------------------------------------------------------------------------------------------
// Dedicated shapes (mixed into the stream by `plan gen`)

/// Function definitions written after a `return` / `comot` / `next` of their block — unreachable
/// as statements ("dead code"), yet callable, because definitions are hoisted when the block is
/// entered — that ARE called: from reachable statements of the same block, from nested blocks and
/// loops, from another hoisted function, recursively.  A plan that drops such a definition makes
/// the pruned run fail in the function lookup.
pub fn hoisted_after_dead(rng: &mut Rng) -> String {
    let mut o = String::new();
    let mut id = 0usize;
    let scenarios = 1 + rng.below(3);
    for _ in 0..scenarios {
        id += 1;
        let f = format!("a{id}");
        let h = format!("h{id}");
        let g = format!("g{id}");
        let c = rng.below(40);
        let a = 1 + rng.below(4);
        let op = *rng.pick(&["add", "times", "minus"]);
        match rng.below(9) {
            0 => {
                // function body: call before the `return`, definition after it
                o.push_str(&format!("do {f}(x) start\nmake r get {h}(x) add 1\nreturn r\ndo {h}(y) start return y {op} {c} end\nend\nshout({f}({a}))\n"));
            }
            1 => {
                // called from a nested `if` block and a loop of the body
                o.push_str(&format!(
                    "do {f}(x) start\nmake t get 0\nif to say (x pass 0) start t get {h}(x) end\nmake i{id} get 0\njasi (i{id} small pass 2) start i{id} get i{id} add 1 t get t add {h}(i{id}) end\nreturn t\ndo {h}(y) start return y {op} {c} end\nend\nshout({f}({a}))\nshout({f}(0))\n"));
            }
            2 => {
                // definition after the `return` of a NESTED block, called earlier in that block
                o.push_str(&format!(
                    "do {f}(x) start\nif to say (x pass 0) start\nmake t get {h}(x)\nreturn t add 1\ndo {h}(y) start return y {op} {c} end\nend\nreturn 0\nend\nshout({f}({a}))\nshout({f}(0))\n"));
            }
            3 => {
                // top-level loop body: definition after `next` / `comot`
                let leave = if rng.chance(1, 2) { "next" } else { "comot" };
                o.push_str(&format!(
                    "make i{id} get 0\nmake s{id} get 0\njasi (i{id} small pass 3) start\ni{id} get i{id} add 1\ns{id} get s{id} add {h}(i{id})\n{leave}\ndo {h}(y) start return y {op} {c} end\nend\nshout(s{id})\n"));
            }
            4 => {
                // called from another hoisted function that is defined before the `return`
                o.push_str(&format!(
                    "do {f}(x) start\ndo {g}(y) start return {h}(y) add 1 end\nreturn {g}(x)\ndo {h}(z) start return z {op} {c} end\nend\nshout({f}({a}))\n"));
            }
            5 => {
                // bare block inside a function
                o.push_str(&format!(
                    "do {f}(x) start\nstart\nshout({h}(x))\nreturn 1\ndo {h}(y) start return y {op} {c} end\nend\nreturn 0\nend\nshout({f}({a}))\n"));
            }
            6 => {
                // recursive function defined after the `return`
                o.push_str(&format!(
                    "do {f}(x) start\nreturn {g}(x)\ndo {g}(n) start if to say (n small pass 1) start return {c} end return n add {g}(n minus 1) end\nend\nshout({f}({a}))\n"));
            }
            7 => {
                // after an `if` whose branches both return; the callee reads a variable declared before the call
                o.push_str(&format!(
                    "do {f}(x) start\nmake b get {c}\nmake r get {h}(x)\nif to say (x pass 0) start return r end if not so start return 0 minus r end\ndo {h}(y) start return y {op} b end\nend\nshout({f}({a}))\nshout({f}(0))\n"));
            }
            _ => {
                // controls: a dead definition nobody calls, and one called only from dead code
                o.push_str(&format!(
                    "do {f}(x) start\nreturn x add {c}\ndo {h}(y) start return y end\nshout({g}(1))\ndo {g}(z) start return z end\nend\nshout({f}({a}))\n"));
            }
        }
    }
    o
}

/// Functions and scripts with 33–140 locals (parameters, variables, the locals of a nested function
/// in between) and store / store / read patterns between locals whose indices differ by 32 and 64:
/// what a liveness bit set indexed modulo the wrong word size gets wrong.
pub fn many_locals(rng: &mut Rng) -> String {
    let n = 33 + rng.below(108) as usize;
    let in_fn = rng.chance(1, 2);
    let nparams = if in_fn { rng.below(4) as usize } else { 0 };
    let nested_at = if rng.chance(1, 2) { Some(nparams + rng.below((n - nparams) as u64) as usize) } else { None };
    let mut o = String::new();
    // accessible locals by local index (None: a local of the nested function)
    let mut ids: Vec<Option<String>> = vec![];
    if in_fn {
        let ps: Vec<String> = (0..nparams).map(|k| format!("p{k}")).collect();
        o.push_str(&format!("do big({}) start\n", ps.join(", ")));
        for p in ps {
            ids.push(Some(p));
        }
    }
    let mut k = 0usize;
    while ids.len() < n {
        if Some(ids.len()) == nested_at {
            let m = 1 + rng.below(5) as usize;
            o.push_str("do inner(q) start\n");
            ids.push(None);
            for j in 0..m {
                o.push_str(&format!("make w{j} get q add {j}\n"));
                ids.push(None);
            }
            o.push_str("return w0\nend\n");
            continue;
        }
        o.push_str(&format!("make v{k} get {k}\n"));
        ids.push(Some(format!("v{k}")));
        k += 1;
    }
    let npat = 2 + rng.below(5);
    for _ in 0..npat {
        let dist = if ids.len() > 64 && rng.chance(1, 3) { 64 } else { 32 };
        let p = rng.below((ids.len() - dist) as u64) as usize;
        let (a, b) = match (&ids[p], &ids[p + dist]) {
            (Some(a), Some(b)) => (a.clone(), b.clone()),
            _ => continue,
        };
        let c1 = 100 + rng.below(100);
        let c2 = 200 + rng.below(100);
        match rng.below(4) {
            0 => o.push_str(&format!("{a} get {c1}\n{b} get {c2}\nshout({a})\n")),
            1 => o.push_str(&format!("{b} get {c1}\n{a} get {c2}\nshout({b})\n")),
            2 => o.push_str(&format!("{a} get {c1}\n{b} get {c2}\nshout({a} add {b})\n")),
            _ => o.push_str(&format!("{a} get {c1}\n{a} get {c2}\n{b} get {c1}\nshout({a})\nshout({b})\n")),
        }
    }
    o.push_str("make acc get 0\n");
    for id in ids.iter().flatten() {
        o.push_str(&format!("acc get acc add {id}\n"));
    }
    if nested_at.is_some() {
        o.push_str("acc get acc add inner(1)\n");
    }
    if in_fn {
        let args: Vec<String> = (0..nparams).map(|k| format!("{}", k + 1)).collect();
        o.push_str(&format!("return acc\nend\nshout(big({}))\n", args.join(", ")));
    } else {
        o.push_str("shout(acc)\n");
    }
    o
}

/// Recursive components whose capture effects must travel several hops AGAINST definition order
/// before the summaries are right (seed C03-c2: a fixpoint that stops as soon as the last merge of
/// the last member adds nothing): 3–7 mutually recursive functions on a ring with extra chords and
/// back edges, only one or two of which read or write a captured variable, and stores to that
/// variable placed directly before calls into arbitrary members — every such store is live exactly
/// when the called member reaches a reader.
pub fn scc_capture(rng: &mut Rng) -> String {
    let k = 3 + rng.below(5) as usize;
    let tag = rng.below(90) + 10;
    let f = |i: usize| format!("r{tag}_{i}");
    let var = *rng.pick(&["mode", "state", "acc"]);
    let readers: Vec<usize> = (0..1 + rng.below(2)).map(|_| rng.below(k as u64) as usize).collect();
    let writer = if rng.chance(1, 3) { Some(rng.below(k as u64) as usize) } else { None };
    let backward = rng.chance(1, 2);
    let mut o = format!("make {var} get \"old\"\n");
    // optionally the whole component lives inside a function that owns the variable
    let nested = rng.chance(1, 3);
    if nested {
        o = format!("do outer{tag}(seed) start\nmake {var} get \"old\"\n");
    }
    for i in 0..k {
        let next = if backward { (i + k - 1) % k } else { (i + 1) % k };
        let mut body = String::new();
        if readers.contains(&i) {
            body.push_str(&format!("shout({var})\n"));
        }
        if writer == Some(i) {
            body.push_str(&format!("if to say (n na 2) start {var} get \"w{i}\" end\n"));
        }
        body.push_str("if to say (n small pass 1) start return 0 end\n");
        let mut calls = vec![format!("{}(n minus 1)", f(next))];
        for _ in 0..rng.below(3) {
            // chords and back edges; `(0)` calls end at once but still count for the call graph
            let j = rng.below(k as u64) as usize;
            calls.push(if rng.chance(1, 2) { format!("{}(0)", f(j)) } else { format!("{}(n minus 2)", f(j)) });
        }
        body.push_str(&format!("return {} add 1\n", calls.join(" add ")));
        o.push_str(&format!("do {}(n) start\n{body}end\n", f(i)));
    }
    let rounds = 2 + rng.below(3);
    for r in 0..rounds {
        let target = rng.below(k as u64) as usize;
        let depth = 1 + rng.below(k as u64 + 2);
        o.push_str(&format!("{var} get \"v{r}\"\n"));
        match rng.below(4) {
            0 => o.push_str(&format!("{}({depth})\n", f(target))),
            1 => o.push_str(&format!("make t{r} get {}({depth})\n", f(target))),
            2 => o.push_str(&format!("shout({}({depth}))\n", f(target))),
            _ => o.push_str(&format!("if to say ({}({depth}) pass 0) start shout(\"p{r}\") end\n", f(target))),
        }
    }
    if rng.chance(1, 2) {
        o.push_str(&format!("{var} get \"last\"\n"));
    }
    if rng.chance(2, 3) {
        o.push_str(&format!("shout({var})\n"));
    }
    if nested {
        o.push_str(&format!("return 0\nend\nshout(outer{tag}(1))\n"));
    }
    o
}

/// Prunable-looking stores whose initialiser calls SEVERAL distinct user functions of different effect
/// classes (seed C03-d2: the effective class of a statement folded over its callees with an early exit,
/// so only the first recorded callee counted): pure helpers mixed, in every order and nesting, with
/// helpers that print, write a captured variable, or may trap; the stored variable is never read, or
/// overwritten before it is read.
pub fn multi_callee_store(rng: &mut Rng) -> String {
    let tag = rng.below(90) + 10;
    let mut o = format!("make calls{tag} get 0\n");
    // helpers: (name, definition, call text generator index)
    let pure1 = format!("p{tag}a");
    let pure2 = format!("p{tag}b");
    let noisy = format!("n{tag}");
    let writer = format!("w{tag}");
    let trap = format!("t{tag}");
    o.push_str(&format!("do {pure1}(v) start return v end\n"));
    o.push_str(&format!("do {pure2}() start return 1 end\n"));
    o.push_str(&format!("do {noisy}(s) start shout(\"noisy \" add s) return 2 end\n"));
    o.push_str(&format!("do {writer}() start calls{tag} get calls{tag} add 1 return 3 end\n"));
    o.push_str(&format!("do {trap}(d) start return 7 divide d end\n"));
    let scenarios = 2 + rng.below(3);
    for k in 0..scenarios {
        let v = format!("u{tag}_{k}");
        let eff = match rng.below(4) {
            0 => format!("{noisy}(\"k{k}\")"),
            1 => format!("{writer}()"),
            2 => format!("{trap}({})", if rng.chance(1, 2) { "0" } else { "2" }),
            _ => format!("{noisy}(\"x\") add {writer}()"),
        };
        let p1 = format!("{pure1}({})", rng.below(9));
        let p2 = format!("{pure2}()");
        // every position of the effectful callee relative to the pure ones
        let init = match rng.below(8) {
            0 => format!("{pure1}({eff})"),                 // pure outermost, effect as its argument
            1 => format!("[{p2}, {eff}]"),                  // pure leftmost in a literal
            2 => format!("[{eff}, {p2}]"),
            3 => format!("{p1} add {eff}"),
            4 => format!("{eff} add {p1}"),
            5 => format!("{pure1}({pure1}({eff}))"),
            6 => format!("[{p2}, {p1}, {eff}, {p2}]"),
            _ => format!("{pure1}([{p2}, {eff}][1])"),
        };
        match rng.below(3) {
            0 => o.push_str(&format!("make {v} get {init}\n")),
            1 => o.push_str(&format!("make {v} get 0\n{v} get {init}\n{v} get 5\nshout({v})\n")),
            _ => o.push_str(&format!("do h{tag}_{k}() start make {v} get {init} return 0 end\nshout(h{tag}_{k}())\n")),
        }
        o.push_str(&format!("shout(calls{tag})\n"));
    }
    // stores whose initialiser MUTATES another variable through a method (the statement writes two locals: the
    // receiver and its target), read or not read afterwards
    let arr = format!("xs{tag}");
    o.push_str(&format!("make {arr} get [1, 2, 3, 4]\n"));
    for k in 0..1 + rng.below(3) {
        let v = format!("m{tag}_{k}");
        let call = match rng.below(3) {
            0 => format!("{arr}.pop()"),
            1 => format!("{arr}.push({k})"),
            _ => format!("{arr}.reverse()"),
        };
        match rng.below(3) {
            0 => o.push_str(&format!("make {v} get {call}\n")),
            1 => o.push_str(&format!("make {v} get {call}\nshout({v})\n")),
            _ => o.push_str(&format!("make {v} get 0\n{v} get {call}\n{v} get 9\nshout({v})\n")),
        }
        if rng.chance(1, 2) {
            o.push_str(&format!("shout({arr})\n"));
        }
    }
    o.push_str("shout(\"end\")\n");
    o
}
