//! Family `strs` (C13): the string built-ins `find`, `replace`, `slice`, `len`, `split`, `join`,
//! `to_uppercase`, `to_lowercase`, `trim`, `to_number`, called in-process.
//!
//! Protocol (one request per line, one answer per line; words separated by single spaces; every
//! payload is the lowercase hex of the UTF-8 bytes, `-` = empty):
//! ```text
//! find <H> <N>              -> <index> | none | panic        byte offset (decimal) from builtins::find
//! replace <H> <F> <T>       -> <hex> utf8=<0|1> | panic      builtins::replace
//! slice <S> <bitsA> <bitsB> -> <hex> utf8=<0|1> | panic      bits = 16 hex digits of f64::to_bits
//! len <S>                   -> <n>
//! split <S> <P>             -> <hex>,<hex>,... utf8=<0|1>    pieces in order
//! splitjoin <S> <P>         -> <hex>                         join(split(s, p), p)
//! upper <S> | lower <S> | trim <S> -> <hex>
//! tonumber <S>              -> <16 hex digits of to_bits> | nan
//! hang                      -> timeout                       (test request for the watchdog only)
//! ```
//! Unknown operation, wrong number of words, or `slice` bounds that are not 16 hex digits →
//! `bad-op`; otherwise a payload that is not hex (`[0-9a-fA-F]`, even length, or `-`) or not valid
//! UTF-8 → `bad-utf8`. A panic inside a case → `panic`; a case that does not answer within the
//! limit → `timeout` (see `run`).
//!
//! `run` also evaluates an implementation-level oracle that needs no model (naive search, Rust
//! `std`, an independent re-computation of `slice`) and reports `ORACLE-FAIL <line> <what>` on
//! stderr; a panic and a time-out are oracle failures too ("never fails").
//!
//! Sub-actions: `gen --seed S --n N [--long-bias]`, `enum --kind short|long|slice [--hmax H]
//! [--nmax K]`, `run [--base B] [--limit-ms MS] [--max-timeouts M]`.

use std::collections::BTreeMap;
use std::io::{BufWriter, Stdout, Write};
use std::process::{Command, Stdio};
use std::sync::{Arc, Mutex};
use std::time::{Duration, Instant};

use naijascript::arena::{Arena, ArenaCow, ArenaString};
use naijascript::builtins::{self, ArrayBuiltin, StringBuiltin};
use naijascript::runtime::Value;

use crate::util::{self, Out, Rng};

pub fn main(args: &[String]) -> i32 {
    match args.first().map(String::as_str) {
        Some("gen") => generate(&args[1..]),
        Some("enum") => enumerate(&args[1..]),
        Some("run") => run(&args[1..]),
        _ => {
            eprintln!(
                "usage: nvh strs gen --seed S --n N [--long-bias] | nvh strs enum --kind short|long|slice [--hmax H] [--nmax K] | nvh strs run [--base B] < requests"
            );
            2
        }
    }
}

/// Constants/tables of the compiled crate this family wants in `nvh dump-tables`
/// (JSON key, JSON value text). `SIMD_THRESHOLD` is private and is extracted by regex elsewhere.
pub fn dump_tables(_out: &mut Vec<(String, String)>) {}

// ------------------------------------------------------------------------------------------------
// run
// ------------------------------------------------------------------------------------------------

/// The arena the builtins allocate from is recreated every `ARENA_LINES` requests.
const ARENA_BYTES: usize = 64 << 20;
const ARENA_LINES: usize = 2000;

/// State shared between the thread that runs the cases and the watchdog.
struct Shared {
    w: BufWriter<Stdout>,
    /// Index (into the lines of this process) of the case that is running.
    cur: usize,
    /// When that case started.
    started: Instant,
    done: bool,
    fails: u64,
}

fn strict_unhex(s: &str) -> Option<Vec<u8>> {
    if s != "-" && !s.bytes().all(|b| b.is_ascii_hexdigit()) {
        return None;
    }
    util::unhex(s)
}

fn payload(s: &str) -> Option<String> {
    String::from_utf8(strict_unhex(s)?).ok()
}

fn bits(s: &str) -> Option<f64> {
    if s.len() != 16 || !s.bytes().all(|b| b.is_ascii_hexdigit()) {
        return None;
    }
    u64::from_str_radix(s, 16).ok().map(f64::from_bits)
}

fn show_idx(x: Option<usize>) -> String {
    x.map_or("none".to_string(), |i| i.to_string())
}

fn naive_find(h: &[u8], n: &[u8]) -> Option<usize> {
    if n.is_empty() {
        return Some(0);
    }
    if n.len() > h.len() {
        return None;
    }
    h.windows(n.len()).position(|w| w == n)
}

/// Saturating floor cast to the `isize` range, NaN ↦ 0, computed without `as isize`.
fn to_idx(x: f64) -> i128 {
    if x.is_nan() {
        return 0;
    }
    let f = x.floor();
    if f >= 9223372036854775808.0 {
        isize::MAX as i128
    } else if f < -9223372036854775808.0 {
        isize::MIN as i128
    } else {
        f as i128
    }
}

/// Independent re-computation of `slice` on code points.
fn slice_spec(s: &str, a: f64, b: f64) -> String {
    let chars: Vec<char> = s.chars().collect();
    let len = chars.len() as i128;
    let (mut a, mut b) = (to_idx(a), to_idx(b));
    if a < 0 {
        a += len;
    }
    if b < 0 {
        b += len;
    }
    let (a, b) = (a.clamp(0, len), b.clamp(0, len));
    if a >= b { String::new() } else { chars[a as usize..b as usize].iter().collect() }
}

fn words(line: &str) -> Vec<&str> {
    line.trim_matches(|c: char| c.is_ascii_whitespace()).split(' ').filter(|w| !w.is_empty()).collect()
}

/// Answer one request: (answer, oracle failures).
fn step(w: &[&str], arena: &Arena) -> (String, Vec<String>) {
    let mut fails: Vec<String> = Vec::new();
    let bad_op = || ("bad-op".to_string(), Vec::new());
    let bad_utf8 = || ("bad-utf8".to_string(), Vec::new());
    match w {
        ["find", h, n] => {
            let (Some(h), Some(n)) = (payload(h), payload(n)) else { return bad_utf8() };
            let got = builtins::find(&h, &n);
            let want = naive_find(h.as_bytes(), n.as_bytes());
            let by_std = h.find(n.as_str());
            if want != by_std {
                fails.push(format!(
                    "find: oracle inconsistent: naive {} str::find {}",
                    show_idx(want),
                    show_idx(by_std)
                ));
            }
            if got != want {
                fails.push(format!("find: got {} want {}", show_idx(got), show_idx(want)));
            }
            // the method the language calls (`StringBuiltin::find`, a wrapper around the search): the same
            // answer as a number, -1 for "not found" (seed C13-d1: a shortcut in the wrapper)
            #[allow(clippy::cast_precision_loss)]
            let as_number = want.map_or(-1.0, |v| v as f64);
            let wrapped = StringBuiltin::find(&h, &n);
            if wrapped.to_bits() != as_number.to_bits() {
                fails.push(format!("find: the string method answers {wrapped}, the search {}", show_idx(want)));
            }
            (show_idx(got), fails)
        }
        ["replace", h, f, t] => {
            let (Some(h), Some(f), Some(t)) = (payload(h), payload(f), payload(t)) else { return bad_utf8() };
            let out = builtins::replace(arena, &h, &f, &t);
            let ob = out.as_bytes();
            let valid = std::str::from_utf8(ob).is_ok();
            let want = h.replace(f.as_str(), t.as_str());
            if ob != want.as_bytes() {
                fails.push(format!("replace: got {} want {}", util::hex(ob), util::hex(want.as_bytes())));
            }
            let wrapped = StringBuiltin::replace(&h, &f, &t, arena);
            if wrapped.as_bytes() != want.as_bytes() {
                fails.push(format!("replace: the string method answers {}, want {}", util::hex(wrapped.as_bytes()), util::hex(want.as_bytes())));
            }
            if !valid {
                fails.push("replace: output is not valid UTF-8".to_string());
            }
            (format!("{} utf8={}", util::hex(ob), valid as u8), fails)
        }
        ["slice", s, a, b] => {
            let (Some(a), Some(b)) = (bits(a), bits(b)) else { return bad_op() };
            let Some(s) = payload(s) else { return bad_utf8() };
            let out = StringBuiltin::slice(&s, a, b, arena);
            let ob = out.as_bytes();
            let valid = std::str::from_utf8(ob).is_ok();
            let want = slice_spec(&s, a, b);
            if ob != want.as_bytes() {
                fails.push(format!("slice: got {} want {}", util::hex(ob), util::hex(want.as_bytes())));
            }
            if !valid {
                fails.push("slice: output is not valid UTF-8".to_string());
            }
            (format!("{} utf8={}", util::hex(ob), valid as u8), fails)
        }
        ["len", s] => {
            let Some(s) = payload(s) else { return bad_utf8() };
            let got = StringBuiltin::len(&s);
            let want = s.chars().count();
            if got != want as f64 {
                fails.push(format!("len: got {got} want {want}"));
            }
            (format!("{}", got as u64), fails)
        }
        ["split", s, p] => {
            let (Some(s), Some(p)) = (payload(s), payload(p)) else { return bad_utf8() };
            let pieces: Vec<ArenaString> = StringBuiltin::split(&s, &p, arena).collect();
            let valid = pieces.iter().all(|x| std::str::from_utf8(x.as_bytes()).is_ok());
            let want: Vec<&str> = s.split(p.as_str()).collect();
            let same = pieces.len() == want.len()
                && pieces.iter().zip(want.iter()).all(|(x, y)| x.as_bytes() == y.as_bytes());
            let shown = pieces.iter().map(|x| util::hex(x.as_bytes())).collect::<Vec<_>>().join(",");
            if !same {
                let wshown = want.iter().map(|x| util::hex(x.as_bytes())).collect::<Vec<_>>().join(",");
                fails.push(format!("split: got {shown} want {wshown}"));
            }
            if !valid {
                fails.push("split: a piece is not valid UTF-8".to_string());
            }
            (format!("{shown} utf8={}", valid as u8), fails)
        }
        ["splitjoin", s, p] => {
            let (Some(s), Some(p)) = (payload(s), payload(p)) else { return bad_utf8() };
            let mut arr: Vec<Value, &Arena> = Vec::new_in(arena);
            for piece in StringBuiltin::split(&s, &p, arena) {
                arr.push(Value::Str(ArenaCow::Owned(piece)));
            }
            let joined = ArrayBuiltin::join(&arr, &p, arena);
            let ob = joined.as_bytes();
            if ob != s.as_bytes() {
                fails.push(format!("splitjoin: got {} want {}", util::hex(ob), util::hex(s.as_bytes())));
            }
            if std::str::from_utf8(ob).is_err() {
                fails.push("splitjoin: output is not valid UTF-8".to_string());
            }
            (util::hex(ob), fails)
        }
        [op @ ("upper" | "lower" | "trim"), s] => {
            let Some(s) = payload(s) else { return bad_utf8() };
            let out = match *op {
                "upper" => StringBuiltin::to_uppercase(&s, arena),
                "lower" => StringBuiltin::to_lowercase(&s, arena),
                _ => StringBuiltin::trim(&s, arena),
            };
            let ob = out.as_bytes();
            if std::str::from_utf8(ob).is_err() {
                fails.push(format!("{op}: output is not valid UTF-8"));
            }
            // the Unicode definition, character by character (full, unconditional case mappings: one character
            // may become up to three — seed C13-d2), and Unicode White_Space for trim
            let want: String = match *op {
                "upper" => s.chars().flat_map(char::to_uppercase).collect(),
                "lower" => s.chars().flat_map(char::to_lowercase).collect(),
                _ => s.trim_matches(char::is_whitespace).to_string(),
            };
            if ob != want.as_bytes() {
                fails.push(format!("{op}: got {} want {}", util::hex(ob), util::hex(want.as_bytes())));
            }
            (util::hex(ob), fails)
        }
        ["tonumber", s] => {
            let Some(s) = payload(s) else { return bad_utf8() };
            let x = StringBuiltin::to_number(&s);
            // oracle (no model): the IEEE value of the text as std parses it, bit for bit (sign of zero
            // included); text std rejects must give NaN
            match s.parse::<f64>() {
                Ok(want) if !want.is_nan() => {
                    if x.to_bits() != want.to_bits() {
                        fails.push(format!("to_number: got bits {:016x}, the IEEE value of the text is {:016x}", x.to_bits(), want.to_bits()));
                    }
                }
                _ => {}
            }
            (if x.is_nan() { "nan".to_string() } else { format!("{:016x}", x.to_bits()) }, fails)
        }
        ["hang"] => loop {
            std::thread::sleep(Duration::from_millis(50));
        },
        _ => bad_op(),
    }
}

fn run(args: &[String]) -> i32 {
    util::silence_panics();
    let base = util::opt_u64(args, "--base", 0);
    let carry_fails = util::opt_u64(args, "--carry-fails", 0);
    let timeouts = util::opt_u64(args, "--timeouts", 0);
    let limit_ms = util::opt_u64(args, "--limit-ms", 10_000);
    let max_timeouts = util::opt_u64(args, "--max-timeouts", 8);
    let lines: Arc<Vec<String>> = Arc::new(util::stdin_lines());
    let total = base + lines.len() as u64;

    if timeouts >= max_timeouts && !lines.is_empty() {
        // Bound the run: every time-out costs the full limit.
        let mut out = Out::new();
        eprintln!(
            "ORACLE-FAIL {} non-termination: gave up after {timeouts} time-outs; the remaining {} lines are answered `skipped`",
            base + 1,
            lines.len()
        );
        for _ in lines.iter() {
            out.line("skipped");
        }
        eprintln!("ORACLE-SUMMARY fails={} lines={total}", carry_fails + 1);
        return 0;
    }

    let shared = Arc::new(Mutex::new(Shared {
        w: BufWriter::new(std::io::stdout()),
        cur: 0,
        started: Instant::now(),
        done: false,
        fails: carry_fails,
    }));

    {
        let shared = Arc::clone(&shared);
        let lines = Arc::clone(&lines);
        std::thread::spawn(move || watchdog(&shared, &lines, base, timeouts, limit_ms, max_timeouts));
    }

    for (ci, chunk) in lines.chunks(ARENA_LINES).enumerate() {
        let arena = Arena::new(ARENA_BYTES).unwrap();
        for (j, line) in chunk.iter().enumerate() {
            let i = ci * ARENA_LINES + j;
            let lineno = base + i as u64 + 1;
            let w = words(line);
            let r = util::catch(|| step(&w, &arena));
            // From here on the watchdog cannot take this case over (it needs the lock).
            let mut g = shared.lock().unwrap();
            match r {
                Ok((ans, oracle)) => {
                    let _ = writeln!(g.w, "{ans}");
                    for msg in oracle {
                        g.fails += 1;
                        eprintln!("ORACLE-FAIL {lineno} {}", msg.replace('\n', " "));
                    }
                }
                Err(msg) => {
                    let msg = msg.replace('\n', " ");
                    let _ = writeln!(g.w, "panic");
                    g.fails += 1;
                    eprintln!("PANIC {lineno} {msg}");
                    eprintln!("ORACLE-FAIL {lineno} panic: {msg}");
                }
            }
            g.cur = i + 1;
            g.started = Instant::now();
        }
    }

    let mut g = shared.lock().unwrap();
    g.done = true;
    let _ = g.w.flush();
    eprintln!("ORACLE-SUMMARY fails={} lines={total}", g.fails);
    0
}

/// Wakes every 200 ms. When the running case has exceeded the limit: answer `timeout` for it,
/// hand the remaining lines to a fresh process (`strs run --base <next>`), wait, exit 0. The lock
/// is never released after the decision, so the stuck thread cannot write any more.
fn watchdog(shared: &Mutex<Shared>, lines: &Arc<Vec<String>>, base: u64, timeouts: u64, limit_ms: u64, max_timeouts: u64) {
    let limit = Duration::from_millis(limit_ms);
    loop {
        std::thread::sleep(Duration::from_millis(200));
        let mut g = shared.lock().unwrap();
        if g.done {
            return;
        }
        if g.cur >= lines.len() || g.started.elapsed() <= limit {
            continue;
        }
        let i = g.cur;
        let _ = writeln!(g.w, "timeout");
        let _ = g.w.flush();
        let secs = if limit_ms % 1000 == 0 { format!("{}", limit_ms / 1000) } else { format!("{:.1}", limit_ms as f64 / 1000.0) };
        eprintln!("ORACLE-FAIL {} non-termination: no answer within {secs} s", base + i as u64 + 1);
        let fails = g.fails + 1;
        let next = i + 1;
        if next >= lines.len() {
            eprintln!("ORACLE-SUMMARY fails={fails} lines={}", base + lines.len() as u64);
            std::process::exit(0);
        }
        let exe = match std::env::current_exe() {
            Ok(e) => e,
            Err(e) => {
                eprintln!("strs run: cannot locate the executable to continue after a time-out: {e}");
                std::process::exit(3);
            }
        };
        let child = Command::new(exe)
            .args(["strs", "run"])
            .args(["--base", &(base + next as u64).to_string()])
            .args(["--carry-fails", &fails.to_string()])
            .args(["--timeouts", &(timeouts + 1).to_string()])
            .args(["--limit-ms", &limit_ms.to_string()])
            .args(["--max-timeouts", &max_timeouts.to_string()])
            .stdin(Stdio::piped())
            .spawn();
        let mut child = match child {
            Ok(c) => c,
            Err(e) => {
                eprintln!("strs run: cannot respawn after a time-out: {e}");
                std::process::exit(3);
            }
        };
        {
            let mut si = BufWriter::new(child.stdin.take().unwrap());
            for l in &lines[next..] {
                let _ = writeln!(si, "{l}");
            }
            let _ = si.flush();
        }
        let _ = child.wait();
        std::process::exit(0);
    }
}

// ------------------------------------------------------------------------------------------------
// gen
// ------------------------------------------------------------------------------------------------

type Alpha = &'static [&'static str];
type W = Vec<&'static str>;

const AB: Alpha = &["a", "b"];
const ABC: Alpha = &["a", "b", "c"];
const CD: Alpha = &["c", "d"];
const MB: Alpha = &["a", "é", "ß", "世", "🌎", "σ"];

const FORCED: &[usize] = &[0, 1, 2, 3, 4, 15, 16, 17, 18, 19, 23, 24, 31, 32, 33, 40, 64, 65];
const FORCED_LONG: &[usize] = &[17, 18, 19, 23, 24, 31, 32, 33, 40, 64, 65];

/// Byte sequences that are NOT valid UTF-8 (spliced into a payload at a character boundary).
const INVALID_SEQS: &[&[u8]] = &[
    &[0xC3],                   // truncated 2-byte
    &[0xE4, 0xB8],             // truncated 3-byte
    &[0xF0, 0x9F, 0x8C],       // truncated 4-byte
    &[0x80],                   // lone continuation
    &[0xBF],                   // lone continuation
    &[0xC0, 0x80],             // overlong NUL
    &[0xC1, 0xBF],             // overlong 2-byte
    &[0xE0, 0x80, 0x80],       // overlong 3-byte
    &[0xE0, 0x9F, 0xBF],       // overlong 3-byte (largest)
    &[0xF0, 0x80, 0x80, 0x80], // overlong 4-byte
    &[0xF0, 0x8F, 0xBF, 0xBF], // overlong 4-byte (largest)
    &[0xED, 0xA0, 0x80],       // surrogate U+D800
    &[0xED, 0xBF, 0xBF],       // surrogate U+DFFF
    &[0xF4, 0x90, 0x80, 0x80], // U+110000
    &[0xF5, 0x80, 0x80, 0x80], // F5 lead
    &[0xF8, 0x88, 0x80, 0x80, 0x80],
    &[0xFF],
    &[0xFE],
    &[0xE4, 0xB8, 0x41], // 3-byte lead, one continuation, then ASCII
    &[0xC3, 0x28],       // 2-byte lead then ASCII
];

/// Valid boundary encodings (so that the model's predicate is not too strict either).
const VALID_EDGE_SEQS: &[&[u8]] = &[
    &[0x00],
    &[0x7F],
    &[0xC2, 0x80],             // U+0080
    &[0xDF, 0xBF],             // U+07FF
    &[0xE0, 0xA0, 0x80],       // U+0800
    &[0xED, 0x9F, 0xBF],       // U+D7FF
    &[0xEE, 0x80, 0x80],       // U+E000
    &[0xEF, 0xBF, 0xBF],       // U+FFFF
    &[0xF0, 0x90, 0x80, 0x80], // U+10000
    &[0xF4, 0x8F, 0xBF, 0xBF], // U+10FFFF
];

const CASE_SPECIAL: &[char] = &[
    'é', 'É', 'ñ', 'Ñ', 'ü', 'Ü', 'ß', 'α', 'Α', 'σ', 'ς', 'Σ', 'я', 'Я', '世', '🌎', '\u{130}', '\u{1c6}', '\u{1c5}',
    '\u{fb01}',
];

/// White space and (the last four) look-alikes that are not white space.
const TRIM_EDGE: &[char] = &[
    ' ', '\t', '\n', '\r', '\u{b}', '\u{c}', '\u{85}', '\u{a0}', '\u{1680}', '\u{2000}', '\u{200a}', '\u{2028}',
    '\u{2029}', '\u{202f}', '\u{205f}', '\u{3000}', '\u{200b}', '\u{feff}', '\u{1c}', '\u{180e}',
];
const TRIM_CORE: &[char] = &['a', 'b', 'z', ' ', '\t', 'é', '世', '\u{a0}', '\u{200b}'];

const NUM_SPECIAL: &[&str] = &[
    "inf",
    "Infinity",
    "infinity",
    "-inf",
    "+inf",
    "-Infinity",
    "nan",
    "NaN",
    "-nan",
    "+nan",
    "",
    ".",
    "+",
    "-",
    "1.",
    ".5",
    "-.5",
    "+.5e1",
    "1e",
    "1e+",
    "e5",
    ".e5",
    "0x10",
    " 1",
    "1 ",
    "1_0",
    "١",
    "0",
    "-0",
    "+0",
    "0.0",
    "-0.0",
    "00",
    "007",
    "1e5",
    "1E5",
    "1e-5",
    "1e+5",
    "1e05",
    "9007199254740992",
    "9007199254740993",
    "9007199254740994",
    "9007199254740995",
    "2.2250738585072014e-308",
    "2.2250738585072011e-308",
    "2.225073858507201e-308",
    "1e-400",
    "1e400",
    "-1e400",
    "4.9e-324",
    "5e-324",
    "2.4703282292062327e-324",
    "2.4703282292062328e-324",
    "2.47e-324",
    "1.7976931348623157e308",
    "1.7976931348623158e308",
    "1.7976931348623159e308",
    "1.8e308",
    "0.1",
    "0.2",
    "0.30000000000000004",
    "123456789012345678901234567890e-10",
    "1e23",
    "8.5e22",
    "1.5",
    "1,5",
    "1.5.2",
    "--1",
    "+-1",
    "1e1.5",
    "1f",
    "1.0f64",
    "１",
];

fn word(rng: &mut Rng, alpha: Alpha, n: usize) -> W {
    (0..n).map(|_| *rng.pick(alpha)).collect()
}

/// A word of exactly `nbytes` bytes (every alphabet contains the 1-byte "a").
fn word_bytes(rng: &mut Rng, alpha: Alpha, nbytes: usize) -> W {
    let mut w = W::new();
    let mut left = nbytes;
    while left > 0 {
        let u = *rng.pick(alpha);
        let u = if u.len() <= left { u } else { "a" };
        left -= u.len();
        w.push(u);
    }
    w
}

fn cat(w: &[&str]) -> String {
    w.concat()
}

fn rep(u: &[&'static str], k: usize) -> W {
    let mut w = W::with_capacity(u.len() * k);
    for _ in 0..k {
        w.extend_from_slice(u);
    }
    w
}

/// Change one unit of `w` into a different one (near miss).
fn flip_at(rng: &mut Rng, alpha: Alpha, w: &mut W, pos: usize) {
    if pos >= w.len() {
        return;
    }
    let old = w[pos];
    for _ in 0..8 {
        let u = *rng.pick(alpha);
        if u != old {
            w[pos] = u;
            return;
        }
    }
    w[pos] = if old == "a" { "b" } else { "a" };
}

fn flip(rng: &mut Rng, alpha: Alpha, w: &mut W) {
    if !w.is_empty() {
        let pos = rng.below(w.len() as u64) as usize;
        flip_at(rng, alpha, w, pos);
    }
}

fn pick_alpha(rng: &mut Rng) -> Alpha {
    match rng.below(10) {
        0..=5 => AB,
        6..=7 => ABC,
        _ => MB,
    }
}

fn ur(rng: &mut Rng, lo: usize, hi: usize) -> usize {
    if hi <= lo { lo } else { lo + rng.below((hi - lo + 1) as u64) as usize }
}

/// (1) random haystack, needle = substring of it, possibly with one unit changed.
fn s_random(rng: &mut Rng, alpha: Alpha, long: bool) -> (W, W) {
    let hl = if long { ur(rng, 20, 70) } else { ur(rng, 0, 40) };
    let h = word(rng, alpha, hl);
    if hl == 0 {
        let k = ur(rng, 0, 2);
        return (h, word(rng, alpha, k));
    }
    let nl = if long { ur(rng, 17, hl.min(40)) } else { ur(rng, 0, hl.min(24)) };
    let st = ur(rng, 0, hl - nl);
    let mut n = h[st..st + nl].to_vec();
    if rng.chance(35, 100) {
        flip(rng, alpha, &mut n);
    }
    (h, n)
}

/// (2) periodic and near-periodic words.
fn s_periodic(rng: &mut Rng, alpha: Alpha, long: bool) -> (W, W) {
    let ul = ur(rng, 1, 5);
    let u = word(rng, alpha, ul);
    let vl = ur(rng, 0, 2);
    let v = word(rng, alpha, vl);
    let jmin = if long { 17usize.div_ceil(ul) } else { 0 };
    let j = jmin + ur(rng, 0, 6);
    let k = if rng.chance(4, 5) { j + ur(rng, 0, 7) } else { j.saturating_sub(1) };
    let r = ur(rng, 0, ul - 1);
    let mut h = rep(&u, k);
    match rng.below(6) {
        0 => {}
        1 => h.extend_from_slice(&v),
        2 => {
            let mut x = v.clone();
            x.extend_from_slice(&h);
            h = x;
        }
        3 => {
            let again = h.clone();
            h.extend_from_slice(&v);
            h.extend_from_slice(&again);
        }
        4 => flip(rng, alpha, &mut h),
        _ => h.extend_from_slice(&u[..r]),
    }
    let mut n = rep(&u, j);
    match rng.below(6) {
        0 => {}
        1 => n.extend_from_slice(&v),
        2 => {
            let big = rep(&u, j + 1);
            n = big[r..r + j * ul].to_vec();
        }
        3 => flip(rng, alpha, &mut n),
        4 => {
            let mut x = v.clone();
            x.extend_from_slice(&n);
            n = x;
        }
        _ => n.extend_from_slice(&u[..r]),
    }
    (h, n)
}

/// (3) needle at the very end, at the very start, twice overlapping, twice apart.
fn s_placed(rng: &mut Rng, alpha: Alpha, long: bool) -> (W, W) {
    let nl = if long { ur(rng, 17, 40) } else { ur(rng, 1, 20) };
    let j1 = ur(rng, 0, 30);
    let j2 = ur(rng, 0, 30);
    let junk1 = word(rng, alpha, j1);
    let junk2 = word(rng, alpha, j2);
    match rng.below(4) {
        0 => {
            let n = word(rng, alpha, nl);
            let mut h = junk1;
            h.extend_from_slice(&n);
            (h, n)
        }
        1 => {
            let n = word(rng, alpha, nl);
            let mut h = n.clone();
            h.extend_from_slice(&junk1);
            (h, n)
        }
        2 => {
            // needle = w x w, haystack = junk w x w x w junk: two overlapping occurrences
            let wl = ur(rng, 1, (nl / 2).max(1));
            let xl = nl.saturating_sub(2 * wl);
            let w = word(rng, alpha, wl);
            let x = word(rng, alpha, xl);
            let mut n = w.clone();
            n.extend_from_slice(&x);
            n.extend_from_slice(&w);
            let mut h = junk1;
            h.extend_from_slice(&n);
            h.extend_from_slice(&x);
            h.extend_from_slice(&w);
            h.extend_from_slice(&junk2);
            (h, n)
        }
        _ => {
            let n = word(rng, alpha, nl);
            let mut h = junk1;
            h.extend_from_slice(&n);
            h.extend_from_slice(&junk2);
            h.extend_from_slice(&n);
            (h, n)
        }
    }
}

/// (4) needle longer than the haystack; equal to the haystack.
fn s_size(rng: &mut Rng, alpha: Alpha, long: bool) -> (W, W) {
    let hl = if long { ur(rng, 17, 40) } else { ur(rng, 0, 20) };
    let h = word(rng, alpha, hl);
    let el = ur(rng, 1, 3);
    let extra = word(rng, alpha, el);
    match rng.below(4) {
        0 => {
            let n = h.clone();
            (h, n)
        }
        1 => {
            let mut n = h.clone();
            n.extend_from_slice(&extra);
            (h, n)
        }
        2 => {
            let mut n = extra;
            n.extend_from_slice(&h);
            (h, n)
        }
        _ => {
            let nl = hl + ur(rng, 1, 5);
            let n = word(rng, alpha, nl);
            (h, n)
        }
    }
}

/// (5) needle length (in bytes) forced from a list of boundary values; haystack needle + 0..=40.
fn s_forced(rng: &mut Rng, alpha: Alpha, long: bool) -> (W, W) {
    let l = *rng.pick(if long { FORCED_LONG } else { FORCED });
    let n = word_bytes(rng, alpha, l);
    let d = ur(rng, 0, 40);
    match rng.below(4) {
        0 | 1 => {
            let d1 = ur(rng, 0, d);
            let mut h = word_bytes(rng, alpha, d1);
            h.extend_from_slice(&n);
            let tail = word_bytes(rng, alpha, d - d1);
            h.extend_from_slice(&tail);
            (h, n)
        }
        2 => {
            let d1 = ur(rng, 0, d);
            let mut near = n.clone();
            flip(rng, alpha, &mut near);
            let mut h = word_bytes(rng, alpha, d1);
            h.extend_from_slice(&near);
            let tail = word_bytes(rng, alpha, d - d1);
            h.extend_from_slice(&tail);
            (h, n)
        }
        _ => (word_bytes(rng, alpha, l + d), n),
    }
}

/// (6) the two-way tier specifically: needles over {a,b} of 17..=24 bytes.
fn s_longtier(rng: &mut Rng) -> (W, W) {
    let nl = ur(rng, 17, 24);
    let n = word(rng, AB, nl);
    let append = rng.chance(1, 2);
    let mut h: W;
    match rng.below(7) {
        0 => {
            let k = ur(rng, 0, 30);
            h = rep(&["c"], k);
            h.extend_from_slice(&n);
            return (h, n);
        }
        1 => {
            let k = ur(rng, 0, 30);
            h = word(rng, CD, k);
            h.extend_from_slice(&n);
            let t = ur(rng, 0, 5);
            let tail = word(rng, CD, t);
            h.extend_from_slice(&tail);
            return (h, n);
        }
        2 => {
            let mut near = n.clone();
            flip_at(rng, AB, &mut near, nl - 1);
            let m = ur(rng, 1, 4);
            h = rep(&near, m);
        }
        3 => {
            h = n[1..].to_vec();
            h.extend_from_slice(&n[..nl - 1]);
        }
        4 => {
            let hl = ur(rng, 30, 80);
            h = word(rng, AB, hl);
        }
        5 => {
            let m = ur(rng, 1, 4);
            h = rep(&n[..nl - 1], m);
        }
        _ => {
            let mut near = n.clone();
            flip(rng, AB, &mut near);
            h = near;
            h.extend_from_slice(&n);
            return (h, n);
        }
    }
    if append {
        h.extend_from_slice(&n);
    }
    (h, n)
}

fn pair(rng: &mut Rng, long_bias: bool) -> (String, String) {
    let alpha = pick_alpha(rng);
    let long = if long_bias { rng.chance(17, 20) } else { rng.chance(1, 5) };
    let (h, n) = match rng.below(100) {
        0..=29 => s_random(rng, alpha, long),
        30..=49 => s_periodic(rng, alpha, long),
        50..=61 => s_placed(rng, alpha, long),
        62..=69 => s_size(rng, alpha, long),
        70..=87 => s_forced(rng, alpha, long),
        _ => s_longtier(rng),
    };
    (cat(&h), cat(&n))
}

fn gen_replace(rng: &mut Rng, long_bias: bool) -> (String, String, String) {
    let (mut h, mut f) = pair(rng, long_bias);
    match rng.below(10) {
        0..=2 => h = format!("{h}{h}"),
        3 => h = format!("{h}-{h}"),
        _ => {}
    }
    if rng.chance(8, 100) {
        f = String::new();
    }
    let to = match rng.below(7) {
        0 => String::new(),
        1 => "x".to_string(),
        2 => "ab".to_string(),
        3 => f.clone(),
        4 => format!("{f}{f}"),
        5 => "é世".to_string(),
        _ => "🌎".to_string(),
    };
    (h, f, to)
}

fn gen_split(rng: &mut Rng) -> (String, String) {
    match rng.below(10) {
        0..=5 => {
            let sep = *rng.pick(&["", ",", "ab", "aa", "世", "a", ", ", "🌎é"]);
            let alpha: Alpha = match rng.below(4) {
                0 => AB,
                1 => &["a", "b", ","],
                2 => MB,
                _ => &["x", "y", "世"],
            };
            let np = ur(rng, 0, 6);
            let mut pieces: Vec<String> = Vec::new();
            for _ in 0..np {
                let l = ur(rng, 0, 3);
                pieces.push(cat(&word(rng, alpha, l)));
            }
            let mut s = pieces.join(sep);
            if rng.chance(1, 5) {
                s = format!("{sep}{s}");
            }
            if rng.chance(1, 5) {
                s = format!("{s}{sep}");
            }
            if rng.chance(1, 10) {
                s = format!("{s}{sep}{sep}");
            }
            (s, sep.to_string())
        }
        6 => ((*rng.pick(&["aaaa", "aaaaa", "aaa", "aa", "a", "baaab", "aabaa"])).to_string(), "aa".to_string()),
        7 => {
            let alpha = pick_alpha(rng);
            let l = ur(rng, 0, 3);
            let s = cat(&word(rng, alpha, l));
            let e = ur(rng, 1, 3);
            let p = format!("{s}{}", cat(&word(rng, alpha, e)));
            (s, p)
        }
        8 => {
            let alpha = pick_alpha(rng);
            let l = ur(rng, 0, 5);
            let s = cat(&word(rng, alpha, l));
            (s.clone(), s)
        }
        _ => pair(rng, false),
    }
}

const NAN_BITS: &[u64] = &[
    0x7ff8_0000_0000_0000,
    0xfff8_0000_0000_0000,
    0x7ff0_0000_0000_0001,
    0xfff0_0000_0000_0001,
    0x7ff8_0000_0000_0001,
    0x7fff_ffff_ffff_ffff,
    0xffff_ffff_ffff_ffff,
];

fn slice_bound(rng: &mut Rng, len: usize) -> u64 {
    let len = len as f64;
    let x: f64 = match rng.below(100) {
        0..=39 => rng.range(-15, 15) as f64,
        40..=49 => *rng.pick(&[
            0.5,
            -0.5,
            1.5,
            -1.5,
            2.9999,
            -0.0001,
            0.9999999999999999,
            -0.9999999999999999,
            1.0000000000000002,
            3.5,
            -2.5,
            -1e-300,
        ]),
        50..=64 => *rng.pick(&[len + 1.0, len - 1.0, len, -len, -len - 1.0, -len + 1.0, len + 0.5, -len - 0.5]),
        65..=72 => return *rng.pick(NAN_BITS),
        _ => *rng.pick(&[
            0.0,
            -0.0,
            f64::INFINITY,
            f64::NEG_INFINITY,
            1e18,
            -1e18,
            9.223372036854775e18,
            -9.223372036854775e18,
            9.223372036854776e18,
            -9.223372036854776e18,
            -9.223372036854778e18,
            1e19,
            -1e19,
            1e300,
            -1e300,
            f64::MAX,
            f64::MIN,
            f64::MIN_POSITIVE,
            -f64::MIN_POSITIVE,
            5e-324,
            -5e-324,
            4294967296.0,
            -4294967296.0,
            2147483648.0,
            -2147483649.0,
            9007199254740992.0,
            -9007199254740992.0,
            1.8446744073709552e19,
            -1.8446744073709552e19,
        ]),
    };
    x.to_bits()
}

fn gen_case_string(rng: &mut Rng) -> String {
    let l = ur(rng, 0, 12);
    let mut s = String::new();
    for _ in 0..l {
        if rng.chance(1, 2) {
            s.push(char::from(0x20 + rng.below(0x5f) as u8));
        } else {
            s.push(*rng.pick(CASE_SPECIAL));
        }
    }
    s
}

fn gen_trim_string(rng: &mut Rng) -> String {
    let mut s = String::new();
    for _ in 0..ur(rng, 0, 3) {
        s.push(*rng.pick(TRIM_EDGE));
    }
    for _ in 0..ur(rng, 0, 6) {
        s.push(*rng.pick(TRIM_CORE));
    }
    for _ in 0..ur(rng, 0, 3) {
        s.push(*rng.pick(TRIM_EDGE));
    }
    s
}

fn digits(rng: &mut Rng, n: usize) -> String {
    (0..n).map(|_| char::from(b'0' + rng.below(10) as u8)).collect()
}

fn gen_number_string(rng: &mut Rng) -> String {
    match rng.below(10) {
        0..=3 => (*rng.pick(NUM_SPECIAL)).to_string(),
        4..=8 => {
            let mut s = (*rng.pick(&["", "", "+", "-"])).to_string();
            let il = ur(rng, 0, 5);
            s.push_str(&digits(rng, il));
            if rng.chance(2, 5) {
                s.push('.');
                let fl = ur(rng, 0, 5);
                s.push_str(&digits(rng, fl));
            }
            if rng.chance(3, 10) {
                s.push(*rng.pick(&['e', 'E']));
                s.push_str(rng.pick(&["", "+", "-"]));
                let el = ur(rng, 1, 3);
                s.push_str(&digits(rng, el));
            }
            s
        }
        _ => {
            let l = ur(rng, 20, 40);
            let mut s = (*rng.pick(&["", "-"])).to_string();
            let d = digits(rng, l);
            if rng.chance(1, 3) {
                let p = ur(rng, 0, l);
                s.push_str(&d[..p]);
                s.push('.');
                s.push_str(&d[p..]);
            } else {
                s.push_str(&d);
            }
            if rng.chance(1, 3) {
                s.push('e');
                s.push_str(rng.pick(&["", "-", "+"]));
                let el = ur(rng, 1, 3);
                s.push_str(&digits(rng, el));
            }
            s
        }
    }
}

struct Req {
    op: &'static str,
    pay: Vec<Vec<u8>>,
    bits: Vec<u64>,
}

impl Req {
    fn new(op: &'static str, pay: &[&str]) -> Req {
        Req { op, pay: pay.iter().map(|p| p.as_bytes().to_vec()).collect(), bits: Vec::new() }
    }
    fn line(&self) -> String {
        let mut s = self.op.to_string();
        for p in &self.pay {
            s.push(' ');
            s.push_str(&util::hex(p));
        }
        for b in &self.bits {
            s.push_str(&format!(" {b:016x}"));
        }
        s
    }
}

/// Insert `seq` into `p` at a character boundary.
fn splice(rng: &mut Rng, p: &mut Vec<u8>, seq: &[u8]) {
    let bounds: Vec<usize> = match std::str::from_utf8(p) {
        Ok(s) => (0..=s.len()).filter(|&i| s.is_char_boundary(i)).collect(),
        Err(_) => vec![p.len()],
    };
    let at = *rng.pick(&bounds);
    let tail = p.split_off(at);
    p.extend_from_slice(seq);
    p.extend_from_slice(&tail);
}

#[derive(Default)]
struct GenStats {
    ops: BTreeMap<&'static str, u64>,
    long_needle: u64,
    multibyte: u64,
    nontrivial: u64,
    invalid_utf8: u64,
    find_hit: u64,
    find_miss: u64,
    total: u64,
}

/// Non-trivial, by kind:
/// find — needle ≥ 2 bytes, haystack at least as long, and either the first occurrence is at an
/// index > 0 or there is none although the needle's first byte occurs in the haystack;
/// replace / split / splitjoin — the pattern occurs (or is empty with a non-empty subject);
/// slice — the expected result is non-empty or a bound is not an integer of magnitude < 2^31;
/// len — a multi-byte character is present; upper / lower / trim — output differs from input;
/// tonumber — the result is not NaN. Requests with an invalid payload count as trivial.
fn account(st: &mut GenStats, r: &Req) {
    *st.ops.entry(r.op).or_insert(0) += 1;
    st.total += 1;
    if r.pay.iter().any(|p| p.iter().any(|&b| b >= 0x80)) {
        st.multibyte += 1;
    }
    let strs: Option<Vec<&str>> = r.pay.iter().map(|p| std::str::from_utf8(p).ok()).collect();
    let Some(p) = strs else {
        st.invalid_utf8 += 1;
        return;
    };
    let nontrivial = match r.op {
        "find" => {
            let (h, n) = (p[0], p[1]);
            if n.len() >= 17 {
                st.long_needle += 1;
            }
            let at = h.find(n);
            if at.is_some() {
                st.find_hit += 1;
            } else {
                st.find_miss += 1;
            }
            n.len() >= 2
                && h.len() >= n.len()
                && match at {
                    Some(i) => i > 0,
                    None => h.as_bytes().contains(&n.as_bytes()[0]),
                }
        }
        "replace" => {
            if p[1].len() >= 17 {
                st.long_needle += 1;
            }
            if p[1].is_empty() { !p[0].is_empty() } else { p[0].contains(p[1]) }
        }
        "split" | "splitjoin" => {
            if p[1].is_empty() {
                !p[0].is_empty()
            } else {
                p[0].contains(p[1])
            }
        }
        "slice" => {
            let (a, b) = (f64::from_bits(r.bits[0]), f64::from_bits(r.bits[1]));
            let plain = |x: f64| x.fract() == 0.0 && x.abs() < 2147483648.0;
            !slice_spec(p[0], a, b).is_empty() || !plain(a) || !plain(b)
        }
        "len" => !p[0].is_ascii(),
        "upper" => p[0].chars().flat_map(char::to_uppercase).collect::<String>() != p[0],
        "lower" => p[0].chars().flat_map(char::to_lowercase).collect::<String>() != p[0],
        "trim" => p[0].trim() != p[0],
        "tonumber" => p[0].parse::<f64>().is_ok_and(|x| !x.is_nan()),
        _ => false,
    };
    if nontrivial {
        st.nontrivial += 1;
    }
}

fn generate(args: &[String]) -> i32 {
    let seed = util::opt_u64(args, "--seed", 1);
    let n = util::opt_u64(args, "--n", 1000);
    let long_bias = util::flag(args, "--long-bias");
    let mut rng = Rng::new(seed ^ 0xC13);
    let mut out = Out::new();
    let mut st = GenStats::default();
    for _ in 0..n {
        let mut r = match rng.below(100) {
            0..=44 => {
                let (h, nd) = pair(&mut rng, long_bias);
                Req::new("find", &[&h, &nd])
            }
            45..=64 => {
                let (h, f, t) = gen_replace(&mut rng, long_bias);
                Req::new("replace", &[&h, &f, &t])
            }
            65..=74 => {
                let l = ur(&mut rng, 0, 12);
                let s = cat(&word(&mut rng, MB, l));
                let mut r = Req::new("slice", &[&s]);
                r.bits.push(slice_bound(&mut rng, l));
                r.bits.push(slice_bound(&mut rng, l));
                r
            }
            75..=79 => {
                if rng.chance(1, 5) {
                    // valid boundary encodings: the model's UTF-8 predicate must accept these
                    let l = ur(&mut rng, 0, 3);
                    let mut p = cat(&word(&mut rng, MB, l)).into_bytes();
                    let seq = *rng.pick(VALID_EDGE_SEQS);
                    splice(&mut rng, &mut p, seq);
                    Req { op: "len", pay: vec![p], bits: Vec::new() }
                } else {
                    let alpha = pick_alpha(&mut rng);
                    let l = ur(&mut rng, 0, 20);
                    let alpha = if rng.chance(1, 2) { MB } else { alpha };
                    let s = cat(&word(&mut rng, alpha, l));
                    Req::new("len", &[&s])
                }
            }
            80..=87 => {
                let (s, p) = gen_split(&mut rng);
                Req::new("split", &[&s, &p])
            }
            88..=94 => {
                let (s, p) = gen_split(&mut rng);
                Req::new("splitjoin", &[&s, &p])
            }
            _ => match rng.below(4) {
                0 => Req::new("upper", &[&gen_case_string(&mut rng)]),
                1 => Req::new("lower", &[&gen_case_string(&mut rng)]),
                2 => Req::new("trim", &[&gen_trim_string(&mut rng)]),
                _ => Req::new("tonumber", &[&gen_number_string(&mut rng)]),
            },
        };
        // ≈1 %: one payload is made invalid UTF-8 (ties the model's predicate to `from_utf8`)
        if rng.chance(1, 100) {
            let k = rng.below(r.pay.len() as u64) as usize;
            let seq = *rng.pick(INVALID_SEQS);
            splice(&mut rng, &mut r.pay[k], seq);
        }
        account(&mut st, &r);
        out.line(&r.line());
    }
    drop(out);
    let g = |k: &str| st.ops.get(k).copied().unwrap_or(0);
    eprintln!(
        "GEN-SUMMARY find={} replace={} slice={} len={} split={} splitjoin={} upper={} lower={} trim={} tonumber={} long_needle={} multibyte={} nontrivial={} invalid_utf8={} find_hit={} find_miss={} total={}",
        g("find"),
        g("replace"),
        g("slice"),
        g("len"),
        g("split"),
        g("splitjoin"),
        g("upper"),
        g("lower"),
        g("trim"),
        g("tonumber"),
        st.long_needle,
        st.multibyte,
        st.nontrivial,
        st.invalid_utf8,
        st.find_hit,
        st.find_miss,
        st.total
    );
    0
}

// ------------------------------------------------------------------------------------------------
// enum
// ------------------------------------------------------------------------------------------------

/// All words over `alpha` of length 0..=maxlen, by length, then in alphabet order.
fn all_words(alpha: &[&str], maxlen: usize) -> Vec<String> {
    let mut res = vec![String::new()];
    let mut level = vec![String::new()];
    for _ in 0..maxlen {
        let mut next = Vec::with_capacity(level.len() * alpha.len());
        for w in &level {
            for a in alpha {
                next.push(format!("{w}{a}"));
            }
        }
        res.extend(next.iter().cloned());
        level = next;
    }
    res
}

fn enumerate(args: &[String]) -> i32 {
    let mut out = Out::new();
    let mut count = 0u64;
    match util::opt(args, "--kind") {
        Some("short") => {
            let hmax = util::opt_u64(args, "--hmax", 12) as usize;
            let nmax = util::opt_u64(args, "--nmax", 6) as usize;
            let hs: Vec<(usize, String)> = all_words(AB, hmax).iter().map(|w| (w.len(), util::hex(w.as_bytes()))).collect();
            let ns: Vec<(usize, String)> = all_words(AB, nmax).iter().map(|w| (w.len(), util::hex(w.as_bytes()))).collect();
            for (hl, h) in &hs {
                for (nl, n) in &ns {
                    out.line(&format!("find {h} {n}"));
                    count += 1;
                    if *nl >= 1 && *hl <= 8 {
                        out.line(&format!("replace {h} {n} 78"));
                        count += 1;
                    }
                }
            }
        }
        Some("long") => {
            let hmax = util::opt_u64(args, "--hmax", 40) as usize;
            let us: Vec<String> = all_words(AB, 4).into_iter().filter(|u| !u.is_empty()).collect();
            let vs = all_words(AB, 2);
            // needle -> the first (shortest) period word that produced it
            let mut needles: BTreeMap<String, String> = BTreeMap::new();
            for l in 17..=24usize {
                for u in &us {
                    for v in &vs {
                        let body: String = u.chars().cycle().take(l - v.len()).collect();
                        let needle = format!("{body}{v}");
                        needles.entry(needle).or_insert_with(|| u.clone());
                    }
                }
            }
            let hx = |s: &str| util::hex(s.as_bytes());
            for (n, u) in &needles {
                let l = n.len();
                let nh = hx(n);
                let mut hays: Vec<String> = vec![n.clone()];
                for x in ["a", "b", "c"] {
                    hays.push(format!("{x}{n}"));
                    hays.push(format!("{n}{x}"));
                }
                for j in 1..=l {
                    hays.push(format!("{}{n}", "c".repeat(j)));
                }
                let mut pos = vec![0, 1, l / 3, l / 2, l - 2, l - 1];
                pos.dedup();
                for p in pos {
                    let mut near = n.clone().into_bytes();
                    near[p] = if near[p] == b'a' { b'b' } else { b'a' };
                    hays.push(format!("{}{n}", String::from_utf8(near).unwrap()));
                }
                hays.push(format!("{}{n}", &n[1..]));
                for m in 1..=(hmax / u.len()) {
                    hays.push(u.repeat(m));
                }
                for h in &hays {
                    out.line(&format!("find {} {nh}", hx(h)));
                    count += 1;
                }
                out.line(&format!("replace {} {nh} 78", hx(&format!("{n}-{n}"))));
                count += 1;
            }
        }
        Some("slice") => {
            let mut strs = all_words(&["a", "é", "世"], 3);
            strs.extend(["aé世a", "世世éa", "éaaé"].iter().map(|s| s.to_string()));
            for s in &strs {
                let sh = util::hex(s.as_bytes());
                for a in -6..=6i32 {
                    for b in -6..=6i32 {
                        out.line(&format!("slice {sh} {:016x} {:016x}", f64::from(a).to_bits(), f64::from(b).to_bits()));
                        count += 1;
                    }
                }
            }
        }
        Some("wide") => {
            // lengths, offsets and occurrence counts at 255 / 256 / 257 (and 65 535 / 65 536 / 65 537 with
            // `--big`): the model counts in Nat; an implementation that keeps a length, a shift or a count
            // in u8 / u16 answers differently exactly there
            let mut ls: Vec<usize> = vec![254, 255, 256, 257, 258, 511, 512, 513];
            if util::flag(args, "--big") {
                ls.extend([65534, 65535, 65536, 65537, 65538, 131072, 131073]);
            }
            let hx = |s: &str| util::hex(s.as_bytes());
            let fb = |x: f64| format!("{:016x}", x.to_bits());
            for &l in &ls {
                let a = "a".repeat(l);
                let ab = "ab".repeat(l / 2 + 1);
                let mb = "é".repeat(l);
                let mut lines: Vec<String> = Vec::new();
                // find: the first occurrence AT offset l-1 / l, after near misses; needles of 1, 2, 3, 16, 17, 40 bytes
                for nl in [1usize, 2, 3, 8, 16, 17, 24, 40] {
                    let needle = format!("{}b", "a".repeat(nl - 1));
                    for off in [l - 1, l, l + 1] {
                        let h = format!("{}{}{}", "a".repeat(off), &needle[nl - 1..], "a".repeat(7));
                        // occurrence starts at off - (nl - 1)
                        lines.push(format!("find {} {}", hx(&h), hx(&needle)));
                    }
                    // no occurrence at all in l bytes; needle at the very end
                    lines.push(format!("find {} {}", hx(&a), hx(&needle)));
                    lines.push(format!("find {} {}", hx(&format!("{a}{needle}")), hx(&needle)));
                }
                // needles as long as the boundary: equal to the haystack, behind a near miss, periodic
                let long_n = format!("{}b", "a".repeat(l - 1));
                lines.push(format!("find {} {}", hx(&long_n), hx(&long_n)));
                lines.push(format!("find {} {}", hx(&format!("{a}{long_n}")), hx(&long_n)));
                lines.push(format!("find {} {}", hx(&format!("{}c{}", &ab[..l], &ab[..l + 1])), hx(&ab[..l + 1])));
                lines.push(format!("find {} {}", hx(&format!("{}{}", &ab[1..l], &ab[..l])), hx(&ab[..l])));
                lines.push(format!("find {} {}", hx(&format!("{mb}x")), hx("x")));
                lines.push(format!("find {} {}", hx(&format!("{mb}xy")), hx("xy")));
                // replace: l occurrences; an occurrence at offset l; result longer / shorter than l; empty pattern
                let bs = "b".repeat(l);
                lines.push(format!("replace {} {} {}", hx(&bs), hx("b"), hx("cc")));
                lines.push(format!("replace {} {} {}", hx(&bs), hx("b"), hx("")));
                lines.push(format!("replace {} {} {}", hx(&format!("{a}b{a}b")), hx("ab"), hx("Z")));
                lines.push(format!("replace {} {} {}", hx(&format!("{a}b")), hx(&long_n), hx("Z")));
                lines.push(format!("replace {} {} {}", hx(&ab[..l]), hx("ab"), hx("ba")));
                if l <= 600 {
                    lines.push(format!("replace {} {} {}", hx(&a), hx(""), hx("-")));
                    lines.push(format!("replace {} {} {}", hx(&mb), hx(""), hx("-")));
                }
                // slice: character indices at the boundary, one- and two-byte characters, negative and fractional
                let lf = l as f64;
                for s in [&a, &mb] {
                    for (x, y) in [(lf - 2.0, lf), (lf - 1.0, lf + 5.0), (0.0, lf), (0.0, lf - 1.0), (-2.0, lf), (-lf, 2.0 - lf), (-lf - 1.0, 1.0), (lf - 1.5, lf - 0.5), (1.0, 2.0), (lf, lf + 1.0)] {
                        lines.push(format!("slice {} {} {}", hx(s), fb(x), fb(y)));
                    }
                }
                // len (bytes vs characters), case mapping that changes the byte length, trim of l blanks
                lines.push(format!("len {}", hx(&a)));
                lines.push(format!("len {}", hx(&mb)));
                lines.push(format!("len {}", hx(&format!("{a}é"))));
                lines.push(format!("upper {}", hx(&format!("{}ß", &a[1..]))));
                lines.push(format!("upper {}", hx(&mb)));
                lines.push(format!("lower {}", hx(&"É".repeat(l))));
                lines.push(format!("lower {}", hx(&format!("{}B", "A".repeat(l - 1)))));
                lines.push(format!("trim {}", hx(&format!("{}x{}", " ".repeat(l), " ".repeat(l)))));
                lines.push(format!("trim {}", hx(&format!("{}x{}", "\u{a0}".repeat(l), "\t".repeat(l)))));
                // split / split-join: l separators, a separator at offset l, empty pattern on short subjects only
                let sep = "x,".repeat(l);
                lines.push(format!("split {} {}", hx(&sep), hx(",")));
                lines.push(format!("splitjoin {} {}", hx(&sep), hx(",")));
                lines.push(format!("split {} {}", hx(&format!("{a},{a}")), hx(",")));
                lines.push(format!("splitjoin {} {}", hx(&format!("{a}ab{a}")), hx("ab")));
                if l <= 600 {
                    lines.push(format!("split {} {}", hx(&a), hx("")));
                }
                for ln in lines {
                    out.line(&ln);
                    count += 1;
                }
            }
        }
        _ => {
            eprintln!("usage: nvh strs enum --kind short|long|slice|wide [--hmax H] [--nmax K] [--big]");
            return 2;
        }
    }
    drop(out);
    eprintln!("ENUM-SUMMARY lines={count}");
    0
}
