//! Family `capture` (C16): the real `sys::process::run` (polling waiter, two bounded reader threads,
//! overflow flag, `join_capture`) against a helper child that is told exactly what to emit.
//!
//! Request line (one scenario):
//! ```text
//! sc cap=<bytes> poll=<ms> timeout=<ms> out=<c|n|i> err=<c|n|i> reps=<k> hogs=<n> [fixed=<0|1>] [stdin=<bytes>] | <child token>...
//! utf8 <hex>                       -> valid | invalid          (`std::str::from_utf8`, ties `validUtf8`)
//! rd cap=<bytes> code=<1|2> flag=<0|1|2> ev=<event>,...
//!                                  -> ok:<len>:<flag> | err:<flag>
//! ```
//! `stdin=<n>`: the run gets `StdinPolicy::Text` of n bytes (otherwise `Null`): the stdin writer thread.
//!
//! `rd`: the REAL reader loop `read_captured_stream` (hook `sys::verif_read_captured_stream`) on a
//! scripted `Read`, the flag starting at `flag`; answer = the loop's result and the flag's final value.
//! The hook names a private function, so a refactoring of that function can stop the crate from
//! compiling with the hook's feature. It therefore has a feature of its own and is used only by the
//! separate binary `nvcaprd` (`/verif/harness-caprd/main.rs`), which `checks/c16.py` builds by itself:
//! if that build fails, C16 has a broken tie (`hook-missing`) and nobody else is affected. This
//! harness generates the `rd` requests (`gen --mode rd`) and answers `nohook` to them.
//! (`join_capture` is deliberately not hooked at all: seed C16-b1 refactors it away.) Events: `d<n>` / `m<n>` /
//! `x<n>` = n bytes of ASCII / 3-byte characters / 0xFF (a piece longer than the buffer `read` is handed
//! arrives over several reads), `z` = `Ok(0)`, `E:<kind>` = `Err` of that `io::ErrorKind` (interrupted,
//! wouldblock, other, brokenpipe, unexpectedeof, timedout, connreset), `-` = no event; a script that
//! has run out keeps returning `Ok(0)`. Oracle (no model needed): `Ok` with the flag still 0 must hold
//! exactly the data before the first zero-length read with no failing read before it; any `Ok` holds a
//! prefix of the data, at most `cap` bytes; the flag only ever moves from 0 to `code`.
//! Child tokens, executed in order by `nvh capture child pidfile=<path> us=<n> <token>...`:
//! ```text
//! s<ms>        sleep
//! o<n><k>      one write_all of the next n bytes of stdout pattern k  (k: a ascii, m 3-byte chars,
//! e<n><k>      ... of stderr pattern k                                   g 4-byte chars, x invalid)
//! p            restore the default SIGPIPE disposition (a write to a closed pipe then kills the child)
//! x<code>      exit(code)        k   kill(getpid(), SIGKILL)        h   hang (sleep for ever)
//! r            read stdin to its end          r<n>  read n bytes of stdin          c   close stdin
//! Co Ce Cb     close(1) / close(2) / both, and carry on with the script (the runner's reader sees end of file
//!              while the child is alive; a later `o`/`e` token for that stream fails with EBADF and is NOT
//!              part of what the child "was told to write": it reaches no pipe)
//! No Ne Nb     the same by redirection: dup2(open("/dev/null"), 1 / 2 / both)
//! G<ms>        fork a grandchild that closes its inherited fds 0, 1, 2 at once, sleeps <ms> and exits
//! F<ms>        fork a grandchild that KEEPS the inherited fds (the capture pipes' write ends, the stdin
//!              pipe's read end) open, sleeps <ms> and exits: the pipes stay open after the child is gone
//! ```
//! A forked grandchild writes its pid to `<pidfile>.g`; the harness kills it after the repetition.
//! The patterns are functions of (stream, pattern, offset in the stream), so the harness, the child
//! and the Lean driver all know every byte; stdout and stderr use different bytes.
//!
//! Answer of `run` for a scenario: `obs <outcome>*<count> ... | pid <state>*<count> ...` over the
//! `reps` repetitions (each with a different sub-millisecond delay before every child write).
//! Outcomes: `ok:<code|sig>:<out>:<err>` with a stream described as `null`, `full` (exactly the
//! planned bytes) or `trunc<len>` / `other<len>`; `ole:out|err`; `badutf8:out|err`; `timeout`;
//! `spawnfail`; `stuck`; `panic`. The model's driver answers `allowed <outcome>...`; the check tests
//! membership (checks/c16.py). Implementation-level oracle (no model needed), reported as
//! `ORACLE-FAIL <line> <what>` on stderr: an `ok` whose captured stream is not exactly what the child
//! was told to write, is above the cap, or is non-null for an uncaptured stream; `success` not equal
//! to `exit_code == 0`; an exit code that is not the planned one; the child's pid still present
//! afterwards (running or zombie); a run that does not return; an `ok` for a child that was still
//! asleep half a second after its timeout; a run that returns more than 3 s after its deadline.

use std::collections::BTreeMap;
use std::fs::File;
use std::io::{self, Write};
use std::os::fd::FromRawFd;
use std::sync::atomic::{AtomicBool, AtomicUsize, Ordering};
use std::sync::{Arc, Mutex, mpsc};
use std::time::Duration;

use naijascript::arena::{Arena, ArenaString};
use naijascript::process::{
    OutputPolicy, ProcessCaps, ProcessError, ProcessSpec, ProcessStream, StdinPolicy,
};
use naijascript::sys::{self, ProcessRunner};

use crate::util::{self, Rng};

pub fn main(args: &[String]) -> i32 {
    match args.first().map(String::as_str) {
        Some("gen") => generate(&args[1..]),
        Some("run") => run(&args[1..]),
        Some("child") => child(&args[1..]),
        _ => {
            eprintln!(
                "usage: nvh capture gen --seed S --n N [--mode mix|d16|race|utf8|rd|stdin|close] | nvh capture run [--jobs J] < requests | nvh capture child ..."
            );
            2
        }
    }
}

/// Constants of the compiled crate (the private ones are extracted by regex in extract/gen_capture.py).
pub fn dump_tables(out: &mut Vec<(String, String)>) {
    let caps = ProcessCaps::defaults();
    out.push(("capture_default_cap".into(), caps.max_capture_bytes_per_stream.to_string()));
    out.push(("capture_default_poll_ms".into(), caps.wait_poll_ms.to_string()));
    out.push(("capture_default_timeout_ms".into(), caps.default_timeout_ms.to_string()));
    out.push(("capture_max_timeout_ms".into(), caps.max_timeout_ms.to_string()));
}

// ------------------------------------------------------------------------------------------------
// patterns

const EURO: [u8; 3] = [0xE2, 0x82, 0xAC]; // "€"
const WON: [u8; 3] = [0xE2, 0x82, 0xA9]; // "₩"
const GRIN: [u8; 4] = [0xF0, 0x9F, 0x98, 0x80];
const BEAM: [u8; 4] = [0xF0, 0x9F, 0x98, 0x81];

/// Byte at offset `off` of stream `err` under pattern `k`.
fn pat_byte(err: bool, k: u8, off: usize) -> u8 {
    match k {
        b'a' => (if err { b'A' } else { b'a' }) + (off % 26) as u8,
        b'm' => (if err { WON } else { EURO })[off % 3],
        b'g' => (if err { BEAM } else { GRIN })[off % 4],
        _ => {
            if err {
                0xFE
            } else {
                0xFF
            }
        }
    }
}

#[derive(Clone, Debug)]
enum Tok {
    Sleep(u64),
    Write { err: bool, n: usize, k: u8 },
    SigpipeDefault,
    Exit(i32),
    KillSelf,
    Hang,
    ReadIn(Option<usize>),
    CloseIn,
    /// close (or, `devnull`, redirect to /dev/null) stdout and / or stderr and carry on
    CloseOut { out: bool, err: bool, devnull: bool },
    /// fork a grandchild that sleeps `ms`; `keep`: it keeps the inherited descriptors open
    Fork { ms: u64, keep: bool },
}

fn parse_tok(t: &str) -> Option<Tok> {
    let b = t.as_bytes();
    match *b.first()? {
        b's' => Some(Tok::Sleep(t[1..].parse().ok()?)),
        b'o' | b'e' => {
            let k = *b.last()?;
            if !matches!(k, b'a' | b'm' | b'g' | b'x') {
                return None;
            }
            Some(Tok::Write { err: b[0] == b'e', n: t[1..t.len() - 1].parse().ok()?, k })
        }
        b'p' if t.len() == 1 => Some(Tok::SigpipeDefault),
        b'x' => Some(Tok::Exit(t[1..].parse().ok()?)),
        b'k' if t.len() == 1 => Some(Tok::KillSelf),
        b'h' if t.len() == 1 => Some(Tok::Hang),
        b'c' if t.len() == 1 => Some(Tok::CloseIn),
        b'r' if t.len() == 1 => Some(Tok::ReadIn(None)),
        b'r' => Some(Tok::ReadIn(Some(t[1..].parse().ok()?))),
        b'C' | b'N' if t.len() == 2 => {
            let (out, err) = match b[1] {
                b'o' => (true, false),
                b'e' => (false, true),
                b'b' => (true, true),
                _ => return None,
            };
            Some(Tok::CloseOut { out, err, devnull: b[0] == b'N' })
        }
        b'F' | b'G' => Some(Tok::Fork { ms: t[1..].parse().ok()?, keep: b[0] == b'F' }),
        _ => None,
    }
}

/// The bytes the script writes to each stream while it has the stream open (a write after the
/// stream was closed or redirected reaches no pipe; tokens after the ending are never executed).
fn plan_bytes(toks: &[Tok]) -> (Vec<u8>, Vec<u8>) {
    let (mut o, mut e) = (Vec::new(), Vec::new());
    let (mut closed_o, mut closed_e) = (false, false);
    for t in toks {
        match *t {
            Tok::Write { err, n, k } => {
                if (err && closed_e) || (!err && closed_o) {
                    continue;
                }
                let v = if err { &mut e } else { &mut o };
                for _ in 0..n {
                    let off = v.len();
                    v.push(pat_byte(err, k, off));
                }
            }
            Tok::CloseOut { out, err, .. } => {
                closed_o |= out;
                closed_e |= err;
            }
            Tok::Exit(_) | Tok::KillSelf | Tok::Hang => break,
            _ => {}
        }
    }
    (o, e)
}

// ------------------------------------------------------------------------------------------------
// the helper child

fn write_all_fd(fd: i32, mut buf: &[u8]) -> bool {
    while !buf.is_empty() {
        let n = unsafe { libc::write(fd, buf.as_ptr().cast(), buf.len()) };
        if n < 0 {
            let e = std::io::Error::last_os_error();
            if e.kind() == std::io::ErrorKind::Interrupted {
                continue;
            }
            return false; // EPIPE: give up on these bytes, carry on with the script
        }
        buf = &buf[n as usize..];
    }
    true
}

fn child(args: &[String]) -> i32 {
    let mut us = 0u64;
    let mut toks = Vec::new();
    let mut pidfile: Option<String> = None;
    for a in args {
        if let Some(p) = a.strip_prefix("pidfile=") {
            pidfile = Some(p.to_string());
            // write-then-rename so that a reader never sees a partial file
            let tmp = format!("{p}.tmp");
            if let Ok(mut f) = File::create(&tmp) {
                let _ = write!(f, "{}", std::process::id());
                drop(f);
                let _ = std::fs::rename(&tmp, p);
            }
        } else if let Some(v) = a.strip_prefix("us=") {
            us = v.parse().unwrap_or(0);
        } else if let Some(v) = a.strip_prefix("cpu=") {
            // leave the contended core the runner's threads are pinned to
            if v == "free" {
                unsafe {
                    let mut set: libc::cpu_set_t = std::mem::zeroed();
                    for c in 0..(libc::CPU_SETSIZE as usize).min(256) {
                        libc::CPU_SET(c, &mut set);
                    }
                    libc::sched_setaffinity(0, std::mem::size_of::<libc::cpu_set_t>(), &set);
                }
            }
        } else if let Some(t) = parse_tok(a) {
            toks.push(t);
        } else {
            return 97;
        }
    }
    let (mut off_o, mut off_e) = (0usize, 0usize);
    for t in &toks {
        match *t {
            Tok::Sleep(ms) => std::thread::sleep(Duration::from_millis(ms)),
            Tok::Write { err, n, k } => {
                if us > 0 {
                    std::thread::sleep(Duration::from_micros(us));
                }
                let off = if err { &mut off_e } else { &mut off_o };
                let buf: Vec<u8> = (0..n).map(|i| pat_byte(err, k, *off + i)).collect();
                *off += n;
                let _ = write_all_fd(if err { 2 } else { 1 }, &buf);
            }
            Tok::SigpipeDefault => unsafe {
                libc::signal(libc::SIGPIPE, libc::SIG_DFL);
            },
            Tok::Exit(c) => unsafe { libc::_exit(c) },
            Tok::KillSelf => unsafe {
                libc::kill(libc::getpid(), libc::SIGKILL);
                libc::pause();
            },
            Tok::Hang => loop {
                std::thread::sleep(Duration::from_secs(3600));
            },
            Tok::ReadIn(limit) => {
                let mut buf = vec![0u8; 65_536];
                let mut got = 0usize;
                while limit.is_none_or(|l| got < l) {
                    let want = limit.map_or(buf.len(), |l| (l - got).min(buf.len()));
                    let n = unsafe { libc::read(0, buf.as_mut_ptr().cast(), want) };
                    if n < 0 && io::Error::last_os_error().kind() == io::ErrorKind::Interrupted {
                        continue;
                    }
                    if n <= 0 {
                        break;
                    }
                    got += n as usize;
                }
            }
            Tok::CloseIn => unsafe {
                libc::close(0);
            },
            Tok::CloseOut { out, err, devnull } => unsafe {
                for (fd, on) in [(1, out), (2, err)] {
                    if !on {
                        continue;
                    }
                    if devnull {
                        let null = libc::open(c"/dev/null".as_ptr(), libc::O_WRONLY);
                        if null >= 0 && null != fd {
                            libc::dup2(null, fd);
                            libc::close(null);
                        }
                    } else {
                        libc::close(fd);
                    }
                }
            },
            Tok::Fork { ms, keep } => unsafe {
                let g = libc::fork();
                if g == 0 {
                    // the grandchild (this process is single-threaded: anything goes after fork)
                    if !keep {
                        libc::close(0);
                        libc::close(1);
                        libc::close(2);
                    }
                    if let Some(p) = &pidfile {
                        let tmp = format!("{p}.g.tmp");
                        if let Ok(mut f) = File::create(&tmp) {
                            let _ = write!(f, "{}", std::process::id());
                            drop(f);
                            let _ = std::fs::rename(&tmp, format!("{p}.g"));
                        }
                    }
                    std::thread::sleep(Duration::from_millis(ms));
                    libc::_exit(0);
                }
            },
        }
    }
    0
}

// ------------------------------------------------------------------------------------------------
// running scenarios

#[derive(Clone, Debug)]
struct Scenario {
    cap: u32,
    poll: u32,
    timeout: u32,
    out: OutputPolicy,
    err: OutputPolicy,
    reps: u32,
    hogs: u32,
    stdin: Option<usize>,
    toks: Vec<Tok>,
    raw_toks: Vec<String>,
}

fn pol(s: &str) -> Option<OutputPolicy> {
    match s {
        "c" => Some(OutputPolicy::Capture),
        "n" => Some(OutputPolicy::Null),
        "i" => Some(OutputPolicy::Inherit),
        _ => None,
    }
}

fn parse_scenario(line: &str) -> Option<Scenario> {
    let mut it = line.split_whitespace();
    if it.next()? != "sc" {
        return None;
    }
    let mut sc = Scenario {
        cap: 0,
        poll: 10,
        timeout: 20_000,
        out: OutputPolicy::Capture,
        err: OutputPolicy::Capture,
        reps: 1,
        hogs: 0,
        stdin: None,
        toks: Vec::new(),
        raw_toks: Vec::new(),
    };
    let mut in_child = false;
    for w in it {
        if in_child {
            sc.toks.push(parse_tok(w)?);
            sc.raw_toks.push(w.to_string());
        } else if w == "|" {
            in_child = true;
        } else {
            let (k, v) = w.split_once('=')?;
            match k {
                "cap" => sc.cap = v.parse().ok()?,
                "poll" => sc.poll = v.parse().ok()?,
                "timeout" => sc.timeout = v.parse().ok()?,
                "out" => sc.out = pol(v)?,
                "err" => sc.err = pol(v)?,
                "reps" => sc.reps = v.parse().ok()?,
                "hogs" => sc.hogs = v.parse().ok()?,
                "stdin" => sc.stdin = Some(v.parse().ok()?),
                "fixed" => {} // model-side switch (which join_capture is modelled); ignored here
                _ => return None,
            }
        }
    }
    Some(sc)
}

fn stream_name(s: ProcessStream) -> &'static str {
    match s {
        ProcessStream::Stdout => "out",
        ProcessStream::Stderr => "err",
    }
}

fn describe(got: Option<&str>, want: &[u8]) -> String {
    match got {
        None => "null".to_string(),
        Some(s) if s.as_bytes() == want => "full".to_string(),
        Some(s) if want.starts_with(s.as_bytes()) => format!("trunc{}", s.len()),
        Some(s) => format!("other{}", s.len()),
    }
}

static PID_SEQ: AtomicUsize = AtomicUsize::new(0);

fn pid_state(pid: i32) -> &'static str {
    let r = unsafe { libc::kill(pid, 0) };
    if r != 0 {
        return "gone";
    }
    match std::fs::read_to_string(format!("/proc/{pid}/stat")) {
        Ok(s) => {
            // "pid (comm) S ..."
            match s.rsplit_once(')').and_then(|(_, r)| r.trim_start().chars().next()) {
                Some('Z') => "zombie",
                _ => "running",
            }
        }
        Err(_) => "gone",
    }
}

struct RepResult {
    outcome: String,
    pid: &'static str,
    oracle: Vec<String>,
}

/// One repetition: the real runner against the helper child. Runs on its own thread so that a run
/// that never returns is detected (the child is then killed through its pid to release the thread).
fn run_rep(sc: &Scenario, rep: u32, tmpdir: &str, exe: &str) -> RepResult {
    let (plan_o, plan_e) = plan_bytes(&sc.toks);
    let pidfile = format!("{tmpdir}/{}.pid", PID_SEQ.fetch_add(1, Ordering::Relaxed));
    let _ = std::fs::remove_file(&pidfile);
    let us = (u64::from(rep) * 137) % 1500;
    let mut argv: Vec<String> = vec![
        "capture".into(),
        "child".into(),
        format!("pidfile={pidfile}"),
        format!("us={us}"),
    ];
    if sc.hogs > 0 {
        argv.push("cpu=free".into());
    }
    argv.extend(sc.raw_toks.iter().cloned());

    let started = std::time::Instant::now();
    let (tx, rx) = mpsc::channel();
    let sc2 = sc.clone();
    let exe2 = exe.to_string();
    let hogs_stop = Arc::new(AtomicBool::new(false));
    let hs = Arc::clone(&hogs_stop);
    let worker = std::thread::spawn(move || {
        // Optional scheduling pressure: pin this thread (the runner's reader threads inherit the
        // mask) to one core and keep that core busy, so that the reader threads and the polling
        // waiter are delayed by whole time slices relative to the child.
        let mut hog_handles = Vec::new();
        if sc2.hogs > 0 {
            unsafe {
                let cpu = libc::sched_getcpu().max(0) as usize;
                let mut set: libc::cpu_set_t = std::mem::zeroed();
                libc::CPU_SET(cpu, &mut set);
                libc::sched_setaffinity(0, std::mem::size_of::<libc::cpu_set_t>(), &set);
            }
            for _ in 0..sc2.hogs {
                let stop = Arc::clone(&hs);
                hog_handles.push(std::thread::spawn(move || {
                    let mut x = 0u64;
                    while !stop.load(Ordering::Relaxed) {
                        for _ in 0..2000 {
                            x = x.wrapping_mul(6364136223846793005).wrapping_add(1);
                        }
                        std::hint::black_box(x);
                    }
                }));
            }
        }
        let r = util::catch(|| {
            let arena = Arena::new(8 << 20).expect("arena");
            let args: Vec<ArenaString<'_>> =
                argv.iter().map(|a| ArenaString::from_str(&arena, a)).collect();
            let stdin = match sc2.stdin {
                None => StdinPolicy::Null,
                Some(n) => StdinPolicy::Text(ArenaString::from_str(&arena, &"i".repeat(n))),
            };
            let spec = ProcessSpec {
                program: &exe2,
                args: &args,
                cwd: None,
                env: &[],
                stdin: &stdin,
                stdout: sc2.out,
                stderr: sc2.err,
                timeout_ms: sc2.timeout,
            };
            let mut caps = ProcessCaps::defaults();
            caps.max_capture_bytes_per_stream = sc2.cap;
            caps.wait_poll_ms = sc2.poll;
            match <sys::process as ProcessRunner>::run(&spec, &caps, &arena) {
                Ok(r) => Ok((
                    r.success,
                    r.exit_code,
                    r.stdout.as_ref().map(|s| s.as_str().to_string()),
                    r.stderr.as_ref().map(|s| s.as_str().to_string()),
                )),
                Err(e) => Err(match e {
                    ProcessError::OutputLimitExceeded(s) => format!("ole:{}", stream_name(s)),
                    ProcessError::InvalidUtf8(s) => format!("badutf8:{}", stream_name(s)),
                    ProcessError::Timeout => "timeout".to_string(),
                    ProcessError::SpawnFailed(_) => "spawnfail".to_string(),
                    other => format!("other-error:{other:?}").replace(' ', "_"),
                }),
            }
        });
        hs.store(true, Ordering::Relaxed);
        for h in hog_handles {
            let _ = h.join();
        }
        let _ = tx.send(r);
    });

    let read_pid = || -> Option<i32> { std::fs::read_to_string(&pidfile).ok()?.trim().parse().ok() };
    // generous wall limit: the scenario's own timeout plus its sleeps plus slack
    let sleeps: u64 = sc.toks.iter().map(|t| if let Tok::Sleep(ms) = t { *ms } else { 0 }).sum();
    // what the child sleeps before it ends by itself: a lower bound of its life time
    let asleep: u64 = sc
        .toks
        .iter()
        .take_while(|t| !matches!(t, Tok::Exit(_) | Tok::KillSelf | Tok::Hang))
        .map(|t| if let Tok::Sleep(ms) = t { *ms } else { 0 })
        .sum();
    let limit = Duration::from_millis(u64::from(sc.timeout) + sleeps + 8_000);
    let mut oracle = Vec::new();
    let gfile = format!("{pidfile}.g");
    let read_gpid = || -> Option<i32> { std::fs::read_to_string(&gfile).ok()?.trim().parse().ok() };
    let res = match rx.recv_timeout(limit) {
        Ok(r) => {
            let _ = worker.join();
            Some(r)
        }
        Err(_) => {
            hogs_stop.store(true, Ordering::Relaxed);
            // release the stuck runner: kill the child (and a grandchild holding the pipes) ourselves
            for pid in [read_pid(), read_gpid()].into_iter().flatten() {
                unsafe {
                    libc::kill(pid, libc::SIGKILL);
                }
            }
            let _ = rx.recv_timeout(Duration::from_secs(10));
            None
        }
    };
    // Whatever the child does, the run is over when the child ends by itself or at the deadline
    // (plus one poll interval, plus scheduling): a run that returns seconds after its timeout was
    // waiting for something other than the child and the clock.
    let elapsed = started.elapsed().as_millis() as u64;
    if res.is_some() && elapsed > u64::from(sc.timeout) + 3_000 {
        oracle.push(format!(
            "the run returned more than 3 s after its deadline (timeout {} ms): the runner was blocked on something other than the child and the clock",
            sc.timeout
        ));
    }
    // a grandchild forked by the script must not outlive the repetition (it is ours to clean up)
    if let Some(g) = read_gpid() {
        unsafe {
            libc::kill(g, libc::SIGKILL);
        }
    }
    let _ = std::fs::remove_file(&gfile);
    let planned_code: Option<Option<i32>> = sc.toks.iter().find_map(|t| match t {
        Tok::Exit(c) => Some(Some(*c & 0xff)),
        Tok::KillSelf => Some(None),
        Tok::Hang => Some(None),
        _ => None,
    });
    let outcome = match res {
        None => {
            oracle.push("the run did not return (runner stuck)".to_string());
            "stuck".to_string()
        }
        Some(Err(_panic)) => "panic".to_string(),
        Some(Ok(Err(e))) => e,
        Some(Ok(Ok((success, code, so, se)))) => {
            let d_o = describe(so.as_deref(), &plan_o);
            let d_e = describe(se.as_deref(), &plan_e);
            for (name, d, got, policy) in
                [("stdout", &d_o, &so, sc.out), ("stderr", &d_e, &se, sc.err)]
            {
                let captured = policy == OutputPolicy::Capture;
                if captured && d != "full" {
                    oracle.push(format!(
                        "ok result but captured {name} is not what the child was told to write ({d})"
                    ));
                }
                if !captured && got.is_some() {
                    oracle.push(format!("uncaptured {name} is not null"));
                }
                if let Some(g) = got
                    && g.len() > sc.cap as usize
                {
                    oracle.push(format!("captured {name} has {} bytes, cap {}", g.len(), sc.cap));
                }
            }
            if success != (code == Some(0)) {
                oracle.push("success flag disagrees with exit code".to_string());
            }
            let hangs = sc.toks.iter().any(|t| matches!(t, Tok::Hang));
            if hangs {
                oracle.push("ok result for a child that never exits".to_string());
            } else if asleep >= u64::from(sc.timeout) + 500 {
                oracle.push(format!(
                    "ok result for a child that sleeps {asleep} ms, timeout {} ms: no timeout error and the child was not killed",
                    sc.timeout
                ));
            } else if let Some(pc) = planned_code
                && pc != code
            {
                oracle.push(format!("exit code {code:?}, planned {pc:?}"));
            }
            let c = code.map_or("sig".to_string(), |c| c.to_string());
            format!("ok:{c}:{d_o}:{d_e}")
        }
    };
    // the child must be gone: neither running nor a zombie
    let pid = match read_pid() {
        Some(pid) => {
            let st = pid_state(pid);
            if st != "gone" && outcome != "stuck" {
                oracle.push(format!("child still present after the run ({st})"));
                // clean up after a runner that leaks children
                unsafe {
                    libc::kill(pid, libc::SIGKILL);
                }
            }
            st
        }
        None => "unknown",
    };
    let _ = std::fs::remove_file(&pidfile);
    RepResult { outcome, pid, oracle }
}

fn utf8_answer(hexs: &str) -> String {
    match util::unhex(hexs) {
        Some(b) => (if std::str::from_utf8(&b).is_ok() { "valid" } else { "invalid" }).to_string(),
        None => "bad-op".to_string(),
    }
}

fn run(args: &[String]) -> i32 {
    let jobs = util::opt_u64(args, "--jobs", 6).max(1) as usize;
    let lines = util::stdin_lines();
    // Answers go to the original stdout / stderr; fds 1 and 2 are then pointed at /dev/null so that
    // children with an *inherited* stream cannot write into the protocol.
    let (mut ans, mut diag) = unsafe {
        let a = libc::dup(1);
        let d = libc::dup(2);
        let null = libc::open(c"/dev/null".as_ptr(), libc::O_WRONLY);
        libc::dup2(null, 1);
        libc::dup2(null, 2);
        libc::close(null);
        (File::from_raw_fd(a), File::from_raw_fd(d))
    };
    util::silence_panics();
    let exe = std::env::current_exe().expect("current_exe").to_string_lossy().to_string();
    let tmpdir = format!(
        "{}/capture-{}",
        std::env::var("NV_TMP").unwrap_or_else(|_| std::env::temp_dir().to_string_lossy().to_string()),
        std::process::id()
    );
    let _ = std::fs::create_dir_all(&tmpdir);

    let n = lines.len();
    let next = Arc::new(AtomicUsize::new(0));
    let results: Arc<Mutex<Vec<Option<(String, Vec<String>)>>>> = Arc::new(Mutex::new(vec![None; n]));
    let lines = Arc::new(lines);
    let mut handles = Vec::new();
    for _ in 0..jobs {
        let (next, results, lines, tmpdir, exe) =
            (Arc::clone(&next), Arc::clone(&results), Arc::clone(&lines), tmpdir.clone(), exe.clone());
        handles.push(std::thread::spawn(move || {
            loop {
                let i = next.fetch_add(1, Ordering::Relaxed);
                if i >= lines.len() {
                    break;
                }
                let line = lines[i].trim();
                let mut oracle = Vec::new();
                let answer = if let Some(h) = line.strip_prefix("utf8 ") {
                    utf8_answer(h.trim())
                } else if line.starts_with("rd ") {
                    // answered by the separate binary `nvcaprd` (harness-caprd/main.rs), see the header
                    "nohook".to_string()
                } else if let Some(sc) = parse_scenario(line) {
                    let mut outs: BTreeMap<String, u32> = BTreeMap::new();
                    let mut pids: BTreeMap<&'static str, u32> = BTreeMap::new();
                    for rep in 0..sc.reps.max(1) {
                        let r = run_rep(&sc, rep, &tmpdir, &exe);
                        let stuck = r.outcome == "stuck";
                        *outs.entry(r.outcome).or_insert(0) += 1;
                        *pids.entry(r.pid).or_insert(0) += 1;
                        for o in r.oracle {
                            if !oracle.contains(&o) {
                                oracle.push(o);
                            }
                        }
                        if stuck {
                            break; // every further repetition would cost the full wall limit again
                        }
                    }
                    let o: Vec<String> = outs.iter().map(|(k, v)| format!("{k}*{v}")).collect();
                    let p: Vec<String> = pids.iter().map(|(k, v)| format!("{k}*{v}")).collect();
                    format!("obs {} | pid {}", o.join(" "), p.join(" "))
                } else {
                    "bad-op".to_string()
                };
                results.lock().unwrap()[i] = Some((answer, oracle));
            }
        }));
    }
    for h in handles {
        let _ = h.join();
    }
    let results = results.lock().unwrap();
    for (i, r) in results.iter().enumerate() {
        let (a, o) = r.clone().unwrap_or(("panic".to_string(), Vec::new()));
        let _ = writeln!(ans, "{a}");
        for what in o {
            let _ = writeln!(diag, "ORACLE-FAIL {} {}", i + 1, what);
        }
    }
    let _ = ans.flush();
    let _ = std::fs::remove_dir_all(&tmpdir);
    0
}

// ------------------------------------------------------------------------------------------------
// generator

const POLS: [&str; 3] = ["c", "n", "i"];
const CODES: [i32; 7] = [0, 0, 1, 2, 3, 42, 255];

fn around(rng: &mut Rng, cap: u32) -> u32 {
    // sizes around the cap, with the boundary itself the most likely
    let c = i64::from(cap);
    let v = match rng.below(12) {
        0 => 0,
        1 => c / 2,
        2 => c - 1,
        3 | 4 => c,
        5 | 6 => c + 1,
        7 => c + 2,
        8 => c + 3,
        9 => c * 2 + 1,
        10 => c + 8192,
        _ => c + 8193,
    };
    v.max(0) as u32
}

/// Split `n` bytes of one stream into 1..=3 write tokens (a cut can fall inside a character).
fn writes(rng: &mut Rng, letter: char, n: u32, k: char) -> Vec<String> {
    if n == 0 {
        return if rng.chance(1, 2) { vec![] } else { vec![format!("{letter}0{k}")] };
    }
    let parts = 1 + rng.below(3) as u32;
    let mut cuts: Vec<u32> = (0..parts - 1).map(|_| rng.below(u64::from(n) + 1) as u32).collect();
    cuts.push(0);
    cuts.push(n);
    cuts.sort_unstable();
    cuts.windows(2).filter(|w| w[1] > w[0]).map(|w| format!("{letter}{}{k}", w[1] - w[0])).collect()
}

fn sleep_tok(rng: &mut Rng) -> Option<String> {
    match rng.below(6) {
        0 => Some("s1".into()),
        1 => Some(format!("s{}", 2 + rng.below(12))),
        2 => Some(format!("s{}", 15 + rng.below(25))),
        _ => None,
    }
}

fn generate(args: &[String]) -> i32 {
    let seed = util::opt_u64(args, "--seed", 1);
    let n = util::opt_u64(args, "--n", 150);
    let mode = util::opt(args, "--mode").unwrap_or("mix").to_string();
    let reps_default = util::opt_u64(args, "--reps", 3);
    let hogs_opt = util::opt_u64(args, "--hogs", 0);
    let mut rng = Rng::new(seed ^ 0xC16);
    let mut out = util::Out::new();
    if mode == "utf8" {
        gen_utf8(&mut rng, n, &mut out);
        return 0;
    }
    if mode == "rd" {
        gen_rd(&mut rng, n, &mut out);
        return 0;
    }
    if mode == "stdin" {
        gen_stdin(&mut rng, n, &mut out);
        return 0;
    }
    if mode == "close" {
        gen_close(&mut rng, n, &mut out);
        return 0;
    }
    for i in 0..n {
        let caps: &[u32] = &[0, 1, 3, 4, 5, 16, 100, 999, 4096, 8191, 8192, 8193, 20_000, 70_000];
        let mut cap = *rng.pick(caps);
        let poll = *rng.pick(&[1u32, 1, 2, 5, 10]);
        // all nine policy combinations, in rotation, so that every one is hit in every run
        let (mut po, mut pe) = (POLS[(i % 3) as usize], POLS[((i / 3) % 3) as usize]);
        if mode != "mix" || rng.chance(1, 3) {
            (po, pe) = ("c", "c");
        }
        let mut kinds = ['a', 'a', 'm', 'm', 'g', 'x'];
        let (mut ko, mut ke) = (*rng.pick(&kinds), *rng.pick(&kinds));
        let shape = if mode == "d16" {
            2
        } else if mode == "race" {
            7
        } else {
            rng.below(10)
        };
        let (mut no, mut ne);
        let mut hang = false;
        let mut timeout = 20_000u32;
        let mut reps = reps_default;
        let mut hogs = hogs_opt;
        match shape {
            0 | 1 => {
                // one stream around the cap, the other small
                no = around(&mut rng, cap);
                ne = rng.below(u64::from(cap.min(40)) + 1) as u32;
                if shape == 1 {
                    std::mem::swap(&mut no, &mut ne);
                }
            }
            2 => {
                // both streams over the cap, multi-byte text: the D-16 shape
                if cap > 8193 {
                    cap = *rng.pick(&[4u32, 5, 16, 100, 999, 4096]);
                }
                kinds = ['m', 'm', 'm', 'g', 'g', 'a'];
                ko = *rng.pick(&kinds);
                ke = *rng.pick(&kinds);
                no = cap + 1 + rng.below(8) as u32;
                ne = cap + 1 + rng.below(8) as u32;
            }
            3 => {
                // both around the cap
                no = around(&mut rng, cap);
                ne = around(&mut rng, cap);
            }
            4 => {
                // hang: after some, none or too much output
                hang = true;
                timeout = 200 + rng.below(101) as u32;
                no = if rng.chance(1, 3) { around(&mut rng, cap) } else { rng.below(20) as u32 };
                ne = if rng.chance(1, 4) { around(&mut rng, cap) } else { rng.below(20) as u32 };
                reps = reps.min(2);
            }
            5 => {
                // small, valid or invalid UTF-8 well below the cap
                cap = cap.max(100);
                no = rng.below(60) as u32;
                ne = rng.below(60) as u32;
            }
            6 => {
                // larger than a pipe: the child blocks until the reader drains
                cap = *rng.pick(&[70_000u32, 100_000, 140_000]);
                no = *rng.pick(&[cap - 1, cap, cap + 1, 66_000, cap + 9000]);
                ne = if rng.chance(1, 3) { *rng.pick(&[cap, cap + 1, 66_000]) } else { rng.below(50) as u32 };
                ko = *rng.pick(&['a', 'm']);
                ke = *rng.pick(&['a', 'm']);
                reps = reps.min(2);
            }
            7 => {
                // exit immediately after crossing the cap: the post-exit re-check of the flag
                if cap > 8193 {
                    cap = *rng.pick(&[4u32, 16, 100, 4096]);
                }
                no = cap + 1 + rng.below(3) as u32;
                ne = if rng.chance(1, 2) { cap + 1 } else { 0 };
                if rng.chance(1, 2) {
                    std::mem::swap(&mut no, &mut ne);
                }
                if mode == "race" && hogs == 0 {
                    hogs = 2;
                }
            }
            _ => {
                no = rng.below(u64::from(cap) + 10) as u32;
                ne = rng.below(u64::from(cap) + 10) as u32;
            }
        }
        if po != "c" {
            no = no.min(5000);
        }
        if pe != "c" {
            ne = ne.min(5000);
        }
        // the script
        let mut toks: Vec<String> = Vec::new();
        if rng.chance(1, 12) {
            toks.push("p".into());
        }
        if let Some(s) = sleep_tok(&mut rng) {
            toks.push(s);
        }
        let wo = writes(&mut rng, 'o', no, ko);
        let we = writes(&mut rng, 'e', ne, ke);
        // interleave the two streams' writes in a random order, sleeps in between
        let (mut io, mut ie) = (0, 0);
        while io < wo.len() || ie < we.len() {
            let take_o = ie >= we.len() || (io < wo.len() && rng.chance(1, 2));
            if take_o {
                toks.push(wo[io].clone());
                io += 1;
            } else {
                toks.push(we[ie].clone());
                ie += 1;
            }
            if shape != 7
                && let Some(s) = sleep_tok(&mut rng)
            {
                toks.push(s);
            }
        }
        if hang {
            toks.push("h".into());
        } else if rng.chance(1, 14) {
            toks.push("k".into());
        } else {
            toks.push(format!("x{}", rng.pick(&CODES)));
        }
        out.line(&format!(
            "sc cap={cap} poll={poll} timeout={timeout} out={po} err={pe} reps={reps} hogs={hogs} | {}",
            toks.join(" ")
        ));
    }
    0
}

const ERR_KINDS: [&str; 7] =
    ["interrupted", "wouldblock", "other", "brokenpipe", "unexpectedeof", "timedout", "connreset"];

/// Scripts for the `rd` sub-stream: data around the cap and around the reader's chunk, failing reads
/// at the first read, after the cap has been reached exactly, between two pieces that together
/// overflow, after an overflow, after the end of the stream; zero-length reads; a flag already taken.
fn gen_rd(rng: &mut Rng, n: u64, out: &mut util::Out) {
    let caps: &[u32] = &[0, 1, 5, 16, 100, 999, 8191, 8192, 8193, 20_000];
    for i in 0..n {
        let cap = *rng.pick(caps);
        let c = cap as usize;
        let code = 1 + rng.below(2);
        let mut flag = 0u64;
        let kind = |rng: &mut Rng| *rng.pick(&['d', 'd', 'd', 'm', 'x']);
        let fail = |rng: &mut Rng| format!("E:{}", rng.pick(&ERR_KINDS));
        let mut evs: Vec<String> = Vec::new();
        // split `total` bytes into 1..=3 data events
        let pieces = |rng: &mut Rng, total: usize, evs: &mut Vec<String>| {
            if total == 0 {
                return;
            }
            let parts = 1 + rng.below(3) as usize;
            let mut cuts: Vec<usize> = (0..parts - 1).map(|_| rng.below(total as u64 + 1) as usize).collect();
            cuts.push(0);
            cuts.push(total);
            cuts.sort_unstable();
            let k = *rng.pick(&['d', 'd', 'm']);
            for w in cuts.windows(2).filter(|w| w[1] > w[0]) {
                evs.push(format!("{k}{}", w[1] - w[0]));
            }
        };
        match i % 10 {
            0 => {
                // a failing read first
                evs.push(fail(rng));
                let t = rng.below(c as u64 + 2) as usize;
                pieces(rng, t, &mut evs);
            }
            1 => {
                // the cap reached exactly, then a failing read (then more data, or the end)
                pieces(rng, c, &mut evs);
                evs.push(fail(rng));
                if rng.chance(1, 2) {
                    evs.push(format!("{}{}", kind(rng), 1 + rng.below(5)));
                }
                evs.push("z".into());
            }
            2 => {
                // a failing read between two pieces that together overflow
                let a = rng.below(c as u64 + 1) as usize;
                if a > 0 {
                    evs.push(format!("d{a}"));
                }
                evs.push(fail(rng));
                evs.push(format!("d{}", c - a + 1 + rng.below(3) as usize));
            }
            3 => {
                // overflow, then a failing read that the loop never gets to
                let t = rng.below(c as u64 + 1) as usize;
                pieces(rng, t, &mut evs);
                evs.push(format!("d{}", c + 1));
                evs.push(fail(rng));
            }
            4 => {
                // the end of the stream, then a failing read / more data that is never read
                let t = rng.below(c as u64 + 1) as usize;
                pieces(rng, t, &mut evs);
                evs.push((*rng.pick(&["z", "d0"])).into());
                evs.push(fail(rng));
                evs.push("d3".into());
            }
            5 => {
                // pieces longer than the reader's buffer
                let total = *rng.pick(&[8192usize, 8193, 16_384, 16_385, 20_000, 30_000]);
                evs.push(format!("d{total}"));
                if rng.chance(1, 2) {
                    evs.push(fail(rng));
                }
                evs.push(format!("d{}", rng.below(9000)));
            }
            6 => {
                // the flag is already taken by the other stream: the CAS must not overwrite it
                flag = 3 - code;
                let t = c + 1 + rng.below(4) as usize;
                pieces(rng, t, &mut evs);
                if rng.chance(1, 3) {
                    evs.insert(0, fail(rng));
                }
            }
            7 => {
                // text that is not UTF-8, or cut inside a character at the end
                let t = rng.below(c as u64 + 1) as usize;
                pieces(rng, t, &mut evs);
                if rng.chance(1, 2) {
                    evs.push(format!("x{}", 1 + rng.below(3)));
                }
                if rng.chance(1, 3) {
                    evs.push(fail(rng));
                }
            }
            _ => {
                let k = rng.below(7);
                for _ in 0..k {
                    match rng.below(10) {
                        0 => evs.push("z".into()),
                        1 | 2 => evs.push(fail(rng)),
                        _ => {
                            let sz = match rng.below(8) {
                                0 => 0,
                                1 => c,
                                2 => c + 1,
                                3 => c / 2,
                                4 => 8192,
                                5 => 8193,
                                _ => rng.below(c as u64 + 3) as usize,
                            };
                            evs.push(format!("{}{sz}", kind(rng)));
                        }
                    }
                }
                if rng.chance(1, 6) {
                    flag = rng.below(3);
                }
            }
        }
        let ev = if evs.is_empty() { "-".to_string() } else { evs.join(",") };
        out.line(&format!("rd cap={cap} code={code} flag={flag} ev={ev}"));
    }
}

/// Scenarios with stdin text: sizes around the pipe capacity against children that read all of it,
/// none of it (and outlive the timeout, or exit at once), or a little and then close it. The first
/// `n` of a fixed matrix (sleeping children first), in a seed-dependent order within each group.
fn gen_stdin(rng: &mut Rng, n: u64, out: &mut util::Out) {
    let sizes: [usize; 7] = [0, 1024, 65_535, 65_536, 65_537, 262_144, 1_048_576];
    let mut late: Vec<String> = Vec::new();
    let mut rest: Vec<String> = Vec::new();
    for (si, &sz) in sizes.iter().enumerate() {
        let timeout = 200 + rng.below(101);
        let poll = *rng.pick(&[1u32, 2, 5, 10]);
        let head = |timeout: u64, reps: u32| {
            format!("sc cap=100 poll={poll} timeout={timeout} out=c err=c reps={reps} hogs=0 stdin={sz} |")
        };
        // (b) reads none of its stdin and is still asleep long after the timeout, then exits by itself
        let o = rng.below(30);
        late.push(format!("{} o{o}a s{} e2a x0", head(timeout, 1), timeout + 1500));
        // (b') … or never exits; sometimes after too much output
        if si % 2 == 0 {
            late.push(format!("{} e3a h", head(timeout, 1)));
        } else {
            late.push(format!("{} o101a h", head(timeout, 1)));
        }
        // (a) reads all of it
        rest.push(format!("{} r o{}a x{}", head(20_000, 2), rng.below(100), rng.pick(&CODES)));
        // (c) reads none and exits at once
        rest.push(format!("{} x{}", head(20_000, 2), rng.pick(&CODES)));
        // (d) reads a little, closes its stdin, carries on
        rest.push(format!("{} r{} c s{} o6m x0", head(20_000, 2), 1 + rng.below(200), 5 + rng.below(40)));
        // reads some, never closes, exits: the rest of the text meets a dead child
        if si % 3 == 1 {
            rest.push(format!("{} r{} s10 e101a x2", head(20_000, 1), 50_000 + rng.below(30_000)));
        }
    }
    for l in late.into_iter().chain(rest).take(n as usize) {
        out.line(&l);
    }
}

/// Children that close (`C`) or redirect to /dev/null (`N`) stdout, stderr or both at a chosen point
/// — at once, after some bytes, after everything — and then go on: sleep past the timeout and exit,
/// hang, exit in time with a code, write more to the other stream, "write" to the closed stream.
/// The first `n` of a matrix (children that outlive their timeout first), seed-dependent sizes.
fn gen_close(rng: &mut Rng, n: u64, out: &mut util::Out) {
    let mut late: Vec<String> = Vec::new();
    let mut rest: Vec<String> = Vec::new();
    let pols = [("c", "c"), ("c", "n"), ("n", "c"), ("c", "i"), ("c", "c")];
    let mut k = 0usize;
    for how in ['C', 'N'] {
        for which in ['b', 'o', 'e'] {
            let (po, pe) = match which {
                // closing one stream only makes its reader finish: every captured stream must be closed
                // for "all readers are done while the child lives"; leave the other one uncaptured half the time
                'o' => [("c", "n"), ("c", "c"), ("c", "i")][k % 3],
                'e' => [("n", "c"), ("c", "c"), ("i", "c")][k % 3],
                _ => pols[k % pols.len()],
            };
            k += 1;
            let cap = *rng.pick(&[16u32, 100, 100, 8192]);
            let poll = *rng.pick(&[1u32, 2, 5, 10]);
            let timeout = 200 + rng.below(101);
            let head = |timeout: u64, reps: u32| {
                format!("sc cap={cap} poll={poll} timeout={timeout} out={po} err={pe} reps={reps} hogs=0 |")
            };
            let close = format!("{how}{which}");
            let no = rng.below(u64::from(cap) + 1);
            let ne = rng.below(u64::from(cap.min(40)) + 1);
            let ko = *rng.pick(&['a', 'a', 'm']);
            // (1) closes at once, sleeps past the timeout, exits by itself
            late.push(format!("{} {close} s{} x0", head(timeout, 1), timeout + 1500));
            // (2) writes, closes, sleeps past the timeout, exits with a code
            late.push(format!("{} o{no}{ko} e{ne}a {close} s{} x{}", head(timeout, 1), timeout + 1500, rng.pick(&CODES)));
            // (3) writes, closes, never exits
            late.push(format!("{} o{no}{ko} {close} e{ne}a h", head(timeout, 1)));
            // (4) closes, "writes" to what it closed (reaches nobody), sleeps past the timeout
            if which != 'b' {
                late.push(format!("{} e2a o3a {close} o7a e7a s{} x0", head(timeout, 1), timeout + 1500));
            }
            // (5) in time: writes, closes, short sleep, more to the other stream, exit code as data
            rest.push(format!("{} o{no}{ko} {close} s{} e{ne}a o5a x{}", head(20_000, 2), 5 + rng.below(40), rng.pick(&CODES)));
            // (6) in time: closes first, then exits at once / by its own signal
            rest.push(format!("{} {close} {}", head(20_000, 2), if rng.chance(1, 3) { "k".to_string() } else { format!("x{}", rng.pick(&CODES)) }));
            // (7) over the cap, then closes and sleeps past the timeout: the limit error, not a timeout
            if which != 'e' && po == "c" {
                late.push(format!("{} o{}a {close} s{} x0", head(timeout, 1), cap + 1 + rng.below(3) as u32, timeout + 1500));
            }
            // (8) invalid UTF-8, closed, in time
            if which != 'e' && po == "c" {
                rest.push(format!("{} o2a o1x {close} s3 x0", head(20_000, 2)));
            }
        }
    }
    // a well-behaved grandchild (detaches from the inherited descriptors) outliving everything
    late.push("sc cap=100 poll=5 timeout=250 out=c err=c reps=1 hogs=0 | o5a G3000 h".to_string());
    rest.push("sc cap=100 poll=5 timeout=20000 out=c err=c reps=2 hogs=0 | o5a G3000 e3a x4".to_string());
    // interleave: two late ones, one in time, so that a small `n` gets both kinds
    let (mut li, mut ri) = (late.into_iter(), rest.into_iter());
    let mut all: Vec<String> = Vec::new();
    loop {
        let before = all.len();
        all.extend(li.by_ref().take(2));
        all.extend(ri.by_ref().take(1));
        if all.len() == before {
            break;
        }
    }
    for l in all.into_iter().take(n as usize) {
        out.line(&l);
    }
}

/// Byte strings for the `utf8` sub-stream: valid text, every boundary of the well-formedness
/// table, truncations and single-byte mutations.
fn gen_utf8(rng: &mut Rng, n: u64, out: &mut util::Out) {
    let seeds: &[&[u8]] = &[
        b"",
        b"a",
        &[0x7f],
        &[0x80],
        &[0xbf],
        &[0xc0, 0x80],
        &[0xc1, 0xbf],
        &[0xc2, 0x80],
        &[0xc2, 0x7f],
        &[0xdf, 0xbf],
        &[0xdf, 0xc0],
        &[0xe0, 0x9f, 0xbf],
        &[0xe0, 0xa0, 0x80],
        &[0xe1, 0x80, 0x80],
        &[0xec, 0xbf, 0xbf],
        &[0xed, 0x9f, 0xbf],
        &[0xed, 0xa0, 0x80],
        &[0xee, 0x80, 0x80],
        &[0xef, 0xbf, 0xbf],
        &[0xf0, 0x8f, 0xbf, 0xbf],
        &[0xf0, 0x90, 0x80, 0x80],
        &[0xf1, 0x80, 0x80, 0x80],
        &[0xf3, 0xbf, 0xbf, 0xbf],
        &[0xf4, 0x8f, 0xbf, 0xbf],
        &[0xf4, 0x90, 0x80, 0x80],
        &[0xf5, 0x80, 0x80, 0x80],
        &[0xff],
        &[0xfe],
        &[0xe2, 0x82],
        &[0xe2, 0x82, 0xac, 0xe2],
        &[0xf0, 0x9f, 0x98],
    ];
    for s in seeds {
        out.line(&format!("utf8 {}", util::hex(s)));
    }
    let text = "aé€😀ß中\u{7ff}\u{800}\u{ffff}\u{10000}\u{10ffff}z".as_bytes();
    for _ in 0..n {
        let mut v: Vec<u8> = Vec::new();
        let parts = 1 + rng.below(4);
        for _ in 0..parts {
            match rng.below(4) {
                0 => v.extend_from_slice(*rng.pick(seeds)),
                1 => {
                    let a = rng.below(text.len() as u64) as usize;
                    let b = a + rng.below((text.len() - a) as u64 + 1) as usize;
                    v.extend_from_slice(&text[a..b]);
                }
                2 => v.extend_from_slice(text),
                _ => v.push(rng.below(256) as u8),
            }
        }
        if !v.is_empty() && rng.chance(1, 3) {
            let i = rng.below(v.len() as u64) as usize;
            v[i] = rng.below(256) as u8;
        }
        if !v.is_empty() && rng.chance(1, 4) {
            let k = rng.below(v.len() as u64) as usize;
            v.truncate(k);
        }
        out.line(&format!("utf8 {}", util::hex(&v)));
    }
}
