//! Text form of `ProgramFacts` by ids (see `lean/NaijaVerif/Driver/FactsIO.lean` for the grammar):
//! `fns=… scopes=… locals=… stmts=… directs=… calls=…`. Pointer-keyed tables are not printed here
//! (they are the annotations of `astio`), except `user_calls`, printed as sorted `(caller, callee)`
//! pairs because the Rust table is sorted by pointer.

use naijascript::analysis::effects::ExprClass;
use naijascript::analysis::facts::{LocalKind, ProgramFacts};
use naijascript::analysis::ids::INVALID_SCOPE_ID;

use crate::util::hex;

fn opt(v: Option<u32>) -> String {
    v.map_or("_".to_string(), |n| n.to_string())
}

fn ids(v: impl Iterator<Item = u32>) -> String {
    let s: Vec<String> = v.map(|n| n.to_string()).collect();
    if s.is_empty() { "-".to_string() } else { s.join(".") }
}

fn table(rows: Vec<String>) -> String {
    if rows.is_empty() { "-".to_string() } else { rows.join(",") }
}

pub fn class_name(c: ExprClass) -> &'static str {
    match c {
        ExprClass::PureNoTrap => "N",
        ExprClass::PureMayTrap => "T",
        ExprClass::Impure => "I",
    }
}

pub fn facts_str(f: &ProgramFacts<'_, '_>) -> String {
    let fns: Vec<String> = f
        .functions
        .iter()
        .enumerate()
        .map(|(i, x)| {
            format!(
                "{}:{}:{}:{}:{}:{}:{}:{}",
                i,
                hex(x.name.as_bytes()),
                x.params.map_or("_".to_string(), |p| p.params.len().to_string()),
                opt(x.parent.map(|p| p.0)),
                if x.defining_scope == INVALID_SCOPE_ID { "_".to_string() } else { x.defining_scope.0.to_string() },
                opt(x.def_stmt.map(|s| s.0)),
                x.locals_start,
                x.locals_len
            )
        })
        .collect();
    let scopes: Vec<String> =
        f.scopes.iter().enumerate().map(|(i, x)| format!("{}:{}:{}", i, opt(x.parent.map(|p| p.0)), x.owner.0)).collect();
    let locals: Vec<String> = f
        .locals
        .iter()
        .enumerate()
        .map(|(i, x)| {
            format!(
                "{}:{}:{}:{}:{}:{}",
                i,
                hex(x.name.as_bytes()),
                x.owner.0,
                x.declaring_scope.0,
                opt(x.decl_stmt.map(|s| s.0)),
                match x.kind {
                    LocalKind::Parameter => "P",
                    LocalKind::Variable => "V",
                }
            )
        })
        .collect();
    let stmts: Vec<String> = f
        .stmt_effects
        .iter()
        .enumerate()
        .map(|(i, x)| {
            format!(
                "{}:{}:{}:{}:{}:{}:{}",
                i,
                x.function.0,
                x.scope.0,
                ids(x.reads.iter().map(|l| l.0)),
                ids(x.writes.iter().map(|l| l.0)),
                ids(x.direct_callees.iter().map(|l| l.0)),
                class_name(x.expr_class)
            )
        })
        .collect();
    let directs: Vec<String> = f
        .function_directs
        .iter()
        .enumerate()
        .map(|(i, x)| {
            format!(
                "{}:{}:{}:{}",
                i,
                ids(x.direct_callees.iter().map(|l| l.0)),
                ids(x.direct_capture_reads.iter().map(|l| l.0)),
                ids(x.direct_capture_writes.iter().map(|l| l.0))
            )
        })
        .collect();
    let mut calls: Vec<(u32, u32)> = f.user_calls.iter().map(|c| (c.caller.0, c.callee.0)).collect();
    calls.sort_unstable();
    let calls: Vec<String> = calls.iter().map(|(a, b)| format!("{a}:{b}")).collect();
    // scope_locals is derivable from `locals`; check that it really is (ids of a scope in id order)
    for (s, ls) in f.scope_locals.iter().enumerate() {
        let want: Vec<u32> =
            f.locals.iter().enumerate().filter(|(_, l)| l.declaring_scope.0 as usize == s).map(|(i, _)| i as u32).collect();
        let got: Vec<u32> = ls.iter().map(|l| l.0).collect();
        assert_eq!(want, got, "scope_locals is not the per-scope list of locals in id order");
    }
    format!(
        "fns={} scopes={} locals={} stmts={} directs={} calls={}",
        table(fns),
        table(scopes),
        table(locals),
        table(stmts),
        table(directs),
        table(calls)
    )
}
