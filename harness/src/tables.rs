//! `nvh dump-tables`: constants and small tables of the compiled crate, as JSON on stdout.
//! `extract/gen_tables.py` turns them into `lean/NaijaVerif/Gen/*.lean`.

use naijascript::arena::verif_hooks as hooks;

pub fn main(_args: &[String]) -> i32 {
    let mut o = String::from("{\n");
    o.push_str(&format!("\"pool_class_count\": {},\n", hooks::CLASS_COUNT));
    o.push_str(&format!("\"pool_slot_sizes\": {:?},\n", hooks::slot_sizes()));
    o.push_str(&format!("\"pool_slot_counts\": {:?},\n", hooks::slot_counts()));
    let table: Vec<String> = (0u32..=300)
        .map(|n| match hooks::size_class(n) {
            Some(c) => c.to_string(),
            None => "null".to_string(),
        })
        .collect();
    o.push_str(&format!("\"pool_size_class_table\": [{}]\n", table.join(",")));
    o.push_str("}\n");
    print!("{o}");
    0
}
