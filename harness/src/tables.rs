//! `nvh dump-tables`: constants and small tables of the compiled crate, as one JSON object on
//! stdout. `extract/gen_*.py` turn them into `lean/NaijaVerif/Gen/*.lean`. Every family contributes
//! its own keys through `dump_tables`.

use naijascript::arena::verif_hooks as hooks;

pub fn main(_args: &[String]) -> i32 {
    let mut kv: Vec<(String, String)> = Vec::new();
    kv.push(("pool_class_count".into(), hooks::CLASS_COUNT.to_string()));
    kv.push(("pool_slot_sizes".into(), format!("{:?}", hooks::slot_sizes())));
    kv.push(("pool_slot_counts".into(), format!("{:?}", hooks::slot_counts())));
    let table: Vec<String> = (0u32..=300)
        .map(|n| hooks::size_class(n).map_or("null".to_string(), |c| c.to_string()))
        .collect();
    kv.push(("pool_size_class_table".into(), format!("[{}]", table.join(","))));
    crate::bump::dump_tables(&mut kv);
    crate::strs::dump_tables(&mut kv);
    crate::readline::dump_tables(&mut kv);
    crate::render::dump_tables(&mut kv);
    crate::proc::dump_tables(&mut kv);
    crate::limits::dump_tables(&mut kv);
    crate::capture::dump_tables(&mut kv);
    crate::cli::dump_tables(&mut kv);
    crate::lex::dump_tables(&mut kv);
    crate::parse::dump_tables(&mut kv);
    crate::resolve::dump_tables(&mut kv);
    crate::run::dump_tables(&mut kv);
    crate::plan::dump_tables(&mut kv);
    crate::mem::dump_tables(&mut kv);
    crate::depth::dump_tables(&mut kv);
    let body: Vec<String> = kv.iter().map(|(k, v)| format!("\"{k}\": {v}")).collect();
    println!("{{\n{}\n}}", body.join(",\n"));
    0
}
