//! Trace correspondence of family `mem` (C02): request lines
//!
//! ```text
//! m <hex src> <ctl> <lay> <ast … to end of line>   ->   <ending> ev=<events>
//! ```
//!
//! The real run of a program (frame arena on, the `verif-hooks` memory trace recording) yields a hook
//! log (vocabulary: header of proposed-fixes/hook-mem-trace.diff). From the log this module derives
//!
//! * `ctl` — the control oracle of the Lean model `MemEval` (`Model/Mem.lean`): the data-dependent
//!   decisions in order, `br0|br1`, `lp0|lp1`, `sc0|sc1`, `ix<k>`, `split<n>`, `call`, and at most one
//!   final `err:<code>:<lo>:<hi>`;
//! * `lay` — the layout oracle: the frame offset of every `mark` and the length of every `psz` (pool
//!   request), in order of occurrence;
//! * the canonical event list: the log with the operands the model does not know dropped (`rcopy len`,
//!   `stage len`), `err lo hi` + `errk code` merged into `err:code:lo:hi`, and everything after the
//!   error dropped (the root scope pop that follows an error exit is not modelled).
//!
//! `generate` prints the `m` lines (`ctl`, `lay` from a first run in a worker subprocess, the AST
//! printed in-process from the real front end with the resolver's facts); `answer` re-runs the
//! program and returns `<ending> ev=<events>`; the Lean driver answers the same line from
//! `Mem.run Cfg.fixed fuel ast ctl lay`.

use std::collections::{BTreeMap, HashSet};

use naijascript::arena::Arena;

use super::Pool2;
use super::{hook, memgen};
use crate::util::{self, Out};
use crate::{astio, pipeline};

/// Programs whose hook log is longer than this are kept out of the stream (line length).
const MAX_EVENTS: usize = 4000;

/// The canonical view of one worker reply to `T <hex>`.
struct Canon {
    /// `ok | rt | front | panic | abort`
    ending: &'static str,
    /// canonical events (up to and including the error)
    events: Vec<String>,
    ctl: Vec<String>,
    lay: Vec<String>,
    /// number of raw hook events
    raw_len: usize,
    /// a raw event this module does not know (a hook vocabulary change must not pass silently)
    unknown: Option<String>,
}

fn join_or_dash(v: &[String]) -> String {
    if v.is_empty() { "-".to_string() } else { v.join(",") }
}

/// Splits a worker reply `<result> trace=<k:a:b,...>` and canonicalises it.
fn canon(reply: &str) -> Canon {
    let (result, trace) = match reply.split_once(" trace=") {
        Some((r, t)) => (r, t),
        None => (reply, "-"),
    };
    let ending = if result.starts_with("ok") {
        "ok"
    } else if result.starts_with("rt:") {
        "rt"
    } else if result.starts_with("front") {
        "front"
    } else if result.starts_with("abort") {
        "abort"
    } else {
        "panic" // `panic`, and anything unexpected (`bad-op`)
    };
    let mut c = Canon { ending, events: Vec::new(), ctl: Vec::new(), lay: Vec::new(), raw_len: 0, unknown: None };
    if trace == "-" || trace.is_empty() {
        return c;
    }
    // `err lo hi` waits for its `errk code`
    let mut pending_err: Option<(String, String)> = None;
    c.raw_len = trace.split(',').count();
    for ev in trace.split(',') {
        let w: Vec<&str> = ev.split(':').collect();
        let [k, a, b] = w.as_slice() else {
            c.unknown.get_or_insert_with(|| ev.to_string());
            continue;
        };
        if let Some((lo, hi)) = pending_err.take() {
            if *k == "errk" {
                if !strip_unwinding(&mut c.events) {
                    c.unknown.get_or_insert_with(|| "unexpected events between the error site and err".to_string());
                }
                let e = format!("err:{a}:{lo}:{hi}");
                c.ctl.push(e.clone());
                c.events.push(e);
            } else {
                c.unknown.get_or_insert_with(|| format!("err without errk, then {ev}"));
            }
            // nothing after the error is compared
            return c;
        }
        let bit = |x: &str| if x == "0" { "0" } else { "1" };
        match *k {
            "br" | "lp" | "sc" => {
                c.ctl.push(format!("{k}{}", bit(a)));
                c.events.push(format!("{k}:{}", bit(a)));
            }
            "ix" | "split" => {
                c.ctl.push(format!("{k}{a}"));
                c.events.push(format!("{k}:{a}"));
            }
            "call" => {
                c.ctl.push("call".to_string());
                c.events.push(format!("call:{a}"));
            }
            "mark" => {
                c.lay.push((*a).to_string());
                c.events.push(format!("mark:{a}:{b}"));
            }
            "psz" => {
                c.lay.push((*a).to_string());
                c.events.push(format!("psz:{a}"));
            }
            "reset" | "palloc" | "pfree" => c.events.push(format!("{k}:{a}:{b}")),
            "bind" | "rarr" | "parr" | "pfall" | "pop" => c.events.push(format!("{k}:{a}")),
            "ret" | "stage" | "unstage" | "rcopy" | "rhost" | "phost" | "out" => c.events.push((*k).to_string()),
            "err" => pending_err = Some(((*a).to_string(), (*b).to_string())),
            _ => {
                c.unknown.get_or_insert_with(|| ev.to_string());
            }
        }
    }
    if pending_err.is_some() {
        c.unknown.get_or_insert_with(|| "err without errk at the end of the log".to_string());
    }
    c
}

/// The hook logs `err` where the error is reported (`run_inner`), not where it is raised. On the
/// way out every user call whose body was entered (`bind` logged, `ret` not) runs the `pop_scope`
/// of `eval_function_call` (`pop n` and the `pfree`s of that scope); nothing else is logged while an
/// error propagates. The model stops at the error site, so these trailing unwinding pops — exactly
/// one per open call — are removed. `false` if the tail of the log does not have that shape.
fn strip_unwinding(events: &mut Vec<String>) -> bool {
    let kind = |e: &String| e.split(':').next().unwrap_or("").to_string();
    let binds = events.iter().filter(|e| kind(e) == "bind").count();
    let rets = events.iter().filter(|e| kind(e) == "ret").count();
    let Some(open) = binds.checked_sub(rets) else { return false };
    let mut end = events.len();
    for _ in 0..open {
        while end > 0 && kind(&events[end - 1]) == "pfree" {
            end -= 1;
        }
        if end == 0 || kind(&events[end - 1]) != "pop" {
            return false;
        }
        end -= 1;
    }
    events.truncate(end);
    true
}

/// Does the canonical event list contain any memory event (anything beyond control flow, scope
/// pops and output)?
fn interesting(events: &[String]) -> bool {
    events.iter().any(|e| {
        let k = e.split(':').next().unwrap_or("");
        matches!(
            k,
            "mark" | "reset" | "stage" | "unstage" | "rcopy" | "rarr" | "rhost" | "parr" | "phost" | "psz"
                | "palloc" | "pfall" | "pfree"
        )
    })
}

/// The annotated AST of `src` on one line; `None` if the front end rejects the program.
fn ast_line(src: &str) -> Option<String> {
    let arena = Arena::new(pipeline::ARENA_CAP).ok()?;
    pipeline::with_resolved(src, &arena, |root, _pd, res| {
        let res = res?;
        if res.errors.has_errors() {
            return None;
        }
        Some(astio::program(&astio::Opts { spans: true, facts: Some(&res.facts) }, root))
    })
}

#[derive(Default)]
struct Stats {
    candidates: u64,
    kept: u64,
    skipped: BTreeMap<&'static str, u64>,
    endings: BTreeMap<&'static str, u64>,
    with_reset: u64,
    with_reuse: u64,
    with_rcopy: u64,
    with_call: u64,
    with_err: u64,
    events: u64,
    kinds: BTreeMap<String, u64>,
}

impl Stats {
    fn skip(&mut self, why: &'static str) {
        *self.skipped.entry(why).or_insert(0) += 1;
    }

    fn keep(&mut self, c: &Canon) {
        self.kept += 1;
        *self.endings.entry(c.ending).or_insert(0) += 1;
        let (mut reset, mut reuse, mut rcopy, mut call, mut err) = (false, false, false, false, false);
        let mut freed: HashSet<(&str, &str)> = HashSet::new();
        for e in &c.events {
            let w: Vec<&str> = e.split(':').collect();
            *self.kinds.entry(w[0].to_string()).or_insert(0) += 1;
            self.events += 1;
            match w.as_slice() {
                ["reset", ..] => reset = true,
                ["rcopy"] => rcopy = true,
                ["call", ..] => call = true,
                ["err", ..] => err = true,
                ["pfree", cl, i] => {
                    freed.insert((cl, i));
                }
                ["palloc", cl, i] => {
                    if freed.remove(&(*cl, *i)) {
                        reuse = true;
                    }
                }
                _ => {}
            }
        }
        self.with_reset += u64::from(reset);
        self.with_reuse += u64::from(reuse);
        self.with_rcopy += u64::from(rcopy);
        self.with_call += u64::from(call);
        self.with_err += u64::from(err);
    }

    fn report(&self) {
        let m = |m: &BTreeMap<&'static str, u64>| {
            m.iter().map(|(k, v)| format!("{k}={v}")).collect::<Vec<_>>().join(" ")
        };
        eprintln!(
            "TRACE-STAT candidates={} kept={} events={} with_reset={} with_reuse={} with_rcopy={} with_call={} with_err={}",
            self.candidates,
            self.kept,
            self.events,
            self.with_reset,
            self.with_reuse,
            self.with_rcopy,
            self.with_call,
            self.with_err
        );
        eprintln!("TRACE-STAT skipped: {}", m(&self.skipped));
        eprintln!("TRACE-STAT endings: {}", m(&self.endings));
        eprintln!(
            "TRACE-STAT kinds: {}",
            self.kinds.iter().map(|(k, v)| format!("{k}={v}")).collect::<Vec<_>>().join(" ")
        );
    }
}

/// One candidate program: the `m` line, or the reason it is kept out of the stream.
fn request_line(pool: &mut Pool2, src: &str, st: &mut Stats) -> Option<String> {
    st.candidates += 1;
    // process execution (`.run()` and the result methods) is only approximated by the model
    if src.contains(".run(") {
        st.skip("process-run");
        return None;
    }
    // the worker's stdin is the request pipe: a program that reads a line would eat a request
    if src.contains("read_line") {
        st.skip("reads-stdin");
        return None;
    }
    let hexsrc = util::hex(src.as_bytes());
    let c = canon(&pool.ask(&format!("T {hexsrc}")));
    match c.ending {
        "front" => {
            st.skip("front");
            return None;
        }
        "panic" => {
            eprintln!("TRACE-SKIP panic {hexsrc}");
            st.skip("panic");
            return None;
        }
        "abort" => {
            eprintln!("TRACE-SKIP abort {hexsrc}");
            st.skip("abort");
            return None;
        }
        _ => {}
    }
    if let Some(u) = &c.unknown {
        eprintln!("TRACE-UNKNOWN-EVENT {u}");
        st.skip("unknown-event");
        return None;
    }
    if c.raw_len > MAX_EVENTS {
        st.skip("too-long");
        return None;
    }
    if !interesting(&c.events) {
        st.skip("no-memory-event");
        return None;
    }
    let Some(ast) = ast_line(src) else {
        st.skip("front");
        return None;
    };
    st.keep(&c);
    Some(format!("m {hexsrc} {} {} {ast}", join_or_dash(&c.ctl), join_or_dash(&c.lay)))
}

/// Hand-written programs: every `*.ns` file (sorted by name) of the directory named by the
/// environment variable `NV_MEMTRACE_SRC_DIR`, if set. Used to turn a source file into an `m` line
/// (for `corpus/`), not by the check's generated stream.
fn extra_sources() -> Vec<String> {
    let Ok(dir) = std::env::var("NV_MEMTRACE_SRC_DIR") else { return Vec::new() };
    let Ok(rd) = std::fs::read_dir(&dir) else { return Vec::new() };
    let mut paths: Vec<_> =
        rd.filter_map(Result::ok).map(|e| e.path()).filter(|p| p.extension().is_some_and(|x| x == "ns")).collect();
    paths.sort();
    paths.iter().filter_map(|p| std::fs::read_to_string(p).ok()).collect()
}

/// `nvh mem gen --kind trace --seed S --n N`: prints `m` request lines for the product programs and
/// `n` random programs; the distribution goes to stderr (`TRACE-STAT ...`).
pub fn generate(seed: u64, n: u64) -> i32 {
    if !hook::present() {
        eprintln!("TRACE-STAT hook-absent: the crate under test has no memory-trace hook; no trace requests");
        return 0;
    }
    let mut out = Out::new();
    let mut pool = Pool2 { w: None };
    let mut st = Stats::default();
    let mut seen: HashSet<String> = HashSet::new();
    let product = memgen::product_programs().into_iter().map(|(tag, src)| format!("# {tag}\n{src}"));
    let random = memgen::random_programs(seed, n);
    for src in extra_sources().into_iter().chain(product).chain(random) {
        if !seen.insert(src.clone()) {
            st.candidates += 1;
            st.skip("duplicate");
            continue;
        }
        if let Some(line) = request_line(&mut pool, &src, &mut st) {
            out.line(&line);
        }
    }
    st.report();
    0
}

/// The implementation's answer to an `m` line: `<ending> ev=<canonical events>`.
pub fn answer(pool: &mut Pool2, hexsrc: &str) -> String {
    let c = canon(&pool.ask(&format!("T {hexsrc}")));
    if let Some(u) = &c.unknown {
        return format!("{} ev=unknown-event:{}", c.ending, u.replace([' ', ','], "_"));
    }
    format!("{} ev={}", c.ending, join_or_dash(&c.events))
}
