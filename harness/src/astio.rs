//! Canonical one-line S-expression form of the AST (see `lean/NaijaVerif/Driver/AstIO.lean` for the
//! grammar). Printed from the real parser's AST; when `facts` is given, the resolver's bindings are
//! printed as annotations (`expr_local`, `stmt_local`, `string_segment_local`, `user_call_callee`,
//! `function_by_body`, `stmt_id`, parameter ids as the runtime derives them).

use naijascript::analysis::facts::ProgramFacts;
use naijascript::diagnostics::Span;
use naijascript::syntax::parser::{
    BinaryOp, Block, Expr, ExprRef, Stmt, StmtRef, StringParts, StringSegment, UnaryOp,
};

use crate::util::hex;

#[derive(Clone, Copy)]
pub struct Opts<'f, 'a> {
    pub spans: bool,
    pub facts: Option<&'f ProgramFacts<'a, 'a>>,
}

fn sp(o: &Opts, s: &Span) -> String {
    if o.spans { format!("{}:{}", s.start, s.end) } else { ".".to_string() }
}

fn an(v: Option<u32>) -> String {
    v.map_or("_".to_string(), |n| n.to_string())
}

fn bin_name(op: BinaryOp) -> &'static str {
    match op {
        BinaryOp::Add => "add",
        BinaryOp::Minus => "minus",
        BinaryOp::Times => "times",
        BinaryOp::Divide => "divide",
        BinaryOp::Mod => "mod",
        BinaryOp::And => "and",
        BinaryOp::Or => "or",
        BinaryOp::Eq => "eq",
        BinaryOp::Gt => "gt",
        BinaryOp::Lt => "lt",
    }
}

pub fn expr_str<'a>(o: &Opts<'_, 'a>, e: ExprRef<'a>, out: &mut String) {
    match e {
        Expr::Index { array, index, index_span, span } => {
            out.push_str("( idx ");
            expr_str(o, array, out);
            out.push(' ');
            expr_str(o, index, out);
            out.push_str(&format!(" {} {} )", sp(o, index_span), sp(o, span)));
        }
        Expr::String { parts, span } => match parts {
            StringParts::Static(s) => out.push_str(&format!("( str {} {} )", hex(s.as_bytes()), sp(o, span))),
            StringParts::Interpolated(segs) => {
                out.push_str(&format!("( istr {}", segs.len()));
                for (i, seg) in segs.iter().enumerate() {
                    match seg {
                        StringSegment::Literal(s) => out.push_str(&format!(" l:{}", hex(s.as_bytes()))),
                        StringSegment::Variable(v) => {
                            let b = o.facts.and_then(|f| f.string_segment_local(e, i as u32)).map(|l| l.0);
                            out.push_str(&format!(" v:{}:{}", hex(v.as_bytes()), an(b)));
                        }
                    }
                }
                out.push_str(&format!(" {} )", sp(o, span)));
            }
        },
        Expr::Number(n, span) => out.push_str(&format!("( num {} {} )", hex(n.as_bytes()), sp(o, span))),
        Expr::Var(v, span) => {
            let b = o.facts.and_then(|f| f.expr_local(e)).map(|l| l.0);
            out.push_str(&format!("( var {} {} {} )", hex(v.as_bytes()), an(b), sp(o, span)));
        }
        Expr::Binary { op, lhs, rhs, span } => {
            out.push_str(&format!("( bin {} ", bin_name(*op)));
            expr_str(o, lhs, out);
            out.push(' ');
            expr_str(o, rhs, out);
            out.push_str(&format!(" {} )", sp(o, span)));
        }
        Expr::Call { callee, args, span } => {
            out.push_str("( call ");
            expr_str(o, callee, out);
            out.push_str(&format!(" {}", args.args.len()));
            for a in args.args {
                out.push(' ');
                expr_str(o, a, out);
            }
            let f = o.facts.and_then(|f| f.user_call_callee(e)).map(|l| l.0);
            out.push_str(&format!(" {} {} )", an(f), sp(o, span)));
        }
        Expr::Array { elements, span } => {
            out.push_str(&format!("( arr {}", elements.len()));
            for a in *elements {
                out.push(' ');
                expr_str(o, a, out);
            }
            out.push_str(&format!(" {} )", sp(o, span)));
        }
        Expr::Unary { op, expr, span } => {
            out.push_str(match op {
                UnaryOp::Not => "( un not ",
                UnaryOp::Minus => "( un neg ",
            });
            expr_str(o, expr, out);
            out.push_str(&format!(" {} )", sp(o, span)));
        }
        Expr::Bool(b, span) => out.push_str(&format!("( bool {} {} )", u8::from(*b), sp(o, span))),
        Expr::Member { object, field, field_span, span } => {
            out.push_str("( mem ");
            expr_str(o, object, out);
            out.push_str(&format!(" {} {} {} )", hex(field.as_bytes()), sp(o, field_span), sp(o, span)));
        }
        Expr::Null(span) => out.push_str(&format!("( null {} )", sp(o, span))),
    }
}

pub fn stmt_str<'a>(o: &Opts<'_, 'a>, s: StmtRef<'a>, out: &mut String) {
    let sid = an(o.facts.and_then(|f| f.stmt_id(s)).map(|i| i.0));
    match s {
        Stmt::FunctionDef { name, name_span, params, body, span } => {
            let fid = o.facts.and_then(|f| f.function_by_body(body));
            out.push_str(&format!("( fn {} {} {}", hex(name.as_bytes()), sp(o, name_span), params.params.len()));
            for (i, p) in params.params.iter().enumerate() {
                // the id the runtime gives the parameter: local_range(f).start + position
                let b = match (o.facts, fid) {
                    (Some(f), Some(id)) => {
                        let r = f.local_range(id);
                        let v = r.start + i as u32;
                        if v < r.end { Some(v) } else { None }
                    }
                    _ => None,
                };
                let ps = params.param_spans.get(i).cloned().unwrap_or_default();
                if o.spans {
                    out.push_str(&format!(" {}:{}:{}:{}", hex(p.as_bytes()), ps.start, ps.end, an(b)));
                } else {
                    out.push_str(&format!(" {}:.:{}", hex(p.as_bytes()), an(b)));
                }
            }
            out.push(' ');
            block_str(o, body, out);
            out.push_str(&format!(" {} {} {} )", an(fid.map(|f| f.0)), sid, sp(o, span)));
        }
        Stmt::Assign { var, var_span, expr, span } => {
            out.push_str(&format!("( let {} {} ", hex(var.as_bytes()), sp(o, var_span)));
            expr_str(o, expr, out);
            let b = o.facts.and_then(|f| f.stmt_local(s)).map(|l| l.0);
            out.push_str(&format!(" {} {} {} )", an(b), sid, sp(o, span)));
        }
        Stmt::AssignExisting { var, var_span, expr, span } => {
            out.push_str(&format!("( set {} {} ", hex(var.as_bytes()), sp(o, var_span)));
            expr_str(o, expr, out);
            let b = o.facts.and_then(|f| f.stmt_local(s)).map(|l| l.0);
            out.push_str(&format!(" {} {} {} )", an(b), sid, sp(o, span)));
        }
        Stmt::AssignIndex { target, expr, span } => {
            out.push_str("( seti ");
            expr_str(o, target, out);
            out.push(' ');
            expr_str(o, expr, out);
            out.push_str(&format!(" {} {} )", sid, sp(o, span)));
        }
        Stmt::If { cond, then_b, else_b, span } => {
            out.push_str("( if ");
            expr_str(o, cond, out);
            out.push(' ');
            block_str(o, then_b, out);
            out.push(' ');
            match else_b {
                Some(b) => block_str(o, b, out),
                None => out.push_str("none"),
            }
            out.push_str(&format!(" {} {} )", sid, sp(o, span)));
        }
        Stmt::Loop { cond, body, span } => {
            out.push_str("( loop ");
            expr_str(o, cond, out);
            out.push(' ');
            block_str(o, body, out);
            out.push_str(&format!(" {} {} )", sid, sp(o, span)));
        }
        Stmt::Block { block, span } => {
            out.push_str("( blk ");
            block_str(o, block, out);
            out.push_str(&format!(" {} {} )", sid, sp(o, span)));
        }
        Stmt::Return { expr, span } => {
            out.push_str("( ret ");
            match expr {
                Some(e) => expr_str(o, e, out),
                None => out.push_str("none"),
            }
            out.push_str(&format!(" {} {} )", sid, sp(o, span)));
        }
        Stmt::Break { span } => out.push_str(&format!("( brk {} {} )", sid, sp(o, span))),
        Stmt::Continue { span } => out.push_str(&format!("( cont {} {} )", sid, sp(o, span))),
        Stmt::Expression { expr, span } => {
            out.push_str("( expr ");
            expr_str(o, expr, out);
            out.push_str(&format!(" {} {} )", sid, sp(o, span)));
        }
    }
}

pub fn block_str<'a>(o: &Opts<'_, 'a>, b: &'a Block<'a>, out: &mut String) {
    out.push_str(&format!("( block {}", b.stmts.len()));
    for s in b.stmts {
        out.push(' ');
        stmt_str(o, s, out);
    }
    out.push_str(&format!(" {} )", sp(o, &b.span)));
}

pub fn program<'a>(o: &Opts<'_, 'a>, root: &'a Block<'a>) -> String {
    let mut s = String::new();
    block_str(o, root, &mut s);
    s
}
