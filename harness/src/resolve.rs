//! Family `resolve` (C09, C04-static, and the resolver part of C01/C06): the real front end's
//! resolver against the Lean model `Model/Resolve.lean`.
//!
//! ```text
//! resolve <hex src> [exp=<tag>] ast=<unannotated AST line of the real parser>
//!    -> diags=<ERROR-severity diagnostics of the resolver> ast=<annotated AST, spans on>
//!       fns=… scopes=… locals=… stmts=… directs=… calls=…   (see factsio.rs)   end=<ok|panic>
//! wf <hex src> [exp=<tag>] ast=<…>
//!    -> viol=<the resolver's diagnostics of the *scoping* rules>   (the Lean side answers with the
//!       violations computed by the declarative specification `Spec/WF.lean`, not by the model)
//! ```
//! The analysis warnings (`emit_analysis_warnings`: unreachable code, unused assignment / variable /
//! function, analysis limit) all have severity warning and are filtered out; `check_*` itself only
//! emits errors. `end=panic` means `Resolver::resolve` panicked (the facts printed are those collected
//! before the panic; the pointer tables are finalised before the analysis passes run).
//!
//! `run` also evaluates oracles that need no model and reports `ORACLE-FAIL <line> <what>` on stderr:
//! every binding annotation points to a local / function of the occurrence's name; an accepted program
//! has no `comot`/`next` outside a loop of the same function body and no `return` outside a function;
//! and the expectation `exp=` the generator attached (`ok` = a well-formed program must be accepted,
//! `<rule>@<context>` = a diagnostic of the rule's category must be reported,
//! `finding:<id>:<shape>:<accept|reject>` = witness of a known defect, checked by `checks/c09.py`).
//!
//! `run` answers every request inside a worker subprocess (`crate::pipe::supervise`): a program on which
//! the checker does not return, or kills the process (abort on arena exhaustion, stack overflow), is
//! answered `diags=? end=hang` / `diags=? end=abort:<status>` (`viol=? end=…` for `wf`) and reported as
//! `ORACLE-FAIL <line> [C07] …`; the stream continues in a fresh worker. `run --inproc`: no isolation.
//!
//! Other actions: `gen --seed S --n N --kind valid|viol|mixed|rec|ret|findings`, `mk` (source lines on stdin
//! -> request lines), `probe-types` (prints the probed static type tables).

#[path = "factsio.rs"]
mod factsio_local;

use naijascript::analysis::effects::{self, ExprClass};
use naijascript::analysis::facts::ProgramFacts;
use naijascript::arena::Arena;
use naijascript::builtins::{
    ArrayBuiltin, Builtin, GlobalBuiltin, MemberBuiltin, NumberBuiltin, ProcessCommandBuiltin, ProcessResultBuiltin,
    StringBuiltin,
};
use naijascript::diagnostics::{Diagnostic, Severity, Span};
use naijascript::helpers::ValueType;
use naijascript::resolver::Resolver;
use naijascript::syntax::parser::{BlockRef, Expr, ExprRef, Parser, Stmt, StmtRef, StringParts, StringSegment};
use naijascript::syntax::scanner::Lexer;

use crate::astio::{self, Opts};
use crate::pipeline;
use crate::util::{self, Out, Rng};

pub fn main(args: &[String]) -> i32 {
    match args.first().map(String::as_str) {
        Some("gen") => generate(&args[1..]),
        Some("run") if util::flag(&args[1..], "--inproc") => worker(&args[1..]),
        Some("run") => crate::pipe::supervise(&["resolve", "worker"], "static checker", &|line, what| {
            // `end=hang` / `end=abort:<status>`: the checker did not return on this program
            if line.starts_with("wf ") { format!("viol=? end={what}") } else { format!("diags=? end={what}") }
        }),
        Some("worker") => worker(&args[1..]),
        Some("mk") => mk(&args[1..]),
        Some("probe-types") => {
            let mut kv = Vec::new();
            dump_tables(&mut kv);
            for (k, v) in kv {
                println!("{k} = {v}");
            }
            0
        }
        _ => {
            eprintln!("usage: nvh resolve gen --seed S --n N --kind K | run | mk [--exp TAG] | probe-types");
            2
        }
    }
}

// ------------------------------------------------------------------------------------------ run

fn diag_str(x: &Diagnostic<'_>) -> String {
    format!(
        "{}:{}:{}:{}:{}",
        pipeline::sev_name(x.severity),
        x.code,
        x.message.replace([' ', ',', ':'], "_"),
        x.span.start,
        x.span.end
    )
}

fn diags_join(v: Vec<String>) -> String {
    if v.is_empty() { "-".to_string() } else { v.join(",") }
}

/// Answers request lines one by one, flushing each answer: the body of the supervised worker
/// (`crate::pipe::supervise`: a program on which the checker hangs or kills the process is answered
/// `diags=? end=hang` / `end=abort:<status>` by the parent and a fresh worker continues) and of
/// `run --inproc`. `--base N`: the 1-based number of the first line minus one.
fn worker(args: &[String]) -> i32 {
    use std::io::{BufRead, Write};
    let base = util::opt_u64(args, "--base", 0) as usize;
    crate::pipe::limit_address_space();
    util::silence_panics();
    let stdin = std::io::stdin();
    let stdout = std::io::stdout();
    for (i, line) in stdin.lock().lines().map_while(Result::ok).enumerate() {
        let mut ans = util::catch(|| answer(&line, base + i + 1)).unwrap_or_else(|m| format!("panic {}", m.replace('\n', " ")));
        ans.push('\n');
        let mut o = stdout.lock();
        if o.write_all(ans.as_bytes()).is_err() || o.flush().is_err() {
            return 1;
        }
    }
    0
}

struct Req<'l> {
    kind: &'l str,
    src: String,
    exp: Option<&'l str>,
    ast: &'l str,
}

fn parse_req(line: &str) -> Option<Req<'_>> {
    let (head, ast) = line.split_once(" ast=")?;
    let w: Vec<&str> = head.split_whitespace().collect();
    let kind = *w.first()?;
    let src = String::from_utf8(util::unhex(w.get(1)?)?).ok()?;
    let exp = w.iter().find_map(|x| x.strip_prefix("exp="));
    Some(Req { kind, src, exp, ast: ast.trim() })
}

fn answer(line: &str, lineno: usize) -> String {
    let Some(req) = parse_req(line) else { return "bad-op".into() };
    let arena = Arena::new(pipeline::ARENA_CAP).unwrap();
    let lexer = Lexer::new(&req.src, &arena);
    let mut parser = Parser::new(lexer, &arena);
    let (root, _perrs) = parser.parse_program();
    let plain = astio::program(&Opts { spans: true, facts: None }, root);
    if plain != req.ast {
        return "ast-mismatch".into();
    }
    let mut resolver = Resolver::new(&arena);
    let end = util::catch(|| resolver.resolve(root));
    let errors: Vec<&Diagnostic<'_>> =
        resolver.errors.diagnostics.iter().filter(|d| d.severity == Severity::Error).collect();
    match req.kind {
        "resolve" => {
            oracles(root, &resolver.facts, &errors, req.exp, lineno);
            format!(
                "diags={} ast={} {} end={}",
                diags_join(errors.iter().map(|d| diag_str(d)).collect()),
                astio::program(&Opts { spans: true, facts: Some(&resolver.facts) }, root),
                factsio_local::facts_str(&resolver.facts),
                if end.is_ok() { "ok" } else { "panic" }
            )
        }
        "wf" => {
            let mut member_spans = Vec::new();
            walk_block(root, &mut |e| {
                if let Expr::Call { callee: Expr::Member { span, .. }, .. } = e {
                    member_spans.push(*span);
                }
            });
            let scoping: Vec<String> = errors
                .iter()
                .filter(|d| match d.message {
                    "Type mismatch" => false,
                    "Undeclared identifier" | "Invalid parameter count" => !member_spans.contains(&d.span),
                    _ => true,
                })
                .map(|d| diag_str(d))
                .collect();
            format!("viol={}", diags_join(scoping))
        }
        _ => "bad-op".into(),
    }
}

// ---------------------------------------------------------------------------------- AST walking

fn walk_expr<'a>(e: ExprRef<'a>, f: &mut dyn FnMut(ExprRef<'a>)) {
    f(e);
    match e {
        Expr::Index { array, index, .. } => {
            walk_expr(array, f);
            walk_expr(index, f);
        }
        Expr::Binary { lhs, rhs, .. } => {
            walk_expr(lhs, f);
            walk_expr(rhs, f);
        }
        Expr::Call { callee, args, .. } => {
            walk_expr(callee, f);
            for a in args.args {
                walk_expr(a, f);
            }
        }
        Expr::Array { elements, .. } => {
            for a in *elements {
                walk_expr(a, f);
            }
        }
        Expr::Unary { expr, .. } => walk_expr(expr, f),
        Expr::Member { object, .. } => walk_expr(object, f),
        Expr::String { .. } | Expr::Number(..) | Expr::Var(..) | Expr::Bool(..) | Expr::Null(..) => {}
    }
}

fn walk_stmt_exprs<'a>(s: StmtRef<'a>, f: &mut dyn FnMut(ExprRef<'a>)) {
    match s {
        Stmt::FunctionDef { body, .. } => walk_block(body, f),
        Stmt::Assign { expr, .. } | Stmt::AssignExisting { expr, .. } | Stmt::Expression { expr, .. } => walk_expr(expr, f),
        Stmt::AssignIndex { target, expr, .. } => {
            walk_expr(target, f);
            walk_expr(expr, f);
        }
        Stmt::If { cond, then_b, else_b, .. } => {
            walk_expr(cond, f);
            walk_block(then_b, f);
            if let Some(b) = else_b {
                walk_block(b, f);
            }
        }
        Stmt::Loop { cond, body, .. } => {
            walk_expr(cond, f);
            walk_block(body, f);
        }
        Stmt::Block { block, .. } => walk_block(block, f),
        Stmt::Return { expr, .. } => {
            if let Some(e) = expr {
                walk_expr(e, f);
            }
        }
        Stmt::Break { .. } | Stmt::Continue { .. } => {}
    }
}

fn walk_block<'a>(b: BlockRef<'a>, f: &mut dyn FnMut(ExprRef<'a>)) {
    for s in b.stmts {
        walk_stmt_exprs(s, f);
    }
}

fn walk_stmts<'a>(b: BlockRef<'a>, f: &mut dyn FnMut(StmtRef<'a>)) {
    for s in b.stmts {
        f(s);
        match s {
            Stmt::FunctionDef { body, .. } | Stmt::Loop { body, .. } => walk_stmts(body, f),
            Stmt::If { then_b, else_b, .. } => {
                walk_stmts(then_b, f);
                if let Some(b) = else_b {
                    walk_stmts(b, f);
                }
            }
            Stmt::Block { block, .. } => walk_stmts(block, f),
            _ => {}
        }
    }
}

/// `comot`/`next` outside a loop of the same function body, `return` outside a function.
fn jump_violations(b: BlockRef<'_>, loops: usize, in_fn: bool, out: &mut Vec<Span>) {
    let mut defined: Vec<&str> = Vec::new();
    for s in b.stmts {
        match s {
            // the body of a rejected duplicate definition is not analysed
            Stmt::FunctionDef { name, .. } if defined.contains(name) => {}
            Stmt::FunctionDef { name, body, .. } => {
                defined.push(name);
                jump_violations(body, 0, true, out);
            }
            Stmt::Loop { body, .. } => jump_violations(body, loops + 1, in_fn, out),
            Stmt::If { then_b, else_b, .. } => {
                jump_violations(then_b, loops, in_fn, out);
                if let Some(b) = else_b {
                    jump_violations(b, loops, in_fn, out);
                }
            }
            Stmt::Block { block, .. } => jump_violations(block, loops, in_fn, out),
            Stmt::Break { span } | Stmt::Continue { span } if loops == 0 => out.push(*span),
            Stmt::Return { span, .. } if !in_fn => out.push(*span),
            _ => {}
        }
    }
}

fn rule_message(rule: &str) -> Option<&'static str> {
    Some(match rule {
        "reservedVar" | "reservedFn" | "reservedParam" => "Use of reserved keyword",
        "dupFunction" | "dupParam" => "Duplicate identifier",
        "undeclaredVar" | "undeclaredSeg" | "undeclaredFn" | "methodUnknown" => "Undeclared identifier",
        "assignUndeclared" => "Assignment to undeclared variable",
        "arityUser" | "arityGlobal" | "arityMethod" => "Invalid parameter count",
        "breakOutside" | "continueOutside" | "returnOutside" => "Unreachable code",
        "tyBinary" | "tyUnary" | "tyCond" | "tyIndexBase" | "tyIndexIdx" | "tyCommandArg" | "tyMethodArg"
        | "tyMutReceiver" | "bareMember" | "badCallee" | "badIndexRoot" => "Type mismatch",
        _ => return None,
    })
}

fn oracles<'a>(
    root: BlockRef<'a>,
    facts: &ProgramFacts<'a, 'a>,
    errors: &[&Diagnostic<'_>],
    exp: Option<&str>,
    lineno: usize,
) {
    let mut fails: Vec<String> = Vec::new();
    let lname = |id: u32| facts.locals.get(id as usize).map(|l| l.name);
    walk_block(root, &mut |e| match e {
        Expr::Var(v, ..) => {
            if let Some(l) = facts.expr_local(e)
                && lname(l.0) != Some(*v)
            {
                fails.push(format!("expr_local of `{v}` is local {} named {:?}", l.0, lname(l.0)));
            }
        }
        Expr::String { parts: StringParts::Interpolated(segs), .. } => {
            for (i, seg) in segs.iter().enumerate() {
                if let StringSegment::Variable(v) = seg
                    && let Some(l) = facts.string_segment_local(e, i as u32)
                    && lname(l.0) != Some(&**v)
                {
                    fails.push(format!("segment `{v}` bound to local {} named {:?}", l.0, lname(l.0)));
                }
            }
        }
        Expr::Call { callee, args, span } => {
            if let Some(fid) = facts.user_call_callee(e) {
                let info = facts.functions.get(fid.0 as usize);
                match (callee, info) {
                    (Expr::Var(name, ..), Some(info)) => {
                        if info.name != *name {
                            fails.push(format!("call of `{name}` bound to function `{}`", info.name));
                        }
                        let arity = info.params.map_or(0, |p| p.params.len());
                        let reported = errors.iter().any(|d| d.message == "Invalid parameter count" && d.span == *span);
                        if (arity != args.args.len()) != reported {
                            fails.push(format!("call of `{name}` with {} args, arity {arity}, arity error reported: {reported}", args.args.len()));
                        }
                    }
                    _ => fails.push("bound call whose callee is not a name or whose function id is out of range".into()),
                }
            }
        }
        _ => {}
    });
    walk_stmts(root, &mut |s| {
        if let Stmt::Assign { var, .. } | Stmt::AssignExisting { var, .. } = s
            && let Some(l) = facts.stmt_local(s)
            && lname(l.0) != Some(*var)
        {
            fails.push(format!("stmt_local of `{var}` is local {} named {:?}", l.0, lname(l.0)));
        }
    });
    // accepted => jumps are well placed
    let mut jumps = Vec::new();
    jump_violations(root, 0, false, &mut jumps);
    for sp in &jumps {
        if !errors.iter().any(|d| d.message == "Unreachable code" && d.span == *sp) {
            fails.push(format!("jump-outside-context at {}:{} not reported", sp.start, sp.end));
        }
    }
    if let Some(exp) = exp {
        if exp == "ok" {
            if let Some(d) = errors.first() {
                fails.push(format!("well-formed program rejected: {}", diag_str(d)));
            }
        } else if let Some((rule, _ctx)) = exp.split_once('@')
            && let Some(msg) = rule_message(rule)
            && !errors.iter().any(|d| d.message == msg)
        {
            fails.push(format!("violation of {exp} not reported as `{msg}`"));
        }
    }
    for f in fails {
        eprintln!("ORACLE-FAIL {lineno} {f}");
    }
}

// --------------------------------------------------------------------------------------- mk

fn request_line(kind: &str, src: &str, exp: Option<&str>) -> String {
    let arena = Arena::new(pipeline::ARENA_CAP).unwrap();
    let ast = pipeline::with_parsed(src, &arena, |root, _| astio::program(&Opts { spans: true, facts: None }, root));
    match exp {
        Some(e) => format!("{kind} {} exp={e} ast={ast}", util::hex(src.as_bytes())),
        None => format!("{kind} {} ast={ast}", util::hex(src.as_bytes())),
    }
}

/// Source programs on stdin, one per line (`\n` inside a program written as the two characters
/// `\` `n`); optional leading `exp=<tag> ` on a line.
fn mk(args: &[String]) -> i32 {
    let default_exp = util::opt(args, "--exp");
    let mut out = Out::new();
    for line in util::stdin_lines() {
        let line = line.trim();
        if line.is_empty() || line.starts_with("##") {
            continue;
        }
        let (exp, src) = match line.strip_prefix("exp=") {
            Some(rest) => {
                let (e, s) = rest.split_once(' ').unwrap_or((rest, ""));
                (Some(e.to_string()), s)
            }
            None => (default_exp.map(str::to_string), line),
        };
        let src = src.replace("\\n", "\n");
        out.line(&request_line("resolve", &src, exp.as_deref()));
    }
    0
}

// ------------------------------------------------------------------------------------ tables

const TYPES: &[(&str, &str)] = &[
    ("number", "1"),
    ("string", "\"s\""),
    ("boolean", "true"),
    ("array", "[1]"),
    ("process_command", "command(\"x\")"),
    ("process_result", "command(\"x\").run()"),
    ("dynamic", "p"),
    ("null", "null"),
];

const BINOPS: &[(&str, &str)] = &[
    ("add", "add"),
    ("minus", "minus"),
    ("times", "times"),
    ("divide", "divide"),
    ("mod", "mod"),
    ("and", "and"),
    ("or", "or"),
    ("eq", "na"),
    ("gt", "pass"),
    ("lt", "small pass"),
];

/// Error diagnostics (message, first label text) of the real resolver on `src`.
fn probe(src: &str) -> Vec<(String, String)> {
    let arena = Arena::new(pipeline::ARENA_CAP).unwrap();
    pipeline::with_resolved(src, &arena, |_, perrs, res| {
        let res = res.unwrap_or_else(|| panic!("probe program does not parse: {src}: {}", pipeline::diags_str(perrs)));
        res.errors
            .diagnostics
            .iter()
            .filter(|d| d.severity == Severity::Error)
            .map(|d| (d.message.to_string(), d.labels.first().map_or(String::new(), |l| l.message.to_string())))
            .collect()
    })
}

fn has(d: &[(String, String)], msg: &str) -> bool {
    d.iter().any(|(m, _)| m == msg)
}

/// The static type the resolver infers for `expr` inside `do pr(p) start <prelude> … end`: a
/// non-dynamic type is observed through the diagnostic of an unknown method on it; `Some(Dynamic)`
/// and `None` are told apart by indexing it (`None[0]` is a type mismatch, `Dynamic[0]` is not).
/// JSON `null` = not inferable.
fn probe_type(prelude: &str, expr: &str) -> String {
    let d = probe(&format!("do pr(p) start {prelude} make d get ({expr}).zzzz() end"));
    for (m, l) in &d {
        if m == "Undeclared identifier"
            && let Some(rest) = l.strip_prefix("Method `zzzz` no dey for ")
            && let Some(t) = rest.strip_suffix(" type")
        {
            return format!("\"{t}\"");
        }
    }
    let mismatches = |src: String| probe(&src).iter().filter(|(m, _)| m == "Type mismatch").count();
    let plain = mismatches(format!("do pr(p) start {prelude} make d get ({expr}) end"));
    let indexed = mismatches(format!("do pr(p) start {prelude} make d get ({expr})[0] end"));
    if indexed == plain { "\"dynamic\"".to_string() } else { "null".to_string() }
}

fn vt_name(t: ValueType) -> String {
    t.to_string()
}

pub fn dump_tables(out: &mut Vec<(String, String)>) {
    // operators, probed on the real checker
    let mut rows = Vec::new();
    for (op, kw) in BINOPS {
        for (ln, le) in TYPES {
            for (rn, re) in TYPES {
                let prelude = format!("make a get {le} make b get {re}");
                let d = probe(&format!("do pr(p) start {prelude} make c get a {kw} b end"));
                let ok = !has(&d, "Type mismatch");
                let ty = probe_type(&prelude, &format!("a {kw} b"));
                rows.push(format!("[\"{op}\",\"{ln}\",\"{rn}\",{ok},{ty}]"));
            }
        }
    }
    out.push(("resolve_binary".into(), format!("[{}]", rows.join(","))));
    let mut rows = Vec::new();
    for (op, kw) in [("not", "not"), ("neg", "minus")] {
        for (tn, te) in TYPES {
            let prelude = format!("make a get {te}");
            let d = probe(&format!("do pr(p) start {prelude} make c get {kw} a end"));
            let ok = !has(&d, "Type mismatch");
            let ty = probe_type(&prelude, &format!("{kw} a"));
            rows.push(format!("[\"{op}\",\"{tn}\",{ok},{ty}]"));
        }
    }
    out.push(("resolve_unary".into(), format!("[{}]", rows.join(","))));
    let single = |template: &str| -> String {
        let rows: Vec<String> = TYPES
            .iter()
            .map(|(tn, te)| {
                let d = probe(&format!("do pr(p) start make a get {te} make arr get [1] make cmd get command(\"x\") {template} end"));
                format!("[\"{tn}\",{}]", !has(&d, "Type mismatch"))
            })
            .collect();
        format!("[{}]", rows.join(","))
    };
    out.push(("resolve_cond".into(), single("if to say (a) start end")));
    out.push(("resolve_loop_cond".into(), single("jasi (a) start end")));
    out.push(("resolve_index_base".into(), single("make z get a[0]")));
    out.push(("resolve_index_idx".into(), single("make z get arr[a]")));
    out.push(("resolve_command_arg".into(), single("make z get command(a)")));
    out.push(("resolve_join_arg".into(), single("make z get arr.join(a)")));
    out.push(("resolve_cwd_arg".into(), single("cmd.cwd(a)")));
    out.push(("resolve_env_arg".into(), single("cmd.env(a, \"v\")")));
    out.push(("resolve_timeout_arg".into(), single("cmd.timeout_ms(a)")));
    // literal types
    let lits: Vec<String> = [("number", "1"), ("string", "\"s\""), ("string", "\"a {p}\""), ("boolean", "false"), ("array", "[]"), ("null", "null"), ("dynamic", "p[0]"), ("dynamic", "p.q")]
        .iter()
        .map(|(want, e)| format!("[\"{want}\",{}]", probe_type("", e)))
        .collect();
    out.push(("resolve_literal_types".into(), format!("[{}]", lits.join(","))));
    // builtins, through the pub trait methods
    let cls = |c: ExprClass| factsio_local::class_name(c);
    let globals: Vec<String> = GLOBAL_NAMES
        .iter()
        .filter_map(|n| GlobalBuiltin::from_name(n).map(|b| (n, b)))
        .map(|(n, b)| format!("[\"{n}\",{},\"{}\",\"{}\"]", b.arity(), vt_name(b.return_type()), cls(effects::global_builtin_class(b))))
        .collect();
    out.push(("resolve_globals".into(), format!("[{}]", globals.join(","))));
    let mut members = Vec::new();
    let mut row = |kind: &str, n: &str, b: MemberBuiltin| {
        members.push(format!(
            "[\"{kind}\",\"{n}\",{},\"{}\",{},\"{}\"]",
            b.arity(),
            vt_name(b.return_type()),
            b.requires_mut_receiver(),
            cls(effects::member_builtin_class(b))
        ));
    };
    for n in MEMBER_NAMES {
        if let Some(b) = StringBuiltin::from_name(n) {
            row("string", n, MemberBuiltin::String(b));
        }
    }
    for n in MEMBER_NAMES {
        if let Some(b) = ArrayBuiltin::from_name(n) {
            row("array", n, MemberBuiltin::Array(b));
        }
    }
    for n in MEMBER_NAMES {
        if let Some(b) = NumberBuiltin::from_name(n) {
            row("number", n, MemberBuiltin::Number(b));
        }
    }
    for n in MEMBER_NAMES {
        if let Some(b) = ProcessCommandBuiltin::from_name(n) {
            row("process_command", n, MemberBuiltin::ProcessCommand(b));
        }
    }
    for n in MEMBER_NAMES {
        if let Some(b) = ProcessResultBuiltin::from_name(n) {
            row("process_result", n, MemberBuiltin::ProcessResult(b));
        }
    }
    out.push(("resolve_members".into(), format!("[{}]", members.join(","))));
    // MemberBuiltin::from_name: which kind wins for each name
    let any: Vec<String> = MEMBER_NAMES
        .iter()
        .filter_map(|n| MemberBuiltin::from_name(n).map(|b| (n, b)))
        .map(|(n, b)| {
            let k = match b {
                MemberBuiltin::String(..) => "string",
                MemberBuiltin::Array(..) => "array",
                MemberBuiltin::Number(..) => "number",
                MemberBuiltin::ProcessCommand(..) => "process_command",
                MemberBuiltin::ProcessResult(..) => "process_result",
            };
            format!("[\"{n}\",\"{k}\"]")
        })
        .collect();
    out.push(("resolve_member_any".into(), format!("[{}]", any.join(","))));
    out.push((
        "resolve_builtin_candidates".into(),
        format!("[{}]", GLOBAL_NAMES.iter().chain(MEMBER_NAMES.iter()).map(|n| format!("\"{n}\"")).collect::<Vec<_>>().join(",")),
    ));
    let classes = [ExprClass::PureNoTrap, ExprClass::PureMayTrap, ExprClass::Impure];
    let mut join = Vec::new();
    for a in classes {
        for b in classes {
            join.push(format!("[\"{}\",\"{}\",\"{}\"]", cls(a), cls(b), cls(a.join(b))));
        }
    }
    out.push(("resolve_class_join".into(), format!("[{}]", join.join(","))));
    // behaviour probes: how `locals_len` is computed (D-18) and whether `in_loop` leaks into function bodies (D-09a)
    let arena = Arena::new(pipeline::ARENA_CAP).unwrap();
    let len = pipeline::with_resolved("make a get 1 do f() start make b get 1 shout(b) end make c get 2 shout(a) shout(c) f()", &arena, |_, _, r| {
        r.map_or(0, |r| r.facts.functions[0].locals_len)
    });
    out.push(("resolve_root_locals_len_probe".into(), len.to_string()));
    let leak = !has(&probe("jasi (true) start do f() start comot end end"), "Unreachable code");
    out.push(("resolve_in_loop_leaks_into_functions".into(), leak.to_string()));
    // return-type inference (D-09b): around `do f(<params>) start <body> end  shout(f(..) minus 1)` the enclosing
    // code declares a string `x` and a function `g` returning a string; is the use rejected, i.e. is the
    // result of `f` typed by the enclosing `x` / `g`?
    const RET_PROBES: &[(&str, &str, &str, &str, &str)] = &[
        // (tag, parameters, body, defining block before, defining block after)
        ("own-make", "", "make x get 1 return x", "", ""),
        ("parameter", "x", "return x", "", ""),
        ("nested-block-make", "", "if to say (true) start make x get 1 end return x", "", ""),
        ("make-after-return", "", "if to say (false) start return x end make x get 1", "", ""),
        ("block-make-before", "", "return x", "make x get 1\n", ""),
        ("block-make-after", "", "return x", "", "make x get 1\n"),
        ("own-function", "", "do g() start return 1 end return g()", "", ""),
        ("nested-block-function", "", "if to say (true) start do g() start return 1 end end return g()", "", ""),
        // controls: only the enclosing code binds the name (a nested function's bindings are not `f`'s)
        ("enclosing-variable", "", "return x", "", ""),
        ("enclosing-function", "", "return g()", "", ""),
        ("inner-function-make", "", "do inner() start make x get 1 end return x", "", ""),
        ("inner-function-parameter", "", "do inner(x) start end return x", "", ""),
        ("inner-function-function", "", "do inner() start do g() start return 1 end end return g()", "", ""),
    ];
    let probes: Vec<String> = RET_PROBES
        .iter()
        .map(|(tag, params, body, pre, post)| {
            let call = if params.is_empty() { "f()" } else { "f(1)" };
            let src = format!(
                "make x get \"s\"\ndo g() start return \"s\" end\nstart\n{pre}do f({params}) start {body} end\nshout({call} minus 1)\n{post}end"
            );
            format!("[\"{tag}\",{}]", has(&probe(&src), "Type mismatch"))
        })
        .collect();
    out.push(("resolve_return_type_probes".into(), format!("[{}]", probes.join(","))));
}

const GLOBAL_NAMES: &[&str] = &["shout", "typeof", "read_line", "to_string", "command"];

const MEMBER_NAMES: &[&str] = &[
    "len", "slice", "to_uppercase", "to_lowercase", "find", "replace", "trim", "to_number", "split", "push", "pop",
    "reverse", "join", "abs", "sqrt", "floor", "ceil", "round", "arg", "cwd", "env", "stdin_text", "stdin_inherit",
    "stdin_null", "stdout_capture", "stdout_inherit", "stdout_null", "stderr_capture", "stderr_inherit", "stderr_null",
    "timeout_ms", "run", "success", "exit_code", "stdout", "stderr",
];

// ------------------------------------------------------------------------------------ generator

#[derive(Clone, Copy, PartialEq, Eq, Debug)]
enum Ty {
    Num,
    Str,
    Bool,
    Arr,
    /// statically `Dynamic` (parameters, index results): accepted in every typed context
    Dyn,
    /// unknown to the generator (results of user functions): used only where any type is accepted
    Unk,
}

#[derive(Default)]
struct Frame {
    vars: Vec<(String, Ty)>,
    fns: Vec<(String, usize)>,
}

const VARS: &[&str] = &["a", "b", "c", "x", "y", "n", "s", "t"];
/// String templates around ONE placeholder of the name `N` (`{{` and `}}` are the escapes for a
/// literal brace; they mean nothing inside a placeholder, so `{{{N}}}` is `{`, the placeholder, `}`).
const SEG_SHAPES: &[&str] = &[
    "v {N} w", "{N}", "{{{N}}}", "{N}}}", "{{{N}", "}}{N}{{", "{ N }", "{{ {N} }}", "{{{{{N}}}}}", "{{q}}{N}", "a{N}}} {{b",
    "{{{N}}}: {{{N}}}", "{}{N}", "{1x}{N}}}",
];
const FNS: &[&str] = &["f", "g", "h", "k"];

struct Gen<'r> {
    rng: &'r mut Rng,
    frames: Vec<Frame>,
    loops: usize,
    in_fn: bool,
    path: String,
    /// countdown of injection opportunities; the violation is injected when it reaches 0
    inject: Option<i64>,
    injected: Option<String>,
    /// generate without regard to the static rules
    wild: bool,
    budget: i64,
    fresh: usize,
    /// > 0 while generating the operand of a unary operator: no statically dynamic operand there
    /// (the checker cannot type `minus p` / `not p` for a dynamic `p`: finding D-09e)
    nodyn: usize,
}

impl Gen<'_> {
    fn visible(&self) -> Vec<(String, Ty)> {
        let mut out: Vec<(String, Ty)> = Vec::new();
        for fr in self.frames.iter().rev() {
            for (n, t) in fr.vars.iter().rev() {
                if !out.iter().any(|(m, _)| m == n) {
                    out.push((n.clone(), *t));
                }
            }
        }
        out
    }

    fn visible_fns(&self) -> Vec<(String, usize)> {
        let mut out: Vec<(String, usize)> = Vec::new();
        for fr in self.frames.iter().rev() {
            for (n, a) in &fr.fns {
                if !out.iter().any(|(m, _)| m == n) {
                    out.push((n.clone(), *a));
                }
            }
        }
        out
    }

    fn var_of(&mut self, want: &[Ty]) -> Option<String> {
        let nodyn = self.nodyn > 0;
        let v: Vec<(String, Ty)> =
            self.visible().into_iter().filter(|(_, t)| want.contains(t) && !(nodyn && *t == Ty::Dyn)).collect();
        if v.is_empty() { None } else { Some(self.rng.pick(&v).0.clone()) }
    }

    fn unbound_name(&mut self) -> String {
        let vis = self.visible();
        let free: Vec<&&str> = VARS.iter().filter(|n| !vis.iter().any(|(m, _)| m == **n)).collect();
        if !free.is_empty() && self.rng.chance(2, 3) {
            (**self.rng.pick(&free)).to_string()
        } else {
            self.fresh += 1;
            format!("u{}", self.fresh)
        }
    }

    /// Is this the opportunity at which the violation is injected?
    fn hit(&mut self) -> bool {
        match self.inject {
            Some(0) if self.injected.is_none() => true,
            Some(n) if n > 0 => {
                self.inject = Some(n - 1);
                false
            }
            _ => false,
        }
    }

    fn mark(&mut self, rule: &str, site: &str) {
        let path = if self.path.is_empty() { "top".to_string() } else { self.path.clone() };
        self.injected = Some(format!("{rule}@{path}:{site}"));
    }

    fn lit(&mut self, t: Ty) -> String {
        match t {
            Ty::Num => ["0", "1", "2", "3.5", "10"][self.rng.below(5) as usize].to_string(),
            Ty::Str => self.string_lit("expr"),
            Ty::Bool => (if self.rng.chance(1, 2) { "true" } else { "false" }).to_string(),
            Ty::Arr => "[1, 2]".to_string(),
            Ty::Dyn | Ty::Unk => "null".to_string(),
        }
    }

    fn string_lit(&mut self, site: &str) -> String {
        let vis = self.visible();
        if self.hit() {
            let n = self.unbound_name();
            self.mark("undeclaredSeg", &format!("{site}-istr"));
            // the placeholder `{N}` in every neighbourhood the template scanner distinguishes: plain,
            // wrapped in / followed by / preceded by the escapes `{{` and `}}`, padded, after text
            // that is not a placeholder
            return format!("\"{}\"", self.rng.pick(SEG_SHAPES).replace('N', &n));
        }
        if !vis.is_empty() && self.rng.chance(1, 3) {
            let a = self.rng.pick(&vis).0.clone();
            let b = self.rng.pick(&vis).0.clone();
            return match self.rng.below(4) {
                0 => format!("\"p {{{a}}} q\""),
                1 => format!("\"{{{a}}}{{{b}}}!\""),
                2 => format!("\"{}\"", self.rng.pick(SEG_SHAPES).replace('N', &a)),
                _ => format!("\"{}{}\"", self.rng.pick(SEG_SHAPES).replace('N', &a), self.rng.pick(SEG_SHAPES).replace('N', &b)),
            };
        }
        if self.rng.chance(1, 6) {
            // escaped braces around a name are text, not a use: any name is fine there
            let n = self.unbound_name();
            return format!("\"{}\"", self.rng.pick(&["{{N}}", "{{{{N}}}}", "{{ N }}", "a {{N}} b", "{{N}} }}"]).replace('N', &n));
        }
        ["\"\"", "\"hi\"", "\"a b\"", "\"ẹ́\""][self.rng.below(4) as usize].to_string()
    }

    /// A violating expression for an expression-position opportunity.
    fn bad_expr(&mut self, site: &str) -> String {
        let fns = self.visible_fns();
        loop {
            let (rule, text): (&str, String) = match self.rng.below(15) {
                13 => ("bareMember", ["\"s\".len", "[1].q", "(1 add 2).abs"][self.rng.below(3) as usize].to_string()),
                14 if !fns.is_empty() => {
                    let (n, a) = self.rng.pick(&fns).clone();
                    ("badCallee", format!("{n}({})()", vec!["1"; a].join(", ")))
                }
                0 | 1 => ("undeclaredVar", self.unbound_name()),
                2 => ("undeclaredFn", format!("nf{}({})", self.rng.below(3), if self.rng.chance(1, 2) { "1" } else { "" })),
                3 if !fns.is_empty() => {
                    let (n, a) = self.rng.pick(&fns).clone();
                    let k = if a > 0 && self.rng.chance(1, 2) { a - 1 } else { a + 1 };
                    ("arityUser", format!("{n}({})", vec!["1"; k].join(", ")))
                }
                4 => ("arityGlobal", ["shout()", "typeof(1, 2)", "to_string()", "shout(1, 2)", "command()", "read_line()"][self.rng.below(6) as usize].to_string()),
                5 => {
                    const BAD: &[&str] = &[
                        "1 minus \"a\"", "\"a\" minus \"b\"", "true add false", "1 add true", "2 times \"x\"", "\"a\" na 1",
                        "true pass 1", "1 and true", "true or 1", "[1] mod 2", "null divide 2", "1 and 2", "true na \"t\"",
                        "\"a\" small pass 2", "[1] add 1", "null minus null", "\"s\" times 2", "true divide true",
                        "\"a\" add true", "\"a\" add null", "null add \"a\"", "\"a\" add [1]", "null or 1", "2 and null",
                        "\"s\" or null", "[1] add \"a\"",
                    ];
                    ("tyBinary", format!("({})", self.rng.pick(BAD)))
                }
                6 => ("tyUnary", ["(not 1)", "(not \"a\")", "(minus \"a\")", "(minus true)", "(minus null)", "(not [1])"][self.rng.below(6) as usize].to_string()),
                7 => ("tyIndexBase", ["1[0]", "\"ab\"[0]", "true[0]", "null[0]"][self.rng.below(4) as usize].to_string()),
                8 => ("tyIndexIdx", ["[1, 2][true]", "[1][\"a\"]", "[1][null]", "[1][[0]]"][self.rng.below(4) as usize].to_string()),
                9 => ("methodUnknown", ["\"a\".push(1)", "[1].trim()", "(1).len()", "\"a\".abs()", "[1].zzz()", "command(\"x\").len()"][self.rng.below(6) as usize].to_string()),
                10 => ("arityMethod", ["\"a\".len(1)", "[1].join()", "\"a\".slice(1)", "(1).abs(2)", "\"a\".find()"][self.rng.below(5) as usize].to_string()),
                11 => ("tyCommandArg", ["command(1)", "command(true)", "command([1])"][self.rng.below(3) as usize].to_string()),
                12 => (
                    "tyMethodArg",
                    ["[1].join(2)", "[1].join(true)", "\"abc\".find(5)", "\"abc\".slice(\"a\", 1)", "\"abc\".slice(0, null)",
                        "\"abc\".replace(1, \"b\")", "\"abc\".replace(\"a\", [])", "\"a b\".split(1)"][self.rng.below(8) as usize]
                        .to_string(),
                ),
                _ => continue,
            };
            self.mark(rule, site);
            return text;
        }
    }

    fn expr(&mut self, want: Ty, depth: usize, site: &str) -> String {
        if self.wild {
            return self.wild_expr(depth);
        }
        if self.hit() {
            return self.bad_expr(site);
        }
        let leaf = depth == 0 || self.rng.chance(1, 3);
        match want {
            Ty::Num => {
                if leaf {
                    if self.rng.chance(1, 2)
                        && let Some(v) = self.var_of(&[Ty::Num, Ty::Dyn])
                    {
                        return v;
                    }
                    return self.lit(Ty::Num);
                }
                match self.rng.below(6) {
                    0..=2 => {
                        let op = ["add", "minus", "times", "divide", "mod"][self.rng.below(5) as usize];
                        // `p add q` with two statically dynamic operands is typed *string* by the
                        // checker (finding D-09e): keep one operand static
                        self.nodyn += usize::from(op == "add");
                        let l = self.expr(Ty::Num, depth - 1, site);
                        self.nodyn -= usize::from(op == "add");
                        format!("({l} {op} {})", self.expr(Ty::Num, depth - 1, site))
                    }
                    3 => {
                        self.nodyn += 1;
                        let e = self.expr(Ty::Num, depth - 1, site);
                        self.nodyn -= 1;
                        format!("(minus {e})")
                    }
                    4 => format!("{}.len()", self.expr(Ty::Str, depth - 1, site)),
                    _ => {
                        if self.nodyn > 0 {
                            return self.lit(Ty::Num);
                        }
                        if let Some(v) = self.var_of(&[Ty::Arr, Ty::Dyn]) {
                            format!("{v}[{}]", self.expr(Ty::Num, depth - 1, "idx"))
                        } else {
                            format!("{}.len()", self.expr(Ty::Arr, depth - 1, site))
                        }
                    }
                }
            }
            Ty::Str => {
                if leaf {
                    if self.rng.chance(1, 2)
                        && let Some(v) = self.var_of(&[Ty::Str])
                    {
                        return v;
                    }
                    return self.string_lit(site);
                }
                match self.rng.below(6) {
                    0 | 1 => format!("({} add {})", self.expr(Ty::Str, depth - 1, site), self.expr(Ty::Str, depth - 1, site)),
                    2 => format!("({} add {})", self.expr(Ty::Str, depth - 1, site), self.expr(Ty::Num, depth - 1, site)),
                    3 => format!("to_string({})", self.expr(Ty::Unk, depth - 1, "arg")),
                    4 => format!("typeof({})", self.expr(Ty::Unk, depth - 1, "arg")),
                    _ => {
                        let m = ["to_uppercase()", "trim()", "to_lowercase()"][self.rng.below(3) as usize];
                        format!("{}.{m}", self.expr(Ty::Str, depth - 1, site))
                    }
                }
            }
            Ty::Bool => {
                if leaf {
                    if self.rng.chance(1, 2)
                        && let Some(v) = self.var_of(&[Ty::Bool, Ty::Dyn])
                    {
                        return v;
                    }
                    return self.lit(Ty::Bool);
                }
                match self.rng.below(6) {
                    0 | 1 => {
                        let op = ["na", "pass", "small pass"][self.rng.below(3) as usize];
                        format!("({} {op} {})", self.expr(Ty::Num, depth - 1, site), self.expr(Ty::Num, depth - 1, site))
                    }
                    2 => {
                        let op = ["na", "pass", "small pass"][self.rng.below(3) as usize];
                        format!("({} {op} {})", self.expr(Ty::Str, depth - 1, site), self.expr(Ty::Str, depth - 1, site))
                    }
                    3 | 4 => {
                        let op = ["and", "or"][self.rng.below(2) as usize];
                        format!("({} {op} {})", self.expr(Ty::Bool, depth - 1, site), self.expr(Ty::Bool, depth - 1, site))
                    }
                    _ => {
                        self.nodyn += 1;
                        let e = self.expr(Ty::Bool, depth - 1, site);
                        self.nodyn -= 1;
                        format!("(not {e})")
                    }
                }
            }
            Ty::Arr => {
                if leaf
                    && self.rng.chance(1, 2)
                    && let Some(v) = self.var_of(&[Ty::Arr])
                {
                    return v;
                }
                let n = self.rng.below(3);
                let d = depth.saturating_sub(1);
                let items: Vec<String> = (0..n).map(|_| self.expr(Ty::Unk, d, "elem")).collect();
                format!("[{}]", items.join(", "))
            }
            Ty::Dyn | Ty::Unk => {
                let fns = self.visible_fns();
                if !fns.is_empty() && depth > 0 && self.rng.chance(1, 3) {
                    let (n, a) = self.rng.pick(&fns).clone();
                    let args: Vec<String> = (0..a).map(|_| self.expr(Ty::Unk, depth - 1, "arg")).collect();
                    return format!("{n}({})", args.join(", "));
                }
                if leaf
                    && self.rng.chance(1, 3)
                    && let Some(v) = self.var_of(&[Ty::Num, Ty::Str, Ty::Bool, Ty::Arr, Ty::Dyn, Ty::Unk])
                {
                    return v;
                }
                let t = [Ty::Num, Ty::Str, Ty::Bool, Ty::Arr][self.rng.below(4) as usize];
                self.expr(t, depth, site)
            }
        }
    }

    /// Expressions with no regard to scoping or typing (for the tie only).
    fn wild_expr(&mut self, depth: usize) -> String {
        let name = |g: &mut Self| (*g.rng.pick(VARS)).to_string();
        if depth == 0 || self.rng.chance(1, 3) {
            return match self.rng.below(8) {
                0 => "1".into(),
                1 => "\"s\"".into(),
                2 => "true".into(),
                3 => "null".into(),
                4 => format!("\"i {{{}}} j {{{}}}\"", name(self), name(self)),
                5 => "[]".into(),
                _ => name(self),
            };
        }
        let d = depth - 1;
        match self.rng.below(12) {
            0..=2 => {
                let op = BINOPS[self.rng.below(BINOPS.len() as u64) as usize].1;
                format!("({} {op} {})", self.wild_expr(d), self.wild_expr(d))
            }
            3 => format!("({} {})", ["not", "minus"][self.rng.below(2) as usize], self.wild_expr(d)),
            4 => format!("{}[{}]", self.wild_expr(d), self.wild_expr(d)),
            5 => format!("[{}, {}]", self.wild_expr(d), self.wild_expr(d)),
            6 | 7 => {
                let f = if self.rng.chance(1, 3) { *self.rng.pick(GLOBAL_NAMES) } else { *self.rng.pick(FNS) };
                let n = self.rng.below(3);
                let args: Vec<String> = (0..n).map(|_| self.wild_expr(d)).collect();
                format!("{f}({})", args.join(", "))
            }
            8..=10 => {
                let m = *self.rng.pick(MEMBER_NAMES);
                let n = self.rng.below(3);
                let args: Vec<String> = (0..n).map(|_| self.wild_expr(d)).collect();
                let recv = if self.rng.chance(1, 2) { name(self) } else { format!("({})", self.wild_expr(d)) };
                format!("{recv}.{m}({})", args.join(", "))
            }
            _ => format!("({}).q", self.wild_expr(d)),
        }
    }

    fn declare(&mut self, name: &str, t: Ty) {
        let fr = self.frames.last_mut().unwrap();
        if let Some(e) = fr.vars.iter_mut().find(|(n, _)| n == name) {
            e.1 = t;
        } else {
            fr.vars.push((name.to_string(), t));
        }
    }

    fn nested<T>(&mut self, tag: char, f: impl FnOnce(&mut Self) -> T) -> T {
        self.path.push(tag);
        let r = f(self);
        self.path.pop();
        r
    }

    /// A violating statement for a statement-position opportunity.
    fn bad_stmt(&mut self) -> String {
        loop {
            let (rule, text): (&str, String) = match self.rng.below(11) {
                0 => ("assignUndeclared", format!("{} get 1", self.unbound_name())),
                10 => ("badIndexRoot", ["[1, 2][0] get 3", "to_string(1)[0] get 2", "(\"a\".split(\"b\"))[0] get 1"][self.rng.below(3) as usize].to_string()),
                1 if self.loops == 0 => ("breakOutside", "comot".into()),
                2 if self.loops == 0 => ("continueOutside", "next".into()),
                3 if !self.in_fn => ("returnOutside", (if self.rng.chance(1, 2) { "return 1" } else { "return null" }).to_string()),
                4 => ("reservedVar", format!("make {} get 1", self.rng.pick(GLOBAL_NAMES))),
                5 => ("reservedFn", format!("do {}() start end", self.rng.pick(GLOBAL_NAMES))),
                6 => {
                    self.fresh += 1;
                    ("reservedParam", format!("do r{}(a, {}) start end", self.fresh, self.rng.pick(GLOBAL_NAMES)))
                }
                7 => {
                    self.fresh += 1;
                    ("dupParam", format!("do r{}(a, b, a) start end", self.fresh))
                }
                8 => {
                    let own = self.frames.last().unwrap().fns.clone();
                    if !own.is_empty() && self.rng.chance(2, 3) {
                        let (n, _) = self.rng.pick(&own).clone();
                        ("dupFunction", format!("do {n}() start end"))
                    } else {
                        self.fresh += 1;
                        let n = format!("r{}", self.fresh);
                        // both definitions are hoisted: register the name so that later code may call it
                        self.frames.last_mut().unwrap().fns.push((n.clone(), 0));
                        ("dupFunction", format!("do {n}() start end\ndo {n}(a) start end"))
                    }
                }
                _ => continue,
            };
            self.mark(rule, "stmt");
            return text;
        }
    }

    fn cond(&mut self, site: &str) -> String {
        if !self.wild && self.hit() {
            self.mark("tyCond", site);
            return ["1", "\"a\"", "[true]", "(1 add 2)"][self.rng.below(4) as usize].to_string();
        }
        self.expr(Ty::Bool, 2, site)
    }

    fn stmt(&mut self, depth: usize) -> String {
        self.budget -= 1;
        if !self.wild && self.hit() {
            return self.bad_stmt();
        }
        let vis = self.visible();
        let can_nest = depth > 0 && self.budget > 0;
        loop {
            match self.rng.below(16) {
                0..=3 => {
                    // make: new name, or re-declaration / shadowing of a visible one
                    let name = if !vis.is_empty() && self.rng.chance(1, 2) { self.rng.pick(&vis).0.clone() } else { (*self.rng.pick(VARS)).to_string() };
                    let t = [Ty::Num, Ty::Str, Ty::Bool, Ty::Arr, Ty::Unk][self.rng.below(5) as usize];
                    if self.rng.chance(1, 12) {
                        self.declare(&name, Ty::Unk);
                        return format!("make {name}");
                    }
                    let e = self.expr(t, 2, "init");
                    // the checker types a dynamic variable or an index expression as Dynamic
                    let is_ident = e.chars().all(|c| c.is_ascii_alphanumeric());
                    let dynamic = (is_ident && self.visible().iter().any(|(n, t)| *n == e && *t == Ty::Dyn))
                        || (!e.starts_with('[') && !e.starts_with('(') && e.ends_with(']'));
                    self.declare(&name, if self.wild { Ty::Unk } else if dynamic && t != Ty::Unk { Ty::Dyn } else { t });
                    return format!("make {name} get {e}");
                }
                4 | 5 if !vis.is_empty() || self.wild => {
                    let name = if self.wild { (*self.rng.pick(VARS)).to_string() } else { self.rng.pick(&vis).0.clone() };
                    let e = self.expr(Ty::Unk, 2, "rhs");
                    return format!("{name} get {e}");
                }
                6 => {
                    if let Some(v) = self.var_of(&[Ty::Arr, Ty::Dyn]) {
                        let i = self.expr(Ty::Num, 1, "idx");
                        let e = self.expr(Ty::Unk, 1, "rhs");
                        return format!("{v}[{i}] get {e}");
                    }
                }
                7 => {
                    if let Some(v) = self.var_of(&[Ty::Arr]) {
                        return match self.rng.below(3) {
                            0 => format!("{v}.push({})", self.expr(Ty::Unk, 1, "arg")),
                            1 => format!("{v}.pop()"),
                            _ => format!("{v}.reverse()"),
                        };
                    }
                }
                8 | 9 => {
                    let e = self.expr(Ty::Unk, 2, "arg");
                    return format!("shout({e})");
                }
                10 if can_nest => {
                    let c = self.cond("if-cond");
                    let t = self.nested('I', |g| g.block(depth - 1, false));
                    if self.rng.chance(1, 2) {
                        let e = self.nested('I', |g| g.block(depth - 1, false));
                        return format!("if to say ({c}) start\n{t}\nend if not so start\n{e}\nend");
                    }
                    return format!("if to say ({c}) start\n{t}\nend");
                }
                11 if can_nest => {
                    let c = self.cond("loop-cond");
                    self.loops += 1;
                    let b = self.nested('L', |g| g.block(depth - 1, false));
                    self.loops -= 1;
                    return format!("jasi ({c}) start\n{b}\nend");
                }
                12 if can_nest => {
                    let b = self.nested('B', |g| g.block(depth - 1, false));
                    return format!("start\n{b}\nend");
                }
                13 if self.in_fn || self.wild => {
                    // (a bare `return` is only generated as the last statement of a body: followed by
                    // a statement it would parse as `return <expr>`)
                    let e = self.expr(Ty::Unk, 2, "ret");
                    return format!("return {e}");
                }
                14 if self.loops > 0 || self.wild => {
                    return (if self.rng.chance(1, 2) { "comot" } else { "next" }).to_string();
                }
                15 => {
                    let fns = self.visible_fns();
                    if !fns.is_empty() {
                        let (n, a) = self.rng.pick(&fns).clone();
                        let args: Vec<String> = (0..a).map(|_| self.expr(Ty::Unk, 1, "arg")).collect();
                        return format!("{n}({})", args.join(", "));
                    }
                }
                _ => {}
            }
        }
    }

    fn fndef(&mut self, name: &str, arity: usize, depth: usize) -> String {
        let mut params: Vec<String> = Vec::new();
        while params.len() < arity {
            let p = if self.wild { (*self.rng.pick(VARS)).to_string() } else { format!("{}", self.rng.pick(VARS)) };
            if self.wild || !params.contains(&p) {
                params.push(p);
            }
        }
        let (loops, in_fn) = (self.loops, self.in_fn);
        self.loops = 0;
        self.in_fn = true;
        self.frames.push(Frame { vars: params.iter().map(|p| (p.clone(), Ty::Dyn)).collect(), fns: Vec::new() });
        let body = self.nested('F', |g| g.block(depth.saturating_sub(1), true));
        self.frames.pop();
        self.loops = loops;
        self.in_fn = in_fn;
        format!("do {name}({}) start\n{body}\nend", params.join(", "))
    }

    /// The statements of one block; its functions are planned first because they are visible
    /// throughout the block (forward references, recursion).
    fn block(&mut self, depth: usize, fn_body: bool) -> String {
        self.frames.push(Frame::default());
        let n = 1 + self.rng.below(if depth > 1 { 6 } else { 4 }) as usize;
        let mut plan: Vec<(usize, String, usize)> = Vec::new();
        if depth > 0 && self.budget > 0 {
            let nf = match self.rng.below(6) {
                0 | 1 => 1,
                2 => 2,
                _ => 0,
            };
            for _ in 0..nf {
                let name = (*self.rng.pick(FNS)).to_string();
                if self.wild || !plan.iter().any(|(_, m, _)| *m == name) {
                    let arity = self.rng.below(3) as usize;
                    plan.push((self.rng.below(n as u64) as usize, name.clone(), arity));
                    if !self.frames.last().unwrap().fns.iter().any(|(m, _)| *m == name) {
                        self.frames.last_mut().unwrap().fns.push((name, arity));
                    }
                }
            }
        }
        let mut stmts = Vec::new();
        for i in 0..n {
            for (_, name, arity) in plan.clone().iter().filter(|(at, _, _)| *at == i) {
                stmts.push(self.fndef(name, *arity, depth));
            }
            stmts.push(self.stmt(depth));
        }
        if fn_body && self.rng.chance(1, 2) {
            if self.rng.chance(1, 4) {
                stmts.push("return".to_string());
            } else {
                let e = self.expr(Ty::Unk, 1, "ret");
                stmts.push(format!("return {e}"));
            }
        }
        self.frames.pop();
        stmts.join("\n")
    }
}

pub(crate) fn gen_program(rng: &mut Rng, inject: Option<i64>, wild: bool) -> (String, Option<String>) {
    let mut g = Gen {
        rng,
        frames: Vec::new(),
        loops: 0,
        in_fn: false,
        path: String::new(),
        inject,
        injected: None,
        wild,
        budget: 14,
        fresh: 0,
        nodyn: 0,
    };
    let src = g.block(3, false);
    (src, g.injected)
}

/// (Mutually) recursive functions whose return value combines the result of a call in the cycle
/// with a literal — often of ANOTHER type than the call's inferred one — by a comparison, arithmetic,
/// a logical or unary operator, an index or a method: the inferred return type of such a function
/// need not settle (`f() na 1` is boolean while `f` is still dynamic, untypable once `f` is boolean),
/// so return-type inference over the functions of a block must be bounded. The cycle sits at top
/// level or inside a block / loop / branch / function body; forwarders (`return g(n)`), base cases
/// and users of the result in typed positions are mixed in. `callable`: every function has a base
/// case and only decrementing calls, and the program calls into the cycle (it terminates at run time).
pub(crate) fn gen_rec_program(rng: &mut Rng, callable: bool) -> String {
    const NAMES: &[&str] = &["f", "g", "h", "ra", "rb", "rc"];
    // weighted: numbers and strings most often (a comparison with them is accepted while the call is
    // still dynamic), arrays and null rarely (mostly rejected outright)
    const LITS: &[&str] = &[
        "1", "1", "0", "2.5", "10", "1", "\"s\"", "\"s\"", "\"\"", "\"a b\"", "true", "true", "false", "null", "[1]", "[]",
    ];
    const CMP: &[&str] = &["na", "pass", "small pass"];
    const ARI: &[&str] = &["add", "minus", "times", "divide", "mod"];
    const LOG: &[&str] = &["and", "or"];
    let k = 1 + rng.below(3) as usize;
    let first = rng.below(NAMES.len() as u64) as usize;
    let names: Vec<&str> = (0..k).map(|i| NAMES[(first + i) % NAMES.len()]).collect();
    let arity = if callable { 1 } else { rng.below(3) as usize };
    let params = ["n", "m", "p"][..arity].join(", ");
    let call = |rng: &mut Rng, callee: &str, decrement: bool| -> String {
        let args: Vec<String> = (0..arity)
            .map(|i| {
                if i == 0 && (decrement || rng.chance(1, 2)) {
                    "n minus 1".to_string()
                } else if i == 0 && callable {
                    "n".to_string()
                } else {
                    (*rng.pick(&["n", "1", "0", "\"a\"", "true"])).to_string()
                }
            })
            .collect();
        format!("{callee}({})", args.join(", "))
    };
    let forwarder = if k > 1 && rng.chance(1, 2) { Some(rng.below(k as u64) as usize) } else { None };
    let mut defs: Vec<String> = Vec::new();
    for i in 0..k {
        // (a forwarder must not forward to itself: with `callable` the program has to terminate)
        let next = if forwarder != Some(i) && rng.chance(1, 5) { names[i] } else { names[(i + 1) % k] };
        let mut body = String::new();
        if arity > 0 && (callable || rng.chance(1, 2)) {
            let base = if rng.chance(1, 2) { (*rng.pick(LITS)).to_string() } else { "true".to_string() };
            body.push_str(&format!("    if to say (n small pass 1) start\n        return {base}\n    end\n"));
        }
        if forwarder == Some(i) {
            // the forwarder passes `n` on unchanged; the other members decrement
            let c = if callable { format!("{next}(n)") } else { call(rng, next, false) };
            body.push_str(&format!("    return {c}\n"));
        } else {
            let c = call(rng, next, callable);
            let lit = *rng.pick(LITS);
            let e = match rng.below(14) {
                0..=3 => format!("{c} {} {lit}", rng.pick(CMP)),
                4 => format!("{lit} {} {c}", rng.pick(CMP)),
                5 | 6 => format!("{c} {} {lit}", rng.pick(ARI)),
                7 => format!("{lit} {} {c}", rng.pick(ARI)),
                8 => format!("{c} {} {lit}", rng.pick(LOG)),
                9 => format!("{} {c}", rng.pick(&["not", "minus"])),
                10 => format!("({c} {} {lit}) {} {}", rng.pick(CMP), rng.pick(&["na", "and", "or", "add"]), rng.pick(LITS)),
                11 => format!("{c} {} {}", rng.pick(CMP), call(rng, names[i], callable)),
                12 => (*rng.pick(&["{C}[0]", "[{C}]", "{C}.len()", "to_string({C})", "typeof({C}) na 1", "\"{n}\" na {C}"])).replace("{C}", &c),
                _ => format!("{c} {} {lit} {} {}", rng.pick(CMP), rng.pick(CMP), rng.pick(LITS)),
            };
            // the trailing `"{n}"` shape needs a parameter
            let e = if arity == 0 { e.replace("\"{n}\"", "\"n\"") } else { e };
            body.push_str(&format!("    return {e}\n"));
        }
        defs.push(format!("do {}({params}) start\n{body}end", names[i]));
    }
    // where the functions are declared relative to their users, and in which order
    if rng.chance(1, 2) {
        defs.reverse();
    }
    let arg = match arity {
        0 => String::new(),
        1 => (*rng.pick(&["2", "3", "1"])).to_string(),
        _ => format!("{}, 0", rng.pick(&["2", "3", "1"])),
    };
    let entry = format!("{}({arg})", names[rng.below(k as u64) as usize]);
    let user = match rng.below(if callable { 4 } else { 9 }) {
        0 => format!("shout({entry})"),
        1 => format!("make v get {entry}\nshout(typeof(v))"),
        2 => format!("shout(to_string({entry}))"),
        3 => "shout(\"ok\")".to_string(),
        4 => format!("make v get {entry} add 1"),
        5 => format!("if to say ({entry}) start\n    shout(1)\nend"),
        6 => format!("make v get {entry} na \"s\""),
        7 => format!("shout(minus {entry})"),
        _ => String::new(),
    };
    let mut parts: Vec<String> = Vec::new();
    if rng.chance(1, 3) {
        parts.push(user.clone());
        parts.extend(defs);
    } else {
        parts.extend(defs);
        parts.push(user.clone());
    }
    let core = parts.into_iter().filter(|p| !p.is_empty()).collect::<Vec<_>>().join("\n");
    // nesting context of the declaring block
    match rng.below(if callable { 3 } else { 7 }) {
        0 | 1 => core,
        2 => format!("start\n{core}\nend"),
        3 => format!("do outer() start\n{core}\nend\nouter()"),
        4 => format!("make i get 0\njasi (i small pass 1) start\n{core}\ni get i add 1\nend"),
        5 => format!("if to say (true) start\n{core}\nend if not so start\n{core}\nend"),
        _ => format!("do outer(q) start\nif to say (q) start\n{core}\nend\nend"),
    }
}

/// Static result types of functions (fix D-09b): a function whose `return` names a variable or calls a
/// function that the function itself binds (parameter, `make` / definition anywhere in its body — also
/// in a nested block, after the `return`, but NOT inside a nested function), that its defining block
/// declares (before or after the definition), or that only the enclosing code declares; the result is
/// used in a typed position inside the defining block (before or after the definition). The expectation
/// comes from the documented rule alone: a name the function or its defining block may bind is dynamic, a
/// name only the enclosing code binds has the declared type it has at the entry of the defining block;
/// all `return`s agreeing give that type, otherwise dynamic.
pub(crate) fn gen_ret_program(rng: &mut Rng) -> (String, String) {
    #[derive(Clone, Copy, PartialEq, Eq)]
    enum T {
        Num,
        Str,
        Bool,
        Arr,
        Dyn,
    }
    const LITS: &[(T, &str)] = &[(T::Num, "1"), (T::Str, "\"s\""), (T::Bool, "true"), (T::Arr, "[1]"), (T::Num, "2.5"), (T::Str, "\"\"")];
    let v = *rng.pick(&["x", "acc", "n"]);
    let f = *rng.pick(&["f", "mk", "get"]);
    let g = *rng.pick(&["g", "h"]);
    let lit = |rng: &mut Rng| *rng.pick(LITS);
    // what the enclosing code (a block around the defining block) declares
    let (t_out, l_out) = lit(rng);
    let (t_gout, l_gout) = lit(rng);
    // the defining block: the root itself (then the "outer" declarations are its own), or nested
    let ctx = rng.below(6);
    let nested = ctx != 0;
    let mut block: Vec<String> = Vec::new(); // statements of the defining block
    // does the defining block declare `v` itself — before the definition, or after it and its use?
    let early_make = nested && rng.chance(1, 5);
    let late_make = nested && !early_make && rng.chance(1, 5);
    let own_make = !nested || early_make || late_make;
    if early_make {
        block.push(format!("make {v} get {}", lit(rng).1));
    }
    let mut t_g = t_gout;
    if nested && rng.chance(1, 5) {
        // the defining block defines `g` itself: simply visible, with its own type
        let (t, l) = lit(rng);
        block.push(format!("do {g}() start return {l} end"));
        t_g = t;
    }
    // the function
    let shape = rng.below(14);
    let (params, mut body, mut t_ret): (&str, Vec<String>, T) = match shape {
        // not bound by the function: the enclosing declaration decides (dynamic if the defining block declares it)
        0 | 1 => ("", vec![format!("return {v}")], if own_make { T::Dyn } else { t_out }),
        // own local, parameter
        2 => ("", vec![format!("make {v} get {}", lit(rng).1), format!("return {v}")], T::Dyn),
        3 => (v, vec![format!("return {v}")], T::Dyn),
        // `make` in a nested block / after the `return` / in a loop body of the function body
        4 => ("", vec![format!("if to say (true) start make {v} get {} end", lit(rng).1), format!("return {v}")], T::Dyn),
        5 => ("", vec![format!("if to say (false) start return {v} end"), format!("make {v} get {}", lit(rng).1)], T::Dyn),
        6 => ("", vec![format!("jasi (false) start make {v} get {} end", lit(rng).1), format!("return {v}")], T::Dyn),
        // bindings inside a NESTED function are not the function's own
        7 => ("", vec![format!("do inner() start make {v} get {} return {v} end", lit(rng).1), format!("return {v}")], if own_make { T::Dyn } else { t_out }),
        8 => ("", vec![format!("do inner({v}) start return {v} end"), format!("return {v}")], if own_make { T::Dyn } else { t_out }),
        // calls: the enclosing function, an own function of the same name (also in a nested block), one inside a nested function
        9 => ("", vec![format!("return {g}()")], t_g),
        10 => ("", vec![format!("do {g}() start return {} end", lit(rng).1), format!("return {g}()")], T::Dyn),
        11 => ("", vec![format!("if to say (true) start do {g}() start return {} end end", lit(rng).1), format!("return {g}()")], T::Dyn),
        12 => ("", vec![format!("do inner() start do {g}() start return {} end end", lit(rng).1), format!("return {g}()")], t_g),
        // typed by the expression around the name
        _ => {
            let (e, t) = match rng.below(4) {
                0 => (format!("\"<{{{v}}}>\""), T::Str),
                1 => (format!("to_string({v})"), T::Str),
                2 => (format!("[{v}]"), T::Arr),
                _ => (format!("[{v}][0]"), T::Dyn),
            };
            ("", vec![format!("return {e}")], t)
        }
    };
    // a second `return` of a literal type: the common type, or dynamic
    if rng.chance(1, 4) {
        let (t2, l2) = lit(rng);
        body.insert(0, format!("if to say (false) start return {l2} end"));
        if t2 != t_ret {
            t_ret = T::Dyn;
        }
    }
    let def = format!("do {f}({params}) start\n{}\nend", body.join("\n"));
    let call = if params.is_empty() { format!("{f}()") } else { format!("{f}({})", lit(rng).1) };
    // the use, with what the documented tables say for the static type `t_ret`
    let (use_, ok, rule): (String, bool, &str) = match rng.below(9) {
        0 => (format!("shout({call} minus 1)"), matches!(t_ret, T::Num | T::Dyn), "tyBinary"),
        1 => (format!("shout({call} add \"s\")"), matches!(t_ret, T::Num | T::Str | T::Dyn), "tyBinary"),
        2 => (format!("shout({call} and true)"), matches!(t_ret, T::Bool | T::Dyn), "tyBinary"),
        3 => (format!("shout({call}[0])"), matches!(t_ret, T::Arr | T::Dyn), "tyIndexBase"),
        4 => (format!("shout([1, 2][{call}])"), matches!(t_ret, T::Num | T::Dyn), "tyIndexIdx"),
        5 => (format!("if to say ({call}) start shout(1) end"), matches!(t_ret, T::Bool | T::Dyn), "tyCond"),
        6 => (format!("shout({call}.len())"), matches!(t_ret, T::Str | T::Arr | T::Dyn), "methodUnknown"),
        7 => (format!("shout(not {call})"), matches!(t_ret, T::Bool | T::Dyn), "tyUnary"),
        _ => (format!("shout(minus {call})"), matches!(t_ret, T::Num | T::Dyn), "tyUnary"),
    };
    if rng.chance(1, 3) {
        block.push(use_);
        block.push(def);
    } else {
        block.push(def);
        block.push(use_);
    }
    if late_make {
        block.push(format!("make {v} get {}", lit(rng).1));
    }
    let core = block.join("\n");
    let outer = format!("make {v} get {l_out}\ndo {g}() start return {l_gout} end");
    let src = match ctx {
        0 => format!("{outer}\n{core}"),
        1 => format!("{outer}\nstart\n{core}\nend"),
        2 => format!("{outer}\nif to say (true) start\n{core}\nend"),
        3 => format!("{outer}\nmake i get 0\njasi (i small pass 1) start\ni get i add 1\n{core}\nend"),
        4 => format!("{outer}\ndo outer() start\nstart\n{core}\nend\nend\nouter()"),
        _ => format!("{outer}\nstart\nstart\n{core}\nend\nend"),
    };
    let exp = if ok { "ok".to_string() } else { format!("{rule}@ret:use") };
    (src, exp)
}

/// Witnesses of the defects D-09c/d/e (all fixed: a recurrence is a violation) and of D-09f (open), each
/// under a little random context. The witnesses of D-09b (fixed) are ordinary cases of `corpus/C09/seeds.src`, and
/// the `ret` stream (`gen_ret_program`) generates their whole family with expectations.
fn finding(rng: &mut Rng, i: u64) -> (String, String) {
    let v = ["x", "v", "acc"][rng.below(3) as usize];
    let f = ["f", "get", "mk"][rng.below(3) as usize];
    let pre = ["", "make z get 1\n", "do unused() start end\n"][rng.below(3) as usize];
    let (tag, body) = match i % 14 {
        0 => ("D-09e:unary-dynamic:reject", format!("do {f}({v}) start return 1 minus (minus {v}) end\nshout({f}(1))")),
        1 => ("D-09e:unary-dynamic:reject", format!("do {f}({v}) start return true and (not {v}) end\nshout({f}(true))")),
        12 => ("D-09e:unary-dynamic:reject", format!("do {f}({v}) start return [1, 2][minus {v}] end\nshout({f}(minus 1))")),
        // OPEN: the result type of `osc` alternates boolean / dynamic and the (two) rounds end with dynamic; in
        // the last round `"s" add osc()` was typed with a boolean `osc`, which the operator table rejects, yet
        // `infer_expr_type` answers string for it: `{f}` is held to be a string and `{f}() minus 1` is rejected
        // although no documented rule is broken (an expression without a static type is dynamic)
        13 => ("D-09f:recovery-type:reject", format!("start\ndo {f}() start return \"s\" add osc() end\ndo osc() start return osc() na 1 end\nshout({f}() minus 1)\nend")),
        2 => ("D-09c:method-literal-arg:accept", "shout(\"abc\".find(5))".to_string()),
        3 => ("D-09c:method-literal-arg:accept", "shout(\"abc\".slice(\"a\", 1))".to_string()),
        4 => ("D-09c:method-literal-arg:accept", "shout(\"abc\".replace(1, \"b\"))".to_string()),
        5 => ("D-09c:bare-member:accept", format!("make {v} get \"s\"\nshout({v}.len)")),
        6 => ("D-09c:call-of-call:accept", format!("do {f}() start return 1 end\nshout({f}()())")),
        7 => ("D-09c:index-assign-call-root:accept", format!("do {f}() start return [1] end\n{f}()[0] get 2")),
        8 => ("D-09d:operator-table:accept", "shout(\"a\" add true)".to_string()),
        9 => ("D-09d:operator-table:accept", "shout(\"a\" add null)".to_string()),
        10 => ("D-09d:operator-table:accept", "shout(null add \"a\")".to_string()),
        _ => ("D-09d:operator-table:accept", "shout(\"a\" add [1])".to_string()),
    };
    (format!("finding:{tag}"), format!("{pre}{body}"))
}

fn generate(args: &[String]) -> i32 {
    let seed = util::opt_u64(args, "--seed", 1);
    let n = util::opt_u64(args, "--n", 1000);
    let kind = util::opt(args, "--kind").unwrap_or("valid");
    let mut rng = Rng::new(seed ^ 0xC09);
    let mut out = Out::new();
    let mut produced = 0;
    let mut tries = 0u64;
    while produced < n && tries < n * 20 {
        tries += 1;
        let (src, exp) = match kind {
            "valid" => {
                let (s, _) = gen_program(&mut rng, None, false);
                (s, Some("ok".to_string()))
            }
            "viol" => {
                let at = rng.below(40) as i64;
                let (s, inj) = gen_program(&mut rng, Some(at), false);
                match inj {
                    Some(tag) => (s, Some(tag)),
                    None => continue, // the program had fewer opportunities than `at`
                }
            }
            "mixed" => {
                let (s, _) = gen_program(&mut rng, None, true);
                (s, None)
            }
            "findings" => {
                let (tag, s) = finding(&mut rng, produced);
                (s, Some(tag))
            }
            "ret" => {
                let (s, exp) = gen_ret_program(&mut rng);
                (s, Some(exp))
            }
            "rec" => {
                // no expectation: these programs serve the tie and the totality oracle (C07)
                let s = gen_rec_program(&mut rng, false);
                if rng.chance(1, 4) {
                    let (pre, _) = gen_program(&mut rng, None, true);
                    (format!("{pre}\n{s}"), None)
                } else {
                    (s, None)
                }
            }
            _ => {
                eprintln!("unknown --kind {kind}");
                return 2;
            }
        };
        // only programs the parser accepts without diagnostics (the CLI resolves nothing else)
        let arena = Arena::new(pipeline::ARENA_CAP).unwrap();
        if !pipeline::with_parsed(&src, &arena, |_, d| d.diagnostics.is_empty()) {
            continue;
        }
        out.line(&request_line("resolve", &src, exp.as_deref()));
        produced += 1;
    }
    0
}
